"""C01 Lazy chained execution equals step-by-step evaluation — structural clauses (DESIGN §5 C01)."""
from rules import framework, stream


def helper_processors(ctx):
    """row / rows / resources helper processors apply the user callable to exactly what the framework hands them."""
    import ast
    from sa.pattern import has_stmt, has_expr, match_block
    from sa.paths import Enumerator
    from sa.model import u
    run, repo = ctx.run, ctx.repo
    run.rule('HLP', 'HELPERS: row_processor returns the result of the callable for the row, or the row itself when the callable returns None '
                    '(in-place editing); rows_processor / resources_processor yield exactly what the callable produces from the stream '
                    'they were given; the dispatcher wraps row / rows / package callables in the matching helper')
    rp = repo.cls('dataflows.helpers.row_processor:row_processor').methods['process_row']
    row = rp.params[1]
    paths = Enumerator(where=rp.qualname).paths(rp.node.body)
    ok = len(paths) == 2 and has_stmt('_ret = self.func(%s)' % row, rp.node)
    for p in paths:
        g = [(u(t), pol) for t, pol in p.guards()]
        rets = [it.node for it in p.items if it.kind == 'return']
        none = any((t.endswith('is None') and pol) or (t.endswith('is not None') and not pol) for t, pol in g)
        if not g or len(rets) != 1:
            ok = False
        elif none:
            ok = ok and u(rets[0].value) == row
        else:
            ok = ok and u(rets[0].value) != row and isinstance(rets[0].value, ast.Name)
    run.check(ok, 'HLP', rp.where, rp.qualname, 'ret = self.func(row); return row if ret is None else ret',
              'a row function\'s result is not what reaches the stream (a falsy result such as {} or 0 must not be replaced by the row)')
    for cq, meth in (('dataflows.helpers.rows_processor:rows_processor', 'process_resource'),
                     ('dataflows.helpers.resources_processor:resources_processor', 'process_resources')):
        m = repo.cls(cq).methods[meth]
        body = [s_ for s_ in m.node.body if not (isinstance(s_, ast.Expr) and isinstance(s_.value, ast.Constant))]
        ok = len(body) == 1 and has_expr('(yield from self.func(%s))' % m.params[1], m.node)
        run.check(ok, 'HLP', m.where, m.qualname, 'yield from self.func(%s)' % m.params[1],
                  'the rows function is not applied to the stream as given, or its output is altered')
    fl = repo.cls('dataflows.base.flow:Flow').methods['_chain']
    want = {'row': 'row_processor', 'rows': 'rows_processor', 'package': 'datapackage_processor'}
    for pname, helper in want.items():
        hits = [n for n in ast.walk(fl.node) if isinstance(n, ast.If) and u(n.test) == "params[0] == %r" % pname]
        ok = len(hits) == 1 and len(hits[0].body) == 1 and u(hits[0].body[0]).startswith('ds = %s(link)(ds, position=position)' % helper)
        run.check(ok, 'HLP', fl.where, fl.qualname, "parameter %r -> %s(link)(ds, position=position)" % (pname, helper),
                  'a callable whose parameter is called %r is not dispatched to %s' % (pname, helper))


def check(ctx):
    run = ctx.run
    framework.r1_dispatch(ctx)
    framework.r2_isolation(ctx)
    framework.r3_entrypoints(ctx)
    framework.r4_pairing(ctx)
    framework.r5_pkg_protocol(ctx)
    # a step that skips an upstream resource without reading it starves the side effects of earlier steps (duplicate's
    # store, join's index): the lazy chain then differs from step-by-step evaluation
    stream.r6_consumption(ctx)
    helper_processors(ctx)
    run.trusted += ['LF1 datapackage.Resource owns a private descriptor; Package.commit() snapshots',
                    'inspect.isfunction / inspect.signature / collections.abc.Iterable behave as documented']
    run.not_decided += ['behavioural equality of lazy and materialised evaluation over all step sequences and inputs '
                        '(interference through shared row objects, order in which user callables observe phases)']
    return ('Static analysis of the working tree: exhaustive path enumeration of the Flow dispatch loop (every path '
            'rebinds the running stream from (link, stream) or raises), def-use check that each step edits a deep copy '
            'of its upstream descriptor, call-shape check that results()/process()/datastream() fold the same chain '
            'and that the shared driver consumes every stream, non-truncating descriptor/stream pairing, and the '
            'package-function typestate (first yield = package, no descriptor write after it) over all function-style '
            'package steps.',
            ['the resolver sees every step: steps are found by role (parameter name `package`), which is the '
             "framework's own dispatch key"])
