"""C01 Lazy chained execution equals step-by-step evaluation — structural clauses (DESIGN §5 C01)."""
from rules import framework, stream


def helper_processors(ctx):
    """row / rows / resources helper processors apply the user callable to exactly what the framework hands them."""
    import ast
    from sa.pattern import has_stmt, has_expr, match_block
    from sa.paths import Enumerator
    from sa.model import u
    run, repo = ctx.run, ctx.repo
    run.rule('HLP', 'HELPERS: row_processor returns the result of the callable for the row, or the row itself when the callable returns None '
                    '(in-place editing); rows_processor / resources_processor yield exactly what the callable produces from the stream '
                    'they were given; the dispatcher wraps row / rows / package callables in the matching helper')
    from sa.model import norm_compare
    from sa.pathvals import PathValues
    from sa.pattern import match_expr, match_stmt
    from sa.deps import names_in, pseudo
    from sa.paths import RAISE
    # the per-row contract is applied by the loops of the base class (yield self.process_row(row) for every row of every resource):
    # a helper that brings stream-level methods of its own replaces those loops - and with them the contract - for its callables
    dsp_ = repo.cls('dataflows.base.datastream_processor:DataStreamProcessor')
    for cq_, allowed_ in (('dataflows.helpers.row_processor:row_processor', {'__init__', 'process_row'}),
                          ('dataflows.helpers.rows_processor:rows_processor', {'__init__', 'process_resource'}),
                          ('dataflows.helpers.resources_processor:resources_processor', {'__init__', 'process_resources'}),
                          ('dataflows.helpers.datapackage_processor:datapackage_processor', {'__init__', 'process_datapackage', 'process_resources'})):
        hc_ = repo.cls(cq_)
        extra_ = sorted(set(hc_.methods) & {'process_row', 'process_resource', 'process_resources', 'process_datapackage', '_process',
                                            'get_iterator', 'safe_process', 'process', 'results'} - allowed_)
        run.check(not extra_, 'HLP', hc_.where, hc_.qualname, '%s overrides only %s' % (hc_.name, sorted(allowed_ - {'__init__'})),
                  '%s overrides %s: the loop of the base class that applies the callable item by item is replaced for every callable '
                  'wrapped in this helper' % (hc_.name, ', '.join(extra_)))
    rp = ctx.N(repo.cls('dataflows.helpers.row_processor:row_processor').methods['process_row'])
    row = rp.params[1]
    paths = Enumerator(where=rp.qualname).paths(rp.node.body)
    ok = bool(paths)
    seen = set()
    applied = 'self.func(%s)' % row
    for p in paths:
        pv = PathValues(p)
        none = None
        for t, pol in pv.guards:
            t, pol = norm_compare(t, pol)
            if match_expr(applied + ' is None', t) is not None:
                none = pol
        if none is None or len(pv.returns) != 1:
            ok = False
            continue
        seen.add(none)
        v = pv.returns[0]
        ok = ok and (u(v) == row if none else match_expr(applied, v) is not None)
    # the callable is applied once: one call in the source, however many times its value is mentioned
    calls = [c for c in ast.walk(rp.node) if isinstance(c, ast.Call) and u(c.func) == 'self.func']
    run.check(ok and seen == {True, False} and len(calls) == 1, 'HLP', rp.where, rp.qualname,
              'ret = self.func(row); return row if ret is None else ret',
              'a row function\'s result is not what reaches the stream (a falsy result such as {} or 0 must not be replaced by the row)')
    for cq, meth in (('dataflows.helpers.rows_processor:rows_processor', 'process_resource'),
                     ('dataflows.helpers.resources_processor:resources_processor', 'process_resources')):
        m = ctx.N(repo.cls(cq).methods[meth])
        body = [s_ for s_ in m.node.body if not (isinstance(s_, ast.Expr) and isinstance(s_.value, ast.Constant))]
        arg = m.params[1]
        ok = len(body) == 1 and (match_stmt('yield from self.func(%s)' % arg, body[0]) is not None or
                                 match_stmt('for _x in self.func(%s):\n    yield _x' % arg, body[0]) is not None)
        if not ok and len(body) == 2 and isinstance(body[0], ast.Assign) and len(body[0].targets) == 1 and \
                isinstance(body[0].targets[0], ast.Name):
            # the result bound to a local first: rows = self.func(resource); yield from rows
            from rules.stream import subst_once as _so
            tmp_ = body[0].targets[0].id
            y_ = body[1].value if isinstance(body[1], ast.Expr) and isinstance(body[1].value, ast.YieldFrom) else None
            ok = y_ is not None and pseudo(y_.value) == tmp_ and match_expr('self.func(%s)' % arg, body[0].value) is not None and \
                sum(1 for n_ in ast.walk(m.node) if isinstance(n_, ast.Name) and n_.id == tmp_) == 2
        run.check(ok, 'HLP', m.where, m.qualname, 'yield from self.func(%s)' % arg,
                  'the rows function is not applied to the stream as given, or its output is altered')
    _flow, fl, loop = framework.find_dispatch_loop(ctx)
    link = loop.target.elts[-1].id if isinstance(loop.target, ast.Tuple) else loop.target.id
    rets = [n for n in ast.walk(fl.node) if isinstance(n, ast.Return) and isinstance(n.value, ast.Name)]
    ds = rets[-1].value.id
    want = {'row': 'row_processor', 'rows': 'rows_processor', 'package': 'datapackage_processor'}
    got = {}
    for p in Enumerator(cap=4096, where=fl.qualname).body_paths(loop):
        if p.term == RAISE:
            continue
        pv = PathValues(p)
        for t, pol in pv.guards:
            t, pol = norm_compare(t, pol)
            if pol and isinstance(t, ast.Compare) and len(t.ops) == 1 and isinstance(t.ops[0], ast.Eq) and \
                    isinstance(t.comparators[0], ast.Constant) and t.comparators[0].value in want and \
                    link in names_in(t.left) and 'signature' in names_in(t.left):
                got.setdefault(t.comparators[0].value, []).append(pv.value(ds))
    # table form of the same dispatch: a dict literal keyed by the parameter names whose value is looked up with the
    # callable's single parameter name and then applied to the link
    tables_ = [d for d in ast.walk(fl.node) if isinstance(d, ast.Dict) and d.keys and
               all(isinstance(k, ast.Constant) and k.value in want for k in d.keys)]
    if not got and len(tables_) == 1:
        tb = tables_[0]
        tname = None
        par = getattr(tb, '_parent', None)
        if isinstance(par, ast.Assign) and pseudo(par.targets[0]):
            tname = pseudo(par.targets[0])
        used = False
        for p in Enumerator(cap=4096, where=fl.qualname).body_paths(loop):
            if p.term == RAISE:
                continue
            v = PathValues(p).value(ds)
            e = match_expr('__W(%s)(%s, position=___)' % (link, ds), v) if v is not None else None
            if e is None:
                continue
            w = e['__W']
            # the looked-up wrapper: <table>.get(<key>) / <table>[<key>], possibly through a local; the key derives from
            # signature(link)
            for _ in range(4):
                if isinstance(w, ast.Name):
                    defs = [a.value for a in ast.walk(fl.node) if isinstance(a, ast.Assign) and pseudo(a.targets[0]) == w.id]
                    # a hoisted helper result: `_ret = None` on the reject arm and `_ret = table.get(key)` on the other
                    defs = [d_ for d_ in defs if not (isinstance(d_, ast.Constant) and d_.value is None)]
                    if len(defs) != 1:
                        break
                    w = defs[0]
            look = None
            if isinstance(w, ast.Call) and isinstance(w.func, ast.Attribute) and w.func.attr == 'get' and len(w.args) == 1:
                look = (w.func.value, w.args[0])
            elif isinstance(w, ast.Subscript):
                look = (w.value, w.slice)
            if isinstance(w, ast.IfExp):
                for arm in (w.body, w.orelse):
                    if isinstance(arm, ast.Call) and isinstance(arm.func, ast.Attribute) and arm.func.attr == 'get' and len(arm.args) == 1:
                        look = (arm.func.value, arm.args[0])
                    elif isinstance(arm, ast.Subscript):
                        look = (arm.value, arm.slice)
            if look is not None and ((tname and pseudo(look[0]) == tname) or look[0] is tb or
                                     (isinstance(look[0], ast.Dict) and ast.dump(look[0]) == ast.dump(tb))):
                key = look[1]
                for _ in range(4):
                    kn = {n.id for n in ast.walk(key) if isinstance(n, ast.Name)}
                    if 'signature' in kn and link in kn:
                        used = True
                        break
                    nxt = None
                    for nm in kn:
                        defs = [a.value for a in ast.walk(fl.node) if isinstance(a, ast.Assign) and pseudo(a.targets[0]) == nm]
                        if len(defs) == 1:
                            nxt = defs[0]
                    if nxt is None:
                        break
                    key = nxt
        if used:
            for k, v in zip(tb.keys, tb.values):
                got.setdefault(k.value, []).append(ast.parse('%s(%s)(%s, position=position)' % (u(v), link, ds), mode='eval').body)
    for pname, helper in want.items():
        vals = got.get(pname, [])
        ok = bool(vals) and all(v is not None and match_expr('%s(%s)(%s, position=___)' % (helper, link, ds), v) is not None for v in vals)
        run.check(ok, 'HLP', fl.where, fl.qualname, "parameter %r -> %s(link)(ds, position=position)" % (pname, helper),
                  'a callable whose parameter is called %r is not dispatched to %s' % (pname, helper))


def check(ctx):
    run = ctx.run
    framework.r1_dispatch(ctx)
    framework.r1c_chain_complete(ctx)
    framework.r1a_arity(ctx)
    framework.r1m_stateless_dispatch(ctx)     # before R1k: a memo moves the decision out of the paths R1k replays
    framework.r1k_dispatch_by_kind(ctx)
    framework.r2_isolation(ctx)
    framework.r3_entrypoints(ctx)
    framework.r4_pairing(ctx)
    framework.r5_pkg_protocol(ctx)
    # a step that skips an upstream resource without reading it starves the side effects of earlier steps (duplicate's
    # store, join's index): the lazy chain then differs from step-by-step evaluation
    stream.r6_consumption(ctx)
    # the iterator of resources is advanced one resource at a time: a step that collects upstream *resources* into a container
    # (list(package), [r, *islice(it, n)], ...) pulls later resources - and everything upstream steps do between resources -
    # before the rows of the current one were read; step-by-step evaluation on materialised data does not show that
    from rules import rows
    rows.r13_no_materialise(ctx, rule='R13r', min_level=2)
    helper_processors(ctx)
    # results(), process() and datastream() of one Flow object give the same outcome only if each call evaluates the steps afresh:
    # either _chain builds new helper processors on every call, or those helpers hold nothing a run uses up
    from rules import independence as _ind
    _ind.r34_one_shot(ctx, helpers_only=True)
    # results() differs from process() / datastream() only by passing every row through the schema validator: the three give the same
    # rows only if the validator yields each row itself with, per checked field, the field's own cast of that row's value - a value
    # shared between rows, or taken from another row, makes a later step's in-place edit visible in rows still upstream (shared clause
    # with C14)
    from checks import C14
    C14.validator_loop(ctx)
    run.trusted += ['LF1 datapackage.Resource owns a private descriptor; Package.commit() snapshots',
                    'inspect.isfunction / inspect.signature / collections.abc.Iterable behave as documented']
    run.not_decided += ['behavioural equality of lazy and materialised evaluation over all step sequences and inputs '
                        '(interference through shared row objects, order in which user callables observe phases)']
    return ('Static analysis of the working tree: exhaustive path enumeration of the Flow dispatch loop (every path '
            'rebinds the running stream from (link, stream) or raises), def-use check that each step edits a deep copy '
            'of its upstream descriptor, call-shape check that results()/process()/datastream() fold the same chain '
            'and that the shared driver consumes every stream, non-truncating descriptor/stream pairing, and the '
            'package-function typestate (first yield = package, no descriptor write after it) over all function-style '
            'package steps.',
            ['the resolver sees every step: steps are found by role (parameter name `package`), which is the '
             "framework's own dispatch key"])
