"""C01 Lazy chained execution equals step-by-step evaluation — structural clauses (DESIGN §5 C01)."""
from rules import framework, stream


def check(ctx):
    run = ctx.run
    framework.r1_dispatch(ctx)
    framework.r2_isolation(ctx)
    framework.r3_entrypoints(ctx)
    framework.r4_pairing(ctx)
    framework.r5_pkg_protocol(ctx)
    # a step that skips an upstream resource without reading it starves the side effects of earlier steps (duplicate's
    # store, join's index): the lazy chain then differs from step-by-step evaluation
    stream.r6_consumption(ctx)
    run.trusted += ['LF1 datapackage.Resource owns a private descriptor; Package.commit() snapshots',
                    'inspect.isfunction / inspect.signature / collections.abc.Iterable behave as documented']
    run.not_decided += ['behavioural equality of lazy and materialised evaluation over all step sequences and inputs '
                        '(interference through shared row objects, order in which user callables observe phases)']
    return ('Static analysis of the working tree: exhaustive path enumeration of the Flow dispatch loop (every path '
            'rebinds the running stream from (link, stream) or raises), def-use check that each step edits a deep copy '
            'of its upstream descriptor, call-shape check that results()/process()/datastream() fold the same chain '
            'and that the shared driver consumes every stream, non-truncating descriptor/stream pairing, and the '
            'package-function typestate (first yield = package, no descriptor write after it) over all function-style '
            'package steps.',
            ['the resolver sees every step: steps are found by role (parameter name `package`), which is the '
             "framework's own dispatch key"])
