"""C02 Emitted rows always agree with the emitted descriptor (DESIGN §5 C02)."""
import ast

from rules import abstypes, coupling, framework, stream
from sa.loader import AnalysisError
from sa.model import matcher_names, package_steps, processor_classes

FIELD_STEPS = ['delete_fields', 'select_fields', 'rename_fields', 'unpivot', 'add_computed_field', 'concatenate']


def check(ctx):
    run = ctx.run
    # 1. one stream per descriptor, same order
    framework.r4_pairing(ctx)
    stream.pk_writers(ctx)
    stream.r6_consumption(ctx)
    stream.r6_count_agreement(ctx)
    stream.r26_append_order(ctx)
    # 2. rows carry exactly the declared fields
    steps = []
    for n in FIELD_STEPS:
        q = 'dataflows.processors.%s:%s.func' % (n, n)
        steps.append(ctx.repo.func(q))
    n11 = coupling.r11_function_steps(ctx, steps)
    run.floor('R11', n11, 6, 'field-changing steps')
    # rows are rebuilt key by key (simultaneous mapping), values untouched
    from checks import C15
    C15.select_delete_rename(ctx)
    # concatenate: the target declares exactly the requested fields and the row builder is given the same names (shared with C16)
    from checks import C16
    C16.concatenate_target_schema(ctx)
    # ... and the rows of the target are rebuilt from those names, one per source row, for every resource of the run; one descriptor
    # for the run of streams that are chained (shared with C16 / C10)
    C16.concatenate_clauses(ctx)
    # 2b. rows re-read from a stream file / reused checkpoint carry values of their declared types only if every tagged value
    #     is decoded back (the decoder swallows parse errors and returns the tag dict): writer / reader agreement of the encoding
    from checks import C07
    C07.ejson_agreement(ctx)
    # 3. value types that are a table
    abstypes.r18_join_aggregators(ctx)
    abstypes.r18_target_field(ctx)
    abstypes.r18_computed_field(ctx)
    # R18c evaluates each operation on a list of values of the source fields' type: that is what the operation receives only if the
    # row wrapper hands it exactly the row's non-null source values, untouched (shared clause with C15)
    C15.computed_field_clause(ctx)
    C15.computed_field_schema_clause(ctx)
    abstypes.r18_reuse_guard(ctx)
    ft = ctx.N(ctx.repo.func('dataflows.helpers.iterable_loader:iterable_storage.field_type'))     # (a classifier helper is part of it)
    abstypes.r17_isinstance_order(ctx, [ft])
    want = {'str': 'string', 'bool': 'boolean', 'int': 'integer', '(float, decimal.Decimal)': 'number', 'list': 'array',
            'dict': 'object', 'datetime.datetime': 'datetime', 'datetime.date': 'date'}
    got = {}
    import ast as _ast
    from sa.model import u as _u
    for n in _ast.walk(ft.node):
        if isinstance(n, _ast.If) and isinstance(n.test, _ast.Call) and _u(n.test.func) == 'isinstance' and len(n.body) == 1:
            c = n.body[0].value if isinstance(n.body[0], _ast.Expr) else None
            if isinstance(c, _ast.Call) and _u(c.func).endswith('.add') and isinstance(c.args[0], _ast.Constant):
                got[_u(n.test.args[1])] = c.args[0].value
            # the same chain handing the type name out through a local (an inlined classifier): `x = 'string'` ... types.add(x)
            a_ = n.body[0]
            if isinstance(a_, _ast.Assign) and isinstance(a_.targets[0], _ast.Name) and isinstance(a_.value, _ast.Constant) and \
                    isinstance(a_.value.value, str) and any(isinstance(c2, _ast.Call) and _u(c2.func).endswith('.add') and c2.args and
                                                           isinstance(c2.args[0], _ast.Name) for c2 in _ast.walk(ft.node)):
                got[_u(n.test.args[1])] = a_.value.value
    from rules.abstypes import table_dispatch as _td
    for _subj, _pairs, _lp, _test, _pv in _td(ctx, ft):
        # table form: the loop body adds the pair's second element
        adds = [c for c in _ast.walk(_test) if isinstance(c, _ast.Call) and _u(c.func).endswith('.add') and c.args
                and isinstance(c.args[0], _ast.Name) and c.args[0].id == _pv]
        if adds:
            for cexpr, pexpr in _pairs:
                if isinstance(pexpr, _ast.Constant):
                    got[_u(cexpr)] = pexpr.value
    run.rule('R16i', 'INFERENCE-TABLE: each Python class of a sampled value maps to the Table Schema type that accepts it; a column whose '
                     'sample shows more than one type (or none) is declared "any"')
    run.check(got == want, 'R16i', ft.where, ft.qualname, 'class -> type table %s' % sorted(got.items()),
              'the inferred type for some Python class is one that rejects values of that class: %s'
              % sorted(set(got.items()) ^ set(want.items())))
    # exactly one type seen -> that type; none or several -> 'any'   (decided on the returns: whatever the spelling of the test)
    from sa.model import norm_compare as _nc2
    from sa.pattern import match_expr as _me2
    rets_ = [r_ for r_ in _ast.walk(ctx.N(ft).node) if isinstance(r_, _ast.Return) and r_.value is not None]
    seen_r = {}
    for r_ in rets_:
        one = None
        cur = r_
        while getattr(cur, '_parent', None) is not None and one is None:
            par = cur._parent
            if isinstance(par, _ast.If) and (any(cur is x for x in par.body) or any(cur is x for x in par.orelse)):
                t_, pol_ = _nc2(par.test, any(cur is x for x in par.body))
                if _me2('len(_t) == 1', t_) is not None:
                    one = pol_
                elif _me2('len(_t) != 1', t_) is not None:
                    one = not pol_
            cur = par
        seen_r[one] = r_.value
    okr = set(seen_r) == {True, False} and _me2('_t.pop()', seen_r[True]) is not None and \
        isinstance(seen_r[False], _ast.Constant) and seen_r[False].value == 'any'
    run.check(okr, 'R16i', ft.where, ft.qualname,
              "mixed or empty sample -> 'any'", 'a column with values of several types is declared with one of them')
    # 3b. the rows of an in-memory source go out through the Resource whose schema was inferred from them: Resource.iter(keyed=True)
    #     projects every row onto the inferred header list, so a later row with a key the first row lacks cannot carry a field the
    #     descriptor does not declare.  Reading the source rows directly (and only casting the declared fields) lets such keys through.
    run.rule('R11i', 'ITERABLE-PROJECTION: the stream iterable_loader adds is <the Resource it inferred>.iter(keyed=True ...): rows are '
                     'rebuilt from the inferred header list, never taken from the source as they are')
    il = ctx.repo.cls('dataflows.helpers.iterable_loader:iterable_loader')
    prs = ctx.N(il.methods['process_resources'])
    pdp = ctx.N(il.methods['process_datapackage'])
    import ast as _a2
    from sa.deps import pseudo as _ps
    from sa.normalize import resolve_here as _rh
    res_attrs = {_ps(a_.targets[0]) for a_ in _a2.walk(pdp.node) if isinstance(a_, _a2.Assign) and len(a_.targets) == 1
                 and isinstance(a_.value, _a2.Call) and ctx.res.external_name(a_.value) in ('datapackage.Resource', 'datapackage.resource.Resource')}
    ys = [y for y in _a2.walk(prs.node) if isinstance(y, _a2.Yield) and y.value is not None]
    okp = bool(res_attrs) and len(ys) == 1
    if okp:
        v = _rh(ys[0].value)
        okp = isinstance(v, _a2.Call) and isinstance(v.func, _a2.Attribute) and v.func.attr == 'iter' and _ps(v.func.value) in res_attrs \
            and any(k.arg == 'keyed' and isinstance(k.value, _a2.Constant) and k.value.value is True for k in v.keywords)
    run.check(okp, 'R11i', prs.where, prs.qualname, 'yield self.res.iter(keyed=True)',
              'the rows of the added resource are not read through the inferred Resource: keys that are not in the inferred schema '
              'reach the stream as undeclared fields')
    # 4. selected-only edits
    funcs = [fi for fi in package_steps(ctx.repo) if matcher_names(ctx.repo, ctx.res, fi)]
    for c in processor_classes(ctx.repo, ctx.res):
        m = c.methods.get('process_datapackage')
        if m is not None and matcher_names(ctx.repo, ctx.res, m):
            funcs.append(m)
    stream.r7_guard_dominance(ctx, funcs)
    from rules import independence
    independence.r28_functions(ctx, [('dataflows.helpers.iterable_loader:iterable_loader.handle_iterable',
                                      {'__kinds__': ('WRITE_ONCE',)})])
    n29 = stream.r29_no_shared_fields(ctx, stream.package_phase_functions(ctx))
    run.floor('R29', n29, 8, 'schema field stores')
    # 4b. package metadata given by the user never replaces the resource list: update_package(**metadata) copies the mapping into the
    #     package descriptor wholesale, so the 'resources' key is taken out first (a replaced list no longer pairs with the streams)
    run.rule('UPK', "USER-METADATA: update_package removes 'resources' from the user's mapping before it updates the package descriptor "
                    'with it')
    up0 = ctx.repo.func('dataflows.processors.update_package:update_package')
    up = ctx.N(up0)         # helpers inlined (a `_without_resources(metadata)` helper), module constants folded
    import ast as _a3
    from sa.loader import own_nodes as _own
    from sa.model import u as _u3, where as _w3
    from sa.deps import pseudo as _p3
    inner = [x for x in up.node.body if isinstance(x, _a3.FunctionDef)]
    inner_n = []
    for f_ in inner:
        g_ = ctx.repo.func_of_node.get(id([x for x in up0.node.body if isinstance(x, _a3.FunctionDef) and x.name == f_.name][0]))
        inner_n.append(ctx.N(g_).node if g_ is not None else f_)
    ups = []
    for f_ in inner_n:
        once3 = {}
        for a_ in _a3.walk(f_):
            if isinstance(a_, _a3.Assign) and len(a_.targets) == 1 and isinstance(a_.targets[0], _a3.Name):
                once3.setdefault(a_.targets[0].id, []).append(a_.value)
        for c in _a3.walk(f_):
            if isinstance(c, _a3.Call) and isinstance(c.func, _a3.Attribute) and c.func.attr == 'update' and len(c.args) == 1 \
                    and isinstance(c.args[0], _a3.Name):
                recv = c.func.value
                if isinstance(recv, _a3.Name) and len(once3.get(recv.id, [])) == 1:
                    recv = once3[recv.id][0]        # descriptor = package.pkg.descriptor
                if _u3(recv).endswith('.descriptor'):
                    ups.append(c)
    if len(ups) != 1:
        raise AnalysisError('update_package: descriptor.update(<mapping>) not found')
    mp = ups[0].args[0].id
    outer = [x for x in up.node.body if not isinstance(x, _a3.FunctionDef)]
    # names that stand for the same mapping object at factory level (props = props__i1)
    same = {mp}
    grew = True
    while grew:
        grew = False
        for st_ in outer:
            for x in _a3.walk(st_):
                if isinstance(x, _a3.Assign) and len(x.targets) == 1 and isinstance(x.targets[0], _a3.Name) and isinstance(x.value, _a3.Name):
                    if x.targets[0].id in same and x.value.id not in same:
                        same.add(x.value.id)
                        grew = True
    removed = any((isinstance(x, _a3.Delete) and any(isinstance(t, _a3.Subscript) and _p3(t.value) in same and _u3(t.slice) == "'resources'"
                                                     for t in x.targets)) or
                  (isinstance(x, _a3.Call) and isinstance(x.func, _a3.Attribute) and x.func.attr == 'pop' and _p3(x.func.value) in same
                   and x.args and isinstance(x.args[0], _a3.Constant) and x.args[0].value == 'resources')
                  for st_ in outer for x in _a3.walk(st_))
    filtered = any(isinstance(x, _a3.Assign) and _p3(x.targets[0]) in same and isinstance(x.value, _a3.DictComp) and
                   "!= 'resources'" in _u3(x.value) for st_ in outer for x in _a3.walk(st_))
    run.check(removed or filtered, 'UPK', _w3(ctx.repo, ups[0]), up.qualname, "del metadata['resources'] before descriptor.update(metadata)",
              "update_package(resources=...) replaces the package's resource list: descriptors and row streams no longer pair up")
    # 5. unique names
    stream.r27_name_uniqueness(ctx)
    # ... and a step that RENAMES: update_resource stores whatever properties it is given into every selected resource; a `name` among
    # them must not reach more than one resource (or an existing name) unchecked
    import ast as _a2
    from sa.model import u as _u2, where as _w2
    urf = ctx.repo.func('dataflows.processors.update_resource:update_resource')
    guarded = any(isinstance(t_, (_a2.Assert, _a2.Raise)) for t_ in _a2.walk(urf.node)) and \
        any(isinstance(c_, _a2.Constant) and c_.value == 'name' for c_ in _a2.walk(urf.node))
    run.check(guarded, 'R27', urf.where, urf.qualname, "a `name` among the properties is checked against the other resources",
              "update_resource gives the `name` it was passed to every selected resource without looking at the names in the package: the "
              'package then holds several resources of one name, and the framework pairs streams with descriptors by name')
    run.trusted += ['LF1', 'LF8 tableschema integer rejects non-integral floats',
                    'Python: int/int true division yields float; bool is a subclass of int; datetime of date']
    run.not_decided += ['validity of values produced by user callables, tabulator inference or set_type options',
                        'concatenate across resources whose field types differ; concatenate run detection',
                        'anything that depends on the data']
    return ('Guarded path signatures of every step prove one stream per emitted descriptor under every valuation of the '
            'selection atoms; def-use coupling proves that row wrappers of field-changing steps are configured from what '
            'was written into the schema and use that configuration; abstract interpretation over the Table-Schema type '
            'lattice checks the aggregator tables of join and add_computed_field against their declared types; isinstance '
            'chains of the type inference are checked for shadowing; descriptor-adding sites are checked for a name-collision test.',
            ['descriptor-adding sites are found by role; a new way of adding resources is an analysis error, not a pass'])
