"""C03 A dumped data package loads back to the same typed data (DESIGN §5 C03) — writer/reader table agreement."""
import ast
import csv

from rules import commits, tables
from sa.deps import Facts, names_in, pseudo
from sa.loader import AnalysisError, own_nodes
from sa.model import u, where
from sa.paths import Enumerator, path_nodes
from sa.pattern import find_expr, find_stmt, has_expr, has_stmt, match_expr, match_stmt

TEMPORAL = ('date', 'time', 'datetime')
FORMATS = {'CSVFormat': dict(format='csv', suffix='.csv'), 'JSONFormat': dict(format='json', suffix='.json')}
DEFAULT_MISSING = ['']      # LF4


def format_classes(ctx):
    """The classes registered for 'csv' and 'json' in FileDumper's format map."""
    fd = commits.file_dumper(ctx)
    pd = fd.methods.get('process_datapackage')
    out = {}
    dicts = [d for d in ast.walk(ctx.N(pd).node) if isinstance(d, ast.Dict)]       # (a helper that holds the map is read through)
    # the built-in format map may also be a class-level constant of the dumper
    for st in list(fd.node.body) + list(fd.module.tree.body):
        if isinstance(st, ast.Assign) and isinstance(st.value, ast.Dict):
            dicts.append(st.value)
    for d in dicts:
        if isinstance(d, ast.Dict):
            for k, v in zip(d.keys, d.values):
                if isinstance(k, ast.Constant) and k.value in ('csv', 'json') and isinstance(v, ast.Name):
                    r = ctx.res.lookup_symbol(fd.module.name, v.id)
                    if r is not None and hasattr(r, 'mro'):
                        out[k.value] = r
    if set(out) != {'csv', 'json'}:
        raise AnalysisError('FileDumper format map: csv / json entries not found')
    return out


def check(ctx):
    run, repo, res = ctx.run, ctx.repo, ctx.res
    fmts = format_classes(ctx)
    base = repo.cls('dataflows.processors.dumpers.formats.base:FileFormat')
    run.rule('R16t', 'TEMPORAL: for date / time / datetime the format the serializer writes with and the format stamped into the '
                     'field descriptor are the same strptime/strftime format (equal modulo the zero-padded %04Y spelling), for every '
                     'member of the platform-dependent constant sets')
    for key, cls in sorted(fmts.items()):
        mod = cls.module.name
        _, ser = tables.class_dict(ctx, cls, 'SERIALIZERS')
        _, dia = tables.class_dict(ctx, cls, 'PYTHON_DIALECT')
        for t in TEMPORAL:
            s = ser.get(t)
            nm = tables.strftime_format_names(s, ctx, mod) if s is not None else None
            if nm is None:
                run.fail('R16t', cls.where, cls.qualname, 'SERIALIZERS[%r]' % t,
                         '%s has no strftime serializer for %s (values would be written with str())' % (cls.name, t))
                continue
            wfmts = set(tables.literal(ctx, mod, nm))
            if t not in dia:
                run.fail('R16t', cls.where, cls.qualname, 'PYTHON_DIALECT[%r]' % t, 'no format is stamped for %s fields' % t)
                continue
            stamped = tables.literal(ctx, mod, dia[t])
            ok = all(isinstance(d, dict) and 'format' in d for d in stamped) and \
                {tables.norm_fmt(w) for w in wfmts} == {d['format'] for d in stamped}
            # a year below 1000 is written with four digits only through the padded spelling %04Y where the platform's strftime
            # does not pad %Y itself: the format written with is the constant that the platform probe chooses, not the plain one
            if any('%Y' in tables.norm_fmt(w) for w in wfmts):
                run.check(any('%04Y' in w for w in wfmts), 'R16t', where(repo, s), cls.qualname,
                          '%s %s: written with the platform-probed format (one of its values pads the year)' % (cls.name, t),
                          '%s values are written with a format that never pads the year (%s): on platforms whose strftime does not pad '
                          '%%Y a year below 1000 is written with fewer than four digits and cannot be parsed back' % (t, sorted(wfmts)))
            run.check(ok, 'R16t', where(repo, s), cls.qualname,
                      '%s %s: written %s / stamped %s' % (cls.name, t, sorted(wfmts), stamped),
                      '%s values are written as %s but the descriptor says %s: they cannot be parsed back'
                      % (t, sorted(wfmts), [d.get('format') for d in stamped if isinstance(d, dict)]))
    # CSV lexical forms of boolean / number / null
    run.rule('R16v', 'LEXICAL: CSV writes booleans and numbers with str(); str(True)/str(False) are among the stamped true/false '
                     'values, the stamped decimalChar is "." and groupChar is empty; the CSV null marker is a default missing value; '
                     'JSON writes numbers as float, nulls as null')
    c = fmts['csv']
    mod = c.module.name
    _, ser = tables.class_dict(ctx, c, 'SERIALIZERS')
    _, dia = tables.class_dict(ctx, c, 'PYTHON_DIALECT')
    init = base.methods['__init__']
    dflt = None
    a = init.node.args
    names = [x.arg for x in a.args]
    if 'default_serializer' in names:
        dflt = a.defaults[names.index('default_serializer') - (len(names) - len(a.defaults))]
    csv_init = ctx.N(c.methods.get('__init__')) if c.methods.get('__init__') else None
    passes = [k for n in ast.walk(csv_init.node) if isinstance(n, ast.Call) for k in n.keywords if k.arg == 'default_serializer'] \
        if csv_init else []
    run.check(isinstance(dflt, ast.Name) and dflt.id == 'str' and not passes, 'R16v', init.where, base.qualname,
              'default_serializer=str for CSV', 'CSV values without an explicit serializer are not written with str()')
    for t, must in (('boolean', None), ('number', None), ('integer', None), ('string', None)):
        run.check(t not in ser, 'R16v', c.where, c.qualname, 'no CSV serializer for %s (str() is used)' % t,
                  'CSV %s values are written by a custom serializer the stamped descriptor does not describe' % t)
    b = tables.literal(ctx, mod, dia['boolean'])[0] if 'boolean' in dia else {}
    run.check(str(True) in b.get('trueValues', []) and str(False) in b.get('falseValues', []), 'R16v', c.where, c.qualname,
              "boolean: trueValues %s falseValues %s" % (b.get('trueValues'), b.get('falseValues')),
              'booleans are written as True/False but these are not the stamped trueValues/falseValues')
    nmb = tables.literal(ctx, mod, dia['number'])[0] if 'number' in dia else {}
    run.check(nmb.get('decimalChar') == '.' and nmb.get('groupChar') == '', 'R16v', c.where, c.qualname,
              'number: decimalChar %r groupChar %r' % (nmb.get('decimalChar'), nmb.get('groupChar')),
              'numbers are written with str() (decimal point, no grouping) but the descriptor says otherwise')
    k, nv = res.lookup_class_attr(c, 'NULL_VALUE')
    run.check(isinstance(nv, ast.Constant) and nv.value in DEFAULT_MISSING, 'R16v', c.where, c.qualname,
              'CSV NULL_VALUE = %s' % (u(nv) if nv is not None else None),
              'CSV nulls are written as a string that is not a default missing value')
    j = fmts['json']
    k, nv = res.lookup_class_attr(j, 'NULL_VALUE')
    run.check(isinstance(nv, ast.Constant) and nv.value is None, 'R16v', j.where, j.qualname, 'JSON NULL_VALUE = None',
              'JSON nulls are not written as null')
    _, jser = tables.class_dict(ctx, j, 'SERIALIZERS')
    run.check(isinstance(jser.get('number'), ast.Name) and jser['number'].id == 'float', 'R16v', j.where, j.qualname,
              "JSON SERIALIZERS['number'] = float", 'JSON numbers are not written as JSON numbers')
    jinit = j.methods.get('__init__')
    passes = [k for n in ast.walk(jinit.node) if isinstance(n, ast.Call) for k in n.keywords if k.arg == 'default_serializer']
    run.check(len(passes) == 1 and pseudo(passes[0].value) == 'identity', 'R16v', jinit.where, jinit.qualname,
              'default_serializer=identity for JSON', 'JSON values without serializer are not written natively')
    # array / object in CSV are JSON text
    for t in ('array', 'object'):
        s = ser.get(t)
        ok = isinstance(s, ast.Name) and s.id == 'json_dumps'
        run.check(ok, 'R16v', c.where, c.qualname, "CSV SERIALIZERS[%r] = json_dumps" % t, 'CSV %s cells are not JSON text' % t)

    run.rule('R16d', 'DIALECT: the CSV dialect stamped into the descriptor equals the effective dialect of the csv writer that is '
                     'constructed (csv.excel overlaid with the constructor keywords)')
    pr = c.methods.get('prepare_resource')
    stamped = None
    for st in own_nodes(pr.node):
        if isinstance(st, ast.Assign) and u(st.targets[0]).endswith("['dialect']"):
            stamped = tables.literal(ctx, mod, st.value)[0]
    if stamped is None:
        run.fail('R16d', pr.where, pr.qualname, "descriptor['dialect'] = ...", 'no dialect is stamped for CSV resources')
    else:
        writers = [n for n in ast.walk(csv_init.node) if isinstance(n, ast.Call) and
                   (res.external_name(n) in ('csv.DictWriter', 'csv.writer') or
                    any(hasattr(t, 'mro') and 'csv.DictWriter' in res.external_bases(t) for t in res.resolve_call(n)))]
        if not writers:
            raise AnalysisError('CSVFormat.__init__: csv writer construction not found')
        mapping = dict(delimiter='delimiter', quoteChar='quotechar', doubleQuote='doublequote',
                       skipInitialSpace='skipinitialspace', lineTerminator='lineterminator', escapeChar='escapechar')
        for wcall in writers:
            eff = {a: getattr(csv.excel, a) for a in mapping.values()}
            dialect_kw = [k for k in wcall.keywords if k.arg == 'dialect']
            if dialect_kw:
                raise AnalysisError('csv writer built with an explicit dialect object: not modelled')
            for k in wcall.keywords:
                if k.arg in eff:
                    if not isinstance(k.value, ast.Constant):
                        raise AnalysisError('csv writer keyword %s is not a constant' % k.arg)
                    eff[k.arg] = k.value.value
            bad = {d: (stamped[d], eff[a]) for d, a in mapping.items() if d in stamped and stamped[d] != eff[a]}
            missing = [d for d, a in mapping.items() if d not in stamped and eff[a] != getattr(csv.excel, a)]
            run.check(not bad and not missing, 'R16d', where(repo, wcall), csv_init.qualname,
                      'writer %s vs stamped dialect' % u(wcall.func),
                      'the stamped CSV dialect differs from what the writer produces: %s %s' % (bad, missing))
    run.rule('R16p', 'PREPARE: prepare_resource stamps the format name, the matching path suffix and utf-8 encoding, and every '
                     'format class chains to FileFormat.prepare_resource, which merges the per-type dialect into each field')
    for key, cls in sorted(fmts.items()):
        pr = cls.methods.get('prepare_resource')
        if pr is None:
            run.fail('R16p', cls.where, cls.qualname, 'prepare_resource', 'format class does not prepare the resource descriptor')
            continue
        facts = Facts(pr, include_nested=False)
        st = {}
        for n in own_nodes(pr.node):
            if isinstance(n, ast.Assign) and isinstance(n.targets[0], ast.Subscript) and \
                    isinstance(n.targets[0].slice, ast.Constant):
                st[n.targets[0].slice.value] = n.value
        want = FORMATS[cls.name] if cls.name in FORMATS else dict(format=key, suffix='.' + key)
        run.check(isinstance(st.get('format'), ast.Constant) and st['format'].value == want['format'], 'R16p', pr.where, pr.qualname,
                  "descriptor['format'] = %r" % want['format'], 'the stamped format is not %r' % want['format'])
        run.check(isinstance(st.get('encoding'), ast.Constant) and st['encoding'].value == 'utf-8', 'R16p', pr.where, pr.qualname,
                  "descriptor['encoding'] = 'utf-8'", 'the stamped encoding is not utf-8')
        p = st.get('path')
        run.check(p is not None and (match_expr("str(Path(_d['path']).with_suffix(%r))" % want['suffix'], p) is not None or
                                     match_expr("os.path.splitext(_d['path'])[0] + %r" % want['suffix'], p) is not None), 'R16p', pr.where,
                  pr.qualname, "descriptor['path'] = <path>.with_suffix(%r)" % want['suffix'],
                  'the stamped path does not carry the %s suffix of the written file' % want['suffix'])
        sup = [n for n in own_nodes(pr.node) if isinstance(n, ast.Call) and isinstance(n.func, ast.Attribute)
               and n.func.attr == 'prepare_resource' and 'super' in u(n.func.value)]
        run.check(len(sup) == 1 and [pseudo(a) for a in sup[0].args] == [pr.params[1]], 'R16p', pr.where, pr.qualname,
                  'super().prepare_resource(resource)', 'the per-type dialect is not merged into the fields (no super call)')
    bp = base.methods['prepare_resource']
    run.check(len(find_stmt("for _f in _r.descriptor['schema']['fields']:\n    _f.update(cls.PYTHON_DIALECT.get(_f['type'], {}))", bp.node)) == 1, 'R16p',
              bp.where, bp.qualname, "field.update(cls.PYTHON_DIALECT.get(field['type'], {}))",
              'FileFormat.prepare_resource does not merge PYTHON_DIALECT[type] into each field')
    # the dumper calls prepare_resource of the selected class and stores the resulting descriptor back
    fd = commits.file_dumper(ctx)
    pd = fd.methods['process_datapackage']
    run.check(has_expr('__F.prepare_resource(_r)', pd.node) and has_stmt("_dp.descriptor['resources'][_i] = _r.descriptor", pd.node),
              'R16p', pd.where, pd.qualname, 'prepare_resource(resource); descriptor[resources][i] = resource.descriptor',
              'the prepared resource descriptor is not written back into the package')

    run.rule('NULL', 'NULL-FIRST: the value transformer returns the null marker for None before any serializer is consulted')
    tv = [m for n, m in base.methods.items() if n.endswith('__transform_value')]
    if len(tv) != 1:
        raise AnalysisError('FileFormat.__transform_value not found')
    tv = tv[0]
    tr = [m for n, m in base.methods.items() if n.endswith('__transform_row')][0]
    # how the row transformer calls the value transformer: {k: T(<args>) for k, v in row.items()} - which argument is the cell and
    # which identifies the field (the field object self.fields[k], or the field name k)
    comp = find_expr('{_k: __T(...) for (_k, _v) in _row.items()}', tr.node)
    vpar = fpar = fkind = None
    if len(comp) == 1:
        node_, b_ = comp[0]
        call_ = node_.value
        tps = [p_ for p_ in tv.params if p_ not in ('self', 'cls')]
        for i_, a_ in enumerate(call_.args):
            if i_ >= len(tps):
                break
            if isinstance(a_, ast.Name) and a_.id == b_['_v']:
                vpar = tps[i_]
            elif match_expr('self.fields[%s]' % b_['_k'], a_) is not None:
                fpar, fkind = tps[i_], 'field'
            elif isinstance(a_, ast.Name) and a_.id == b_['_k']:
                fpar, fkind = tps[i_], 'name'
        if not (isinstance(call_.func, ast.Attribute) and call_.func.attr.endswith('__transform_value')):
            vpar = None
    run.check(vpar is not None and fpar is not None, 'NULL', tr.where, tr.qualname,
              'dict((k, transform(v, self.fields[k])) for k, v in row.items())',
              'row values are not transformed with the serializer of their own field')
    vpar = vpar or tv.params[1]
    paths = Enumerator(where=tv.qualname).paths(tv.node.body)
    first = paths[0].guards()[0] if paths and paths[0].guards() else None
    okn = first is not None and u(first[0]) == '%s is None' % vpar
    for p in paths:
        g = p.guards()
        if g and g[0][1] and u(g[0][0]) == '%s is None' % vpar:
            r = [it.node for it in p.items if it.kind == 'return']
            okn = okn and len(r) == 1 and u(r[0].value) == 'self.NULL_VALUE'
    run.check(okn, 'NULL', tv.where, tv.qualname, 'if value is None: return self.NULL_VALUE (first statement)',
              'None is handed to a serializer (or something other than the null marker is written)')
    # the serializer applied is the one recorded for that very field: field.descriptor['serializer'](value), or
    # self.<table>[name](value) with <table> filled in __init__ under the field's own name
    if fpar is not None:
        from sa.pathvals import returned_values as _rv
        rets_ = [v_ for v_ in _rv(tv.node, tv.qualname) if isinstance(v_, ast.Call)]     # locals resolved along each path
        if fkind == 'field':
            oks = any(match_expr("%s.descriptor['serializer'](%s)" % (fpar, vpar), r_) is not None for r_ in rets_)
        else:
            oks = False
            for r_ in rets_:
                b_ = match_expr('_tbl[%s](%s)' % (fpar, vpar), r_)
                if b_ is not None and b_['_tbl'].startswith('self.'):
                    init_ = ctx.N(base.methods['__init__'])
                    oks = any(match_stmt('%s[_f.name] = ___' % b_['_tbl'], x_) is not None for x_ in ast.walk(init_.node)
                              if isinstance(x_, ast.Assign))
        run.check(oks, 'NULL', tv.where, tv.qualname, 'return <serializer recorded for this field>(value)',
                  'the value is not passed to the serializer recorded for its own field')
    wr = base.methods['write_row']
    run.check((has_stmt('_t = __TR(_row)', wr.node) and has_expr('self.write_transformed_row(_t)', wr.node)) or
              has_expr('self.write_transformed_row(__TR(_row))', wr.node), 'NULL', wr.where, wr.qualname,
              'write_transformed_row(transform_row(row))', 'rows are written untransformed')

    run.rule('SERL', 'SERIALIZER-LOCAL: the serializer chosen for a field depends only on that field (its type, its own format '
                     'property) and on the class table / default - never on state written while handling earlier fields')
    finit_ = ctx.N(base.methods['__init__'])
    def _is_ser_store(x, loop):
        # the statement that records the serializer chosen for the field: a store into the field's descriptor or into a table
        # keyed by the field, whose value comes from the class table lookup of this iteration
        if not (isinstance(x, ast.Assign) and len(x.targets) == 1 and isinstance(x.targets[0], ast.Subscript)):
            return False
        if "['serializer']" in u(x.targets[0]):
            return True
        looked = {t.id for a in ast.walk(loop) if isinstance(a, ast.Assign) and 'SERIALIZERS' in u(a.value)
                  for t in a.targets if isinstance(t, ast.Name)}
        return bool(looked & {n_.id for n_ in ast.walk(x.value) if isinstance(n_, ast.Name)}) or 'SERIALIZERS' in u(x.value)
    floops = [n for n in own_nodes(finit_.node) if isinstance(n, ast.For) and u(n.iter).endswith('schema.fields')
              and any(_is_ser_store(x, n) for x in ast.walk(n))]
    if len(floops) != 1:
        raise AnalysisError('FileFormat.__init__: the loop assigning field serializers not found')
    fl = floops[0]
    ffacts = Facts(finit_, include_nested=False)
    fvar = fl.target.id
    st = [x for x in ast.walk(fl) if _is_ser_store(x, fl)]
    carried = set()
    for x in ast.walk(fl):
        # stores into objects that live across iterations (anything not rooted at the loop variable)
        if isinstance(x, ast.Assign):
            for t in x.targets:
                if isinstance(t, ast.Subscript):
                    b = pseudo(t.value) if pseudo(t.value) else None
                    if b and b != fvar and not b.startswith(fvar + '.'):
                        carried.add(b)
        if isinstance(x, ast.Call) and isinstance(x.func, ast.Attribute) and x.func.attr in ('update', 'setdefault', 'append', 'add', 'pop'):
            b = pseudo(x.func.value)
            if b and b != fvar:
                carried.add(b)
    deps = set()
    for x in st:
        deps |= ffacts.roots(x.value)
    bad = sorted(carried & deps)
    run.check(not bad, 'SERL', where(repo, fl), finit_.qualname, 'serializer of a field depends on: ' + ', '.join(sorted(deps - {fvar}))[:150],
              'the serializer of a field is read from %s, which is modified while earlier fields are handled: a format override of '
              'one field leaks to later fields of the same type, which are then written in a format the descriptor does not record'
              % ', '.join(bad))
    # the class table lookup is by the field's own type
    look = [c for c in ast.walk(fl) if isinstance(c, ast.Call) and isinstance(c.func, ast.Attribute) and c.func.attr == 'get'
            and (u(c.func.value) == 'self.SERIALIZERS' or (isinstance(c.func.value, ast.Name) and any(
                'self.SERIALIZERS' in u(v) for v in ffacts.assigns.get(c.func.value.id, []))))]
    run.check(len(look) >= 1 and all(u(c.args[0]) == '%s.type' % fvar for c in look), 'SERL',
              where(repo, fl), finit_.qualname, 'SERIALIZERS.get(field.type, default_serializer)',
              'the serializer is not looked up in the class table by the field\'s own type')

    from rules import independence
    independence.r28_functions(ctx, [(finit_, {})])
    # the bytes of a row are fixed inside write_row, before the row goes downstream
    from rules import observers as _obs
    _obs.writer_keeps_no_row(ctx)
    _obs.json_object_is_row(ctx)
    run.rule('R16o', 'COLUMN-ORDER: a format that writes each row as a JSON object is read back column-wise in sorted key order '
                     '(LF2) and paired by position with the stamped schema, so it must stamp the fields in sorted order, write '
                     'arrays, or otherwise normalise the order')
    wt = ctx.N(j.methods.get('write_transformed_row'))        # (helpers inlined; what is dumped is decided by R16j above)
    dumps = [n for n in ast.walk(wt.node) if isinstance(n, ast.Call) and u(n.func) in ('json.dumps', 'json.dump')]
    writes_object = bool(dumps) and pseudo(dumps[0].args[0]) == wt.params[1]
    if writes_object:
        pr = j.methods.get('prepare_resource')
        normalises = any(isinstance(n, ast.Call) and (u(n.func) == 'sorted' or (isinstance(n.func, ast.Attribute)
                         and n.func.attr == 'sort')) for n in ast.walk(pr.node))
        run.check(normalises, 'R16o', wt.where, j.qualname, 'JSON object rows with schema in declaration order',
                  'rows are written as JSON objects while the schema keeps declaration order: a table whose field names are not '
                  'alphabetical loads back with values paired to the wrong fields (cast errors / wrong columns)')
    else:
        run.ok('R16o', wt.where, j.qualname + ' writes arrays / normalised rows')

    # CSV: cells are placed under their column by field NAME (csv.DictWriter over the schema's field names); writing a row's
    # values positionally pairs them with the header only if the row dict happens to be keyed in schema order, which
    # select_fields / concatenate / unpivot / user row functions do not guarantee
    cw = c.methods.get('write_transformed_row')
    cinit = ctx.N(c.methods.get('__init__'))
    dict_writers = [n for n in ast.walk(cinit.node) if isinstance(n, ast.Call) and
                    (res.external_name(n) == 'csv.DictWriter' or
                     any(hasattr(t, 'mro') and 'csv.DictWriter' in res.external_bases(t) for t in res.resolve_call(n)))]
    plain_writers = [n for n in ast.walk(cinit.node) if isinstance(n, ast.Call) and res.external_name(n) == 'csv.writer']
    hdr_ok = bool(dict_writers) and not plain_writers
    for wcall in dict_writers:
        fn_arg = wcall.args[1] if len(wcall.args) > 1 else next((k.value for k in wcall.keywords if k.arg == 'fieldnames'), None)
        from sa.normalize import reaching_value as _rv
        v_ = fn_arg
        if isinstance(v_, ast.Name):
            anchor = wcall
            while getattr(anchor, '_parent', None) is not None and not isinstance(anchor, ast.stmt):
                anchor = anchor._parent
            v_ = _rv(anchor, v_.id) or v_
        hdr_ok = hdr_ok and v_ is not None and match_expr('[_f.name for _f in __S.fields]', v_) is not None
    run.check(hdr_ok, 'R16o', cinit.where, c.qualname, 'csv.DictWriter(file, [f.name for f in schema.fields])',
              'the CSV writer is not a DictWriter over the schema field names in schema order')
    if cw is not None:
        cwn = ctx.N(cw)
        rowp = cwn.params[1]
        wcalls = [n for n in ast.walk(cwn.node) if isinstance(n, ast.Call) and isinstance(n.func, ast.Attribute)
                  and n.func.attr in ('writerow', 'writerows', 'write')]
        okw = len(wcalls) == 1 and match_expr('self.writer.writerow(%s)' % rowp, wcalls[0]) is not None
        run.check(okw, 'R16o', cwn.where, cwn.qualname, 'self.writer.writerow(<row dict>)',
                  'CSV cells are not placed under their columns by field name (the row dict is not handed to the DictWriter '
                  'as a dict): a row keyed in another order than the schema is written under the wrong headers')
    run.rule('R19c', 'PATH: the data file is copied out under the path recorded in the descriptor')
    rp = commits.rows_processor(ctx)
    facts = Facts(rp, include_nested=False)
    for w in [n for n in own_nodes(rp.node) if isinstance(n, ast.Call) and isinstance(n.func, ast.Attribute)
              and n.func.attr == 'write_file_to_output']:
        rew = [n for n in own_nodes(rp.node) if isinstance(n, ast.Call) and isinstance(n.func, ast.Attribute)
               and n.func.attr == 'insert_hash_in_path']
        ok = not rew or pseudo(rew[0].args[0]) in facts.roots(w.args[1])
        run.check(ok, 'R19c', where(repo, w), rp.qualname, w, 'the file is copied out under a path that ignores the hash directory '
                  'recorded in the descriptor')

    # ... and that path is read only after the hash directory was inserted (the order of the two; shared with C05 / C09 / C19): a
    # path read before is the un-hashed one while the descriptor records the hashed one, and load() does not find the file
    commits.r15_datafile_order(ctx)

    run.rule('LOAD', 'LOAD-SIDE: loading a data package iterates each selected resource keyed and with casting on')
    ld = repo.cls('dataflows.processors.load:load')
    sp = ctx.N(ld.methods['safe_process_datapackage'])
    res_vars = {pseudo(l.target) for l in ast.walk(sp.node) if isinstance(l, ast.For) and u(l.iter).endswith('.resources')}
    its = [n for n in own_nodes(sp.node) if isinstance(n, ast.Call) and isinstance(n.func, ast.Attribute) and n.func.attr == 'iter'
           and pseudo(n.func.value) in res_vars]
    ok = len(its) == 1
    if ok:
        kw = {k.arg: k.value for k in its[0].keywords}
        ok = isinstance(kw.get('keyed'), ast.Constant) and kw['keyed'].value is True and \
            isinstance(kw.get('cast'), ast.Constant) and kw['cast'].value is True
    run.check(ok, 'LOAD', sp.where, sp.qualname, 'resource.iter(keyed=True, cast=True)',
              'resources of a loaded data package are not cast to their declared types')

    run.rule('TFP', 'TEMPORAL-FORMAT-PROPERTY: the serializer override and the rewrite of the stamped format read the same field '
                    'property and apply to the same three types')
    finit = ctx.N(base.methods['__init__'])
    hd = ctx.N(fd.methods['handle_datapackage'])
    a_types = [tables.literal(ctx, base.module.name, n.comparators[0])[0] for n in ast.walk(finit.node)
               if isinstance(n, ast.Compare) and isinstance(n.ops[0], (ast.In, ast.NotIn)) and 'type' in u(n.left)]
    b_types = [tables.literal(ctx, fd.module.name, n.comparators[0])[0] for n in ast.walk(hd.node)
               if isinstance(n, ast.Compare) and isinstance(n.ops[0], (ast.In, ast.NotIn)) and 'type' in u(n.left)]
    run.check(len(a_types) == 1 and len(b_types) == 1 and sorted(a_types[0]) == sorted(b_types[0]) == sorted(TEMPORAL), 'TFP',
              hd.where, hd.qualname, 'types %s / %s' % (a_types, b_types), 'writer override and descriptor rewrite cover different types')
    a_prop = has_expr('_f.descriptor.get(self.temporal_format_property, None)', finit.node) or \
        has_expr('_f.descriptor.get(self.temporal_format_property)', finit.node)
    b_prop = (has_stmt('_fmt = _f.pop(self.temporal_format_property, None)', hd.node) or
              has_stmt('_fmt = _f.get(self.temporal_format_property)', hd.node)) and has_stmt("_f['format'] = _fmt", hd.node)
    run.check(a_prop and b_prop, 'TFP', hd.where, hd.qualname, 'same property on both sides',
              'the format written with and the format stamped come from different field properties')
    # ... through every format class: a writer's __init__ hands the options it was given on to FileFormat.__init__ (which reads
    # temporal_format_property), as **<its own options mapping>
    for key_, cls_ in sorted(fmts.items()):
        ini_ = cls_.methods.get('__init__')
        if ini_ is None or cls_ is base:
            continue
        kwn = ini_.node.args.kwarg.arg if ini_.node.args.kwarg is not None else None
        sup = [c_ for c_ in ast.walk(ini_.node) if isinstance(c_, ast.Call) and isinstance(c_.func, ast.Attribute) and c_.func.attr == '__init__'
               and isinstance(c_.func.value, ast.Call) and u(c_.func.value.func) == 'super']
        okf = kwn is not None and len(sup) == 1 and any(k.arg is None and pseudo(k.value) == kwn for k in sup[0].keywords)
        run.check(okf, 'TFP', ini_.where, ini_.qualname, 'super().__init__(..., **%s)' % kwn,
                  '%s does not hand the writer options on to FileFormat.__init__: temporal_format_property is lost, temporal values are '
                  'written in the default format while the descriptor records the custom one' % cls_.name)
    # the property reaches the writer
    p1 = ctx.N(fd.methods['process_resource'])
    run.check(has_stmt("_kw['temporal_format_property'] = self.temporal_format_property", p1.node) or
              has_expr('__F(..., temporal_format_property=self.temporal_format_property)', p1.node), 'TFP', p1.where,
              p1.qualname, 'writer gets temporal_format_property', 'the writer is not told about temporal_format_property')
    # what load() reads first is the descriptor: it must be the one of this dump
    commits.descriptor_never_skipped(ctx)
    run.trusted += ['LF2 tabulator sorts the keys of JSON object rows', 'LF3 csv.DictWriter without dialect arguments uses csv.excel '
                    '(attribute values read from the stdlib)', 'LF4 default missingValues is [""]',
                    'str(True) / str(False) as evaluated by the analyser\'s interpreter']
    run.not_decided += ['value-level round trip (quoting, embedded newlines, high-precision decimals, "" vs null in CSV, non-BMP text)',
                        'text-mode temp file encoding under a non-UTF-8 locale (informational note in DESIGN)']
    return ('Entry-by-entry agreement of the writer-side tables (serializers, null markers, csv writer dialect, path suffix, '
            'encoding) with the reader-side descriptor properties stamped by prepare_resource, evaluated over the platform-dependent '
            'constant sets; null-first dominance in the value transformer; column-order rule for object-row formats; path '
            'dependence; load-side casting; temporal_format_property consistency.', ['LF2', 'LF3', 'LF4'])
