"""C04 A failing step never yields a successful run — error discipline and commit ordering (DESIGN §5 C04)."""
from rules import commits, errors


def check(ctx):
    run = ctx.run
    if ctx.thorough:
        errors.r14_err_discipline(ctx, floor=29)
    else:
        errors.r14_err_discipline(ctx, include=lambda m: m.name != 'dataflows.cli', floor=28)
    errors.r14_funnel(ctx)
    errors.r14_exit_methods(ctx)
    errors.r14_stash(ctx)
    # a source that is another flow is exhausted within this run, so that a step of it failing at end of stream fails this run
    from checks import C13
    ld_ = ctx.repo.cls('dataflows.processors.load:load')
    pr_ = ctx.N(ld_.methods['process_resources'], keep=('missing_values_extractor', 'caster', 'stripper', 'limiter'))
    import ast as _a4
    from sa.loader import own_nodes as _own4
    from sa.model import u as _u4
    all_ = [n for n in _own4(pr_.node) if isinstance(n, _a4.For)]
    from rules.stream import once_bound as _ob4
    for n in all_:
        n.iter = _ob4(pr_.node, n.iter)
    zl_ = [n for n in all_ if isinstance(n.iter, _a4.Call) and _u4(n.iter.func) in ('zip', 'itertools.zip_longest')]
    if len(zl_) != 1:
        from sa.loader import AnalysisError
        raise AnalysisError('load.process_resources: pair loop not found')
    C13.driven_to_end(ctx, pr_, zl_[0], [n for n in all_ if n is not zl_[0]])
    C13.source_asked_first(ctx, ld_)
    # ... the same for the sub-flows of sources(): their resource iterators are iterated to their end
    from checks import C16 as _C16
    _C16.sources_clause(ctx)
    errors.r14_stopiteration_drivers(ctx)
    run.rule('R15', 'COMMIT-ORDER: commit points (checkpoint rename, dump descriptor, zip finalisation) come after the loop '
                    'over all resource streams on the normal path and are never reachable from an except / finally block')
    commits.r15_checkpoint_rename(ctx)
    commits.r15_descriptor_after_loop(ctx)
    commits.r15_descriptor_write(ctx)
    run.trusted += ['LF8 tableschema raises CastError / UniqueKeyError (subclasses of Exception)',
                    'generators: an exception or GeneratorExit raised at a yield propagates out of the enclosing loop; '
                    'statements after the loop do not run']
    run.not_decided += ['that third-party iterators raise rather than silently truncate',
                        'behaviour of worker processes of parallelize after a crash (schedules)']
    return ('All except handlers of the package are classified ((i) always raises / (ii) narrow local fallback with a '
            'harmless try body / (iii) frozen and justified); the funnel helper is proven no-return and identity-carrying; '
            'stashed source errors are re-raised after inference; commit points are proven to sit after the loop over all '
            'resource streams and outside except/finally on every enumerated path.',
            ['an exception inside a generator propagates to the consumer (Python semantics)'])
