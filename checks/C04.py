"""C04 A failing step never yields a successful run — error discipline and commit ordering (DESIGN §5 C04)."""
from rules import commits, errors


def check(ctx):
    run = ctx.run
    if ctx.thorough:
        errors.r14_err_discipline(ctx, floor=29)
    else:
        errors.r14_err_discipline(ctx, include=lambda m: m.name != 'dataflows.cli', floor=28)
    errors.r14_funnel(ctx)
    errors.r14_stash(ctx)
    errors.r14_stopiteration_drivers(ctx)
    run.rule('R15', 'COMMIT-ORDER: commit points (checkpoint rename, dump descriptor, zip finalisation) come after the loop '
                    'over all resource streams on the normal path and are never reachable from an except / finally block')
    commits.r15_checkpoint_rename(ctx)
    commits.r15_descriptor_after_loop(ctx)
    commits.r15_descriptor_write(ctx)
    run.trusted += ['LF8 tableschema raises CastError / UniqueKeyError (subclasses of Exception)',
                    'generators: an exception or GeneratorExit raised at a yield propagates out of the enclosing loop; '
                    'statements after the loop do not run']
    run.not_decided += ['that third-party iterators raise rather than silently truncate',
                        'behaviour of worker processes of parallelize after a crash (schedules)']
    return ('All except handlers of the package are classified ((i) always raises / (ii) narrow local fallback with a '
            'harmless try body / (iii) frozen and justified); the funnel helper is proven no-return and identity-carrying; '
            'stashed source errors are re-raised after inference; commit points are proven to sit after the loop over all '
            'resource streams and outside except/finally on every enumerated path.',
            ['an exception inside a generator propagates to the consumer (Python semantics)'])
