"""C05 Observers are transparent and capture the complete stream at their position (DESIGN §5 C05)."""
import ast

from rules import commits, framework, observers, stream
from rules.order import call_named, check_order, report_order
from sa.deps import pseudo
from sa.loader import AnalysisError, FuncInfo, own_nodes
from sa.model import find_resloops, processor_classes, resloop_signature, row_loops, rowloop_signature, u, where
from sa.paths import FALL, RAISE, Enumerator, path_nodes


def finalizer_clause(ctx):
    """finalizer(callback): the callback runs once, after the last row, and the stats it is handed are read after the stream was
    passed on completely - read earlier they lack whatever upstream steps gather while rows flow (a dumper's row count, bytes, hash)."""
    run, repo = ctx.run, ctx.repo
    from rules.order import check_order, report_order
    run.rule('FIN', 'FINALIZER: the stream is passed on completely (yield from <base>) before the stats are merged, the stats are merged '
                    'before the callback is called, and the callback is called exactly once on every normal path')
    fz = repo.cls('dataflows.processors.finalizer:finalizer')
    gi = fz.methods.get('get_iterator')
    if gi is None:
        raise AnalysisError('finalizer.get_iterator not found')
    inner = [f for f in repo.functions.values() if f.parent is gi and f.is_generator]
    if len(inner) != 1:
        raise AnalysisError('finalizer.get_iterator: the generator that wraps the base iterator was not found')
    fn = ctx.N(inner[0])
    preds = {'PASS': lambda x: isinstance(x, ast.YieldFrom),
             'STATS': lambda x: isinstance(x, ast.Call) and isinstance(x.func, ast.Attribute) and x.func.attr == 'merge_stats',
             'CALLBACK': lambda x: isinstance(x, ast.Call) and pseudo(x.func) == 'self.callback'}
    pes, problems = check_order(ctx, 'FIN', fn, preds, before=[('PASS', 'STATS'), ('PASS', 'CALLBACK')], required=['PASS', 'CALLBACK'],
                                once=['CALLBACK'])
    # the stats that reach the callback were merged after the pass-through (not a value captured before it)
    report_order(ctx, 'FIN', fn, problems, pes, 'yield from base < merge_stats < callback (once)',
                 'the finalizer reports before the stream has passed it completely (stats merged or callback called too early), or not '
                 'exactly once')


def check(ctx):
    run = ctx.run
    repo, res = ctx.repo, ctx.res
    finalizer_clause(ctx)
    run.rule('R12', 'ROW-LOOP-SHAPE(observer): on every path of one iteration of an observer\'s row loop the incoming row object '
                    'is yielded exactly once, nothing is stored into it, the loop is not left early, and the observer\'s side '
                    'effect (write) is applied to that row exactly once')
    n = 0
    # printer
    pf = repo.func('dataflows.processors.printer:printer.func')
    loop, var, _ = observers.single_row_loop(ctx, pf, 'rows')
    observers.transparent_loop(ctx, 'R12', pf, loop, var, what='printer')
    n += 1
    # stream writer
    roles = commits.stream_roles(ctx)
    sw = [roles['rows']]
    loop, var, _ = observers.single_row_loop(ctx, sw[0])
    observers.transparent_loop(ctx, 'R12', sw[0], loop, var, effects=roles['write_names'], what='stream writer')
    n += 1
    # the write helper really writes the object and a newline
    okw, whyw = commits.one_line_per_object(ctx, roles['write'])
    run.check(okw, 'R12', roles['write'].where, roles['write'].qualname, 'file.write(ejson.dumps(obj) + newline)',
              'the stream write helper does not write its argument as one line: ' + whyw)
    # file dumper rows_processor
    rp = commits.rows_processor(ctx)
    loop, var, _ = observers.single_row_loop(ctx, rp)
    observers.transparent_loop(ctx, 'R12', rp, loop, var, effects=('write_row',), what='file dumper')
    n += 1
    # row counter
    db = commits.dumper_base(ctx)
    rc = db.methods.get('row_counter')
    if rc is None:
        raise AnalysisError('DumperBase.row_counter not found')
    loop, var, _ = observers.single_row_loop(ctx, rc)
    observers.transparent_loop(ctx, 'R12', rc, loop, var, what='row counter')
    n += 1
    # checkpoint notifier: generator expression (row for row in rows)
    from sa.model import package_steps as _ps
    steps_ = [f for f in _ps(repo) if f.module.name == 'dataflows.processors.checkpoint' and f.cls is None]
    if len(steps_) != 1:
        raise AnalysisError('checkpoint: the notifier package step was not found by role (%d candidates)' % len(steps_))
    step = ctx.N(steps_[0])       # a piece of the step moved into a sub-generator it delegates to is part of it
    gens = [g for g in ast.walk(step.node) if isinstance(g, ast.GeneratorExp)]
    ok = len(gens) == 1 and len(gens[0].generators) == 1 and not gens[0].generators[0].ifs and \
        isinstance(gens[0].elt, ast.Name) and isinstance(gens[0].generators[0].target, ast.Name) and \
        gens[0].elt.id == gens[0].generators[0].target.id
    run.check(ok, 'R12', step.where, step.qualname, '(row for row in rows)',
              'the checkpoint notifier does not re-yield every row unchanged')
    n += 1
    # base process_resource as used by finalizer / update_stats (and any processor not overriding it)
    dsp = repo.cls('dataflows.base.datastream_processor:DataStreamProcessor')
    base = dsp.methods['process_resource']
    rls_ = row_loops(base)
    if len(rls_) == 1:
        loop, var, _ = rls_[0]
        sigs = rowloop_signature(base, loop, var)
        ok = all(len(s.yields) == 1 and isinstance(s.yields[0][1].value, ast.Call) and
                 u(s.yields[0][1].value) == 'self.process_row(%s)' % var and s.term == FALL for s in sigs)
    else:
        ok = False
    run.check(ok, 'R12', base.where, base.qualname, 'yield self.process_row(row)',
              'the base row loop does not yield process_row(row) once per row')
    for cname in ('finalizer', 'update_stats'):
        cs = [c for c in repo.find_class(cname)]
        if len(cs) != 1:
            raise AnalysisError('class %s not found' % cname)
        c = cs[0]
        run.check(observers.identity_process_row(ctx, c) and res.lookup_method(c, 'process_resource') is base
                  and res.lookup_method(c, 'process_resources') is dsp.methods['process_resources'],
                  'R12', c.where, c.qualname, 'inherits identity process_row / process_resource / process_resources',
                  '%s alters rows or resources although it is a pure observer' % cname)
        n += 1
    base_rs = dsp.methods['process_resources']
    rls = [rl for rl in find_resloops(repo, res, base_rs, [base_rs.params[1]]) if rl.kind == 'for']
    sigs, _ = resloop_signature(repo, res, rls[0])
    from sa.normalize import resolve_here as _rh5
    run.check(all([k for k, _ in s.yields] == ['wrap'] and u(_rh5(s.yields[0][1].value)) == 'self.process_resource(%s)' % rls[0].var
                  for s in sigs), 'R12', base_rs.where, base_rs.qualname, 'yield self.process_resource(res)',
              'the base resource loop does not forward every resource')
    run.floor('R12', n, 7, 'observer loops')
    observers.writer_keeps_no_row(ctx)
    observers.json_object_is_row(ctx)      # what is persisted for a row has all its values, under the field names
    observers.observer_completes(ctx)      # ... and has all rows, whatever the consumer pulls

    from rules import independence
    independence.r28_functions(ctx, [(roles['rows'].qualname, {}), (rp.qualname, {}),
                                     (rc.qualname, {'__kinds__': ('COUNTER',)}),
                                     ('dataflows.processors.printer:printer.func',
                                      {'__kinds__': ('COUNTER', 'BUFFER', 'FLAG')})])
    # 2. completeness of the persisted stream: separators / finalisation
    run.rule('R15', 'COMMIT-ORDER(observer): a resource is terminated / finalised only after its row loop; the stream step writes '
                    'the package before yielding it and the separator after each resource')
    commits.r15_datafile_order(ctx)
    commits.r15_checkpoint_rename(ctx)
    # a first-run checkpoint is transparent only if the steps before it run once: chain replacement (shared with C07)
    commits.checkpoint_replaces(ctx)
    commits.r15_descriptor_after_loop(ctx)
    sf = ctx.N(commits.stream_func(ctx), keep=tuple(roles['write_names']) + (roles['rows'].name,))
    preds = {'WRITE_PKG': lambda x: isinstance(x, ast.Call) and isinstance(x.func, ast.Name) and x.func.id in roles['write_names']
             and x.args and any('descriptor' in u(a_) for a_ in x.args),
             'YIELD_PKG': lambda x: isinstance(x, ast.Yield) and framework._is_pkg_yield(ctx, x, sf),
             'YIELD_RES': lambda x: isinstance(x, ast.Yield) and not framework._is_pkg_yield(ctx, x, sf),
             'SEP': lambda x: isinstance(x, ast.Call) and isinstance(x.func, ast.Attribute) and x.func.attr == 'write'
             and x.args and isinstance(x.args[0], ast.Constant) and x.args[0].value == '\n'}
    pes, problems = check_order(ctx, 'R15', sf, preds, before=[('WRITE_PKG', 'YIELD_PKG'), ('YIELD_RES', 'SEP')],
                                required=['WRITE_PKG'])
    # separator once per resource: inside the resource loop, same nesting as the yield
    for p, evs in pes:
        ys = [e for e in evs if e.name == 'YIELD_RES']
        ss = [e for e in evs if e.name == 'SEP']
        if len(ys) != 1 or len(ss) != 1 or ys[0].loops != ss[0].loops or not ys[0].loops:
            problems[('one separator per resource, in the resource loop after the yield', sf.node)] = p
    report_order(ctx, 'R15', sf, problems, pes, 'write(descriptor) < yield package; yield writer(res) < separator, once per resource',
                 'the persisted stream does not contain the package line and one terminated block per resource')
    # the writer gets the whole resource
    for rl in find_resloops(repo, res, sf, ['package']):
        if rl.kind == 'for':
            sigs, _ = resloop_signature(repo, res, rl)
            run.check(all([k for k, _ in s.yields] == ['wrap'] for s in sigs), 'R15', where(repo, rl.node), sf.qualname,
                      'every resource goes through the writer', 'a resource bypasses the stream writer')

    # a later step must not advance the iterator of resources past the resource it is delivering: an observer upstream ends a
    # resource (separator, finalisation, counters) when the next one is requested
    from rules import rows as _rows
    _rows.r13_no_materialise(ctx, rule='R13r', min_level=2)
    # 3. discarding steps drain what they drop; the driver drains everything
    stream.r6_consumption(ctx, rule='R6a')
    framework.r3_entrypoints(ctx)
    # class-style steps: every resource loop consumes its resource
    for c in processor_classes(repo, res):
        pr = c.methods.get('process_resources')
        if pr is None or c.module.name in ('dataflows.processors.dumpers.to_sql',):
            continue
        for rl in find_resloops(repo, res, pr, [pr.params[1]]):
            if rl.kind != 'for':
                continue
            sigs, _ = resloop_signature(repo, res, rl)
            for s in sigs:
                consumed = bool(s.drains) or any(k in ('identity', 'unwrap', 'wrap') for k, _ in s.yields)
                run.check(consumed and s.term in (FALL, 'continue') and len(s.yields) == 1, 'R6a', where(repo, rl.node), rl.fi.qualname,
                          stream.fmt_atoms(s.atoms), 'class-style step does not forward each upstream resource exactly once')

    # 4. finalizer: exactly once, after the last row
    run.rule('R15f', 'FINALIZER: the callback is called after `yield from <all resources>` has completed, outside any loop, '
                     'exactly once on every path')
    fz = repo.cls('dataflows.processors.finalizer:finalizer')
    gi = fz.methods.get('get_iterator')
    inner = [f for f in repo.functions.values() if f.parent is gi and not isinstance(f.node, ast.Lambda)]
    if gi is None or len(inner) != 1:
        raise AnalysisError('finalizer.get_iterator.func not found')
    f = ctx.N(inner[0])
    preds = {'ALL': lambda x: isinstance(x, ast.YieldFrom),
             'CALLBACK': lambda x: isinstance(x, ast.Call) and pseudo(x.func) == 'self.callback'}
    pes, problems = check_order(ctx, 'R15f', f, preds, before=[('ALL', 'CALLBACK')], forbid_ctx=['CALLBACK'],
                                required=['ALL', 'CALLBACK'], once=['CALLBACK', 'ALL'])
    report_order(ctx, 'R15f', f, problems, pes, 'yield from base_func() < self.callback(...) exactly once',
                 'the finalizer callback does not fire exactly once after the last row')
    # `yield from base_func()` where base_func is the parent implementation's deferred iterator
    yf = [x for x in own_nodes(f.node) if isinstance(x, ast.YieldFrom)]
    okb = False
    for x in yf:
        if isinstance(x.value, ast.Call) and isinstance(x.value.func, ast.Name):
            for n_ in own_nodes(gi.node):
                if isinstance(n_, ast.Assign) and isinstance(n_.targets[0], ast.Name) and \
                        n_.targets[0].id == x.value.func.id and isinstance(n_.value, ast.Call) and \
                        'super()' in u(n_.value.func) and u(n_.value.func).endswith('get_iterator'):
                    okb = True
    run.check(okb, 'R15f', f.where, f.qualname, 'yield from super().get_iterator(datastream)()',
              'the finalizer does not pass the complete upstream iterator through')

    run.trusted += ['LF1', 'generator semantics: code after a loop in a generator runs only when the consumer exhausts it']
    run.not_decided += ['what a user step placed downstream does with its iterator',
                        'identity of values cast by the dumpers\' schema_validator on non-conforming data']
    return ('Every observer row loop (printer, stream writer, file dumper, row counter, checkpoint notifier, base loop used by '
            'finalizer/update_stats) is checked path by path for one identity yield, no row store, no early exit and exactly '
            'one write per row; persistence framing and finalisation are ordered after the loops; every step is checked to '
            'consume (yield or drain) each upstream resource; the driver drains; the finalizer callback fires once after the '
            'complete iterator.',
            ['observers are found by role (module / class names of the property\'s anchors)'])
