"""C06 Row-wise pipelines stream with bounded look-ahead (DESIGN §5 C06)."""
from rules import rows


def check(ctx):
    run = ctx.run
    rows.r13_no_materialise(ctx)
    rows.r13_lazy_chain(ctx)
    nh = rows.r13_no_pull_after_handover(ctx)
    run.floor('R13h', nh, 20, 'yielded streams')
    # a queue between a reader thread and the generator that hands rows on is look-ahead too
    from rules.generic import anchor_files
    nq = rows.r13_bounded_queues(ctx, set(anchor_files('C06')))
    run.floor('R13q', nq, 8, 'modules of row-wise steps')
    # the constants themselves: "bounded by a constant" is stated for data of 10^2 .. 10^5 rows - a sample size or a write batch of
    # the order of the data is no bound.  The three constants that bound look-ahead are integer literals of at most 10^4.
    import ast as _a6
    from sa.model import u as _u6, where as _w6
    run.rule('LAC', 'LOOK-AHEAD-CONSTANTS: the sample size of in-memory sources, the default sample size handed to the tabular reader and '
                    'the default write batch of dump_to_sql are integer literals <= 10**4 (small against the data sizes the property is '
                    'stated for)')
    found = {}
    # (looked for in the normalised view of each function: a bound `options.setdefault`, a local alias of self.options and a
    # module-level name for the literal are read through)
    from sa.normalize import call_idioms as _ci6, module_literals as _ml6
    from sa.loader import AnalysisError as _AE6

    def _views(modname):
        mod_ = ctx.repo.modules[modname]
        for f_ in list(ctx.repo.functions.values()):
            if f_.module is mod_ and not isinstance(f_.node, _a6.Lambda) and not getattr(f_, 'inlined', None):
                try:
                    yield _ci6(ctx, ctx.N(f_)).node
                except _AE6:
                    raise
    il = ctx.repo.modules['dataflows.helpers.iterable_loader']
    for n_ in _a6.walk(il.tree):
        if isinstance(n_, _a6.Assign) and len(n_.targets) == 1 and _u6(n_.targets[0]) == 'SAMPLE_SIZE':
            v6 = n_.value
            found['iterable_loader.SAMPLE_SIZE'] = _ml6(il).get(v6.id, v6) if isinstance(v6, _a6.Name) else v6
    seen6 = set()
    for fn_ in _views('dataflows.processors.load'):
        for n_ in _a6.walk(fn_):
            if isinstance(n_, _a6.Call) and isinstance(n_.func, _a6.Attribute) and n_.func.attr == 'setdefault' and len(n_.args) == 2 and \
                    isinstance(n_.args[0], _a6.Constant) and n_.args[0].value == 'sample_size':
                found['load sample_size default'] = n_.args[1]
                seen6.add(('load', _u6(n_.args[1])))
    for fn_ in _views('dataflows.processors.dumpers.to_sql'):
        for n_ in _a6.walk(fn_):
            if isinstance(n_, _a6.Call) and isinstance(n_.func, _a6.Attribute) and n_.func.attr == 'get' and len(n_.args) == 2 and \
                    isinstance(n_.args[0], _a6.Constant) and n_.args[0].value == 'batch_size':
                found['dump_to_sql batch_size default'] = n_.args[1]
                seen6.add(('sql', _u6(n_.args[1])))
            # the same defaults as a table: for option, default in (('batch_size', 1000), ...): setattr(self, option, options.get(option, default))
            if isinstance(n_, _a6.For) and isinstance(n_.iter, (_a6.Tuple, _a6.List)) and isinstance(n_.target, _a6.Tuple) and \
                    len(n_.target.elts) == 2 and all(isinstance(t_, _a6.Name) for t_ in n_.target.elts) and \
                    all(isinstance(e_, _a6.Tuple) and len(e_.elts) == 2 for e_ in n_.iter.elts):
                o6, d6 = [t_.id for t_ in n_.target.elts]
                if any(isinstance(c_, _a6.Call) and isinstance(c_.func, _a6.Attribute) and c_.func.attr == 'get' and
                       [_u6(a_) for a_ in c_.args] == [o6, d6] for c_ in _a6.walk(n_)):
                    for e_ in n_.iter.elts:
                        if isinstance(e_.elts[0], _a6.Constant) and e_.elts[0].value == 'batch_size':
                            found['dump_to_sql batch_size default'] = e_.elts[1]
                            seen6.add(('sql', _u6(e_.elts[1])))
    if 'dump_to_sql batch_size default' not in found:
        from rules import tables as _t6
        for fn_ in _views('dataflows.processors.dumpers.to_sql'):
            for d_ in _t6.option_defaults(fn_, 'batch_size'):
                found['dump_to_sql batch_size default'] = d_
                seen6.add(('sql', _u6(d_)))
    if len(seen6) > 2:
        raise _AE6('look-ahead constants: more than one default for one option (%s)' % sorted(seen6))
    if len(found) != 3:
        from sa.loader import AnalysisError
        raise AnalysisError('look-ahead constants: only found %s' % sorted(found))
    for k_, v_ in sorted(found.items()):
        okc = isinstance(v_, _a6.Constant) and isinstance(v_.value, int) and not isinstance(v_.value, bool) and 1 <= v_.value <= 10 ** 4
        run.check(okc, 'LAC', _w6(ctx.repo, v_), k_, '%s = %s' % (k_, _u6(v_)),
                  'the constant that bounds how far rows are read ahead (%s = %s) is not a small integer literal: with the default '
                  'options the whole stream is pulled before the first row is delivered for every data size the property is stated for'
                  % (k_, _u6(v_)))
    for m, why in sorted(rows.OUT_OF_SCOPE_MODULES.items()):
        run.note('out of scope: %s (%s)' % (m, why))
    run.trusted += ['itertools.chain/islice/zip_longest, zip, enumerate, iter, map, filter are lazy',
                    'tabulator Stream.iter / datapackage Resource.iter are lazy (sample size is a constant option)']
    run.not_decided += ['the numeric bound itself', "tabulator's internal sample (1000 rows, a constant passed by load)",
                        'what user-supplied row/rows functions do with their iterator']
    return ('Stream-level abstract interpretation (levels: iterator of resources / iterator of rows / other) propagated '
            'through assignments, loop targets, lazy wrappers and repository calls to a fixpoint over all non-buffering '
            'modules; every call, comprehension and *-unpacking that receives a stream is classified as lazy wrapper, drain '
            'idiom, bounded sample or materialiser; generators are checked to yield inside the loop that reads upstream; '
            'the chain is checked to be built lazily.',
            ['stored callables (self.caster, self.func, user conditions) wrap their argument lazily'])
