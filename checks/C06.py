"""C06 Row-wise pipelines stream with bounded look-ahead (DESIGN §5 C06)."""
from rules import rows


def check(ctx):
    run = ctx.run
    rows.r13_no_materialise(ctx)
    rows.r13_lazy_chain(ctx)
    nh = rows.r13_no_pull_after_handover(ctx)
    run.floor('R13h', nh, 20, 'yielded streams')
    # a queue between a reader thread and the generator that hands rows on is look-ahead too
    from rules.generic import anchor_files
    nq = rows.r13_bounded_queues(ctx, set(anchor_files('C06')))
    run.floor('R13q', nq, 8, 'modules of row-wise steps')
    for m, why in sorted(rows.OUT_OF_SCOPE_MODULES.items()):
        run.note('out of scope: %s (%s)' % (m, why))
    run.trusted += ['itertools.chain/islice/zip_longest, zip, enumerate, iter, map, filter are lazy',
                    'tabulator Stream.iter / datapackage Resource.iter are lazy (sample size is a constant option)']
    run.not_decided += ['the numeric bound itself', "tabulator's internal sample (1000 rows, a constant passed by load)",
                        'what user-supplied row/rows functions do with their iterator']
    return ('Stream-level abstract interpretation (levels: iterator of resources / iterator of rows / other) propagated '
            'through assignments, loop targets, lazy wrappers and repository calls to a fixpoint over all non-buffering '
            'modules; every call, comprehension and *-unpacking that receives a stream is classified as lazy wrapper, drain '
            'idiom, bounded sample or materialiser; generators are checked to yield inside the loop that reads upstream; '
            'the chain is checked to be built lazily.',
            ['stored callables (self.caster, self.func, user conditions) wrap their argument lazily'])
