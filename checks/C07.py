"""C07 Resuming from a checkpoint reproduces the first run (DESIGN §5 C07)."""
import ast

from rules import abstypes, tables
from sa.deps import Facts, names_in, pseudo
from sa.loader import AnalysisError, own_nodes
from sa.model import u, where
from sa.paths import Enumerator, path_nodes
from sa.pattern import find_expr, find_stmt, has_expr, has_stmt, match_expr, match_stmt
from sa.normalize import resolve_here

EJ = 'dataflows.helpers.extended_json'


def tag_of(node):
    if isinstance(node, ast.Constant) and isinstance(node.value, str) and node.value.startswith('type{') and node.value.endswith('}'):
        return node.value
    return None


def fold_tag_names(ctx, fi):
    """Replace, in a normalised copy, every name whose only module-level definition is a tag literal ('type{...}') by that literal:
    tags given a name (`_DECIMAL_KEY = 'type{decimal}'`) are the same tags."""
    from sa.astcopy import clone
    from sa.loader import set_parents
    consts = {}
    for nm, defs in fi.module.defs.items():
        vals = [d[1] for d in defs if isinstance(d, tuple) and d[0] == 'assign']
        if len(vals) == 1 and len(defs) == 1 and tag_of(vals[0]):
            consts[nm] = vals[0]
    if not consts:
        return fi

    class T(ast.NodeTransformer):
        def visit_Name(self, n):
            if isinstance(n.ctx, ast.Load) and n.id in consts:
                return ast.copy_location(ast.Constant(value=consts[n.id].value), n)
            return n
    par = getattr(fi.node, '_parent', None)
    T().visit(fi.node)          # fi is already a private normalised copy
    set_parents(fi.node)
    fi.node._parent = par
    return fi


def encoder_table(ctx, enc):
    """tag -> (isinstance test, payload expr, all (path values, payload) cases) from the paths of the `default` method: the last
    isinstance test answered True on a path that returns a one-key dict.  Payloads are resolved along the path, so a helper
    that builds the payload (inlined) or a local in between does not matter."""
    from sa.model import norm_guard
    from sa.pathvals import PathValues
    from sa.paths import Enumerator
    d = fold_tag_names(ctx, ctx.N(enc.methods['default']))
    out = {}
    for p in Enumerator(where=d.qualname).paths(d.node.body):
        pv = PathValues(p)
        if not pv.returns or not isinstance(pv.returns[0], ast.Dict) or len(pv.returns[0].keys) != 1:
            continue
        t = tag_of(pv.returns[0].keys[0])
        tests = []
        for (g, pol), (g0, _pol0) in zip(pv.guards, p.guards()):
            gg, pp = norm_guard(g, pol)
            if pp and isinstance(gg, ast.Call) and u(gg.func) == 'isinstance':
                tests.append(norm_guard(g0, _pol0)[0])
        if t and tests:
            cur = out.get(t)
            cases = (cur[2] if cur else []) + [(pv, pv.returns[0].values[0])]
            out[t] = (tests[-1], pv.returns[0].values[0], cases)
    return d, out


def decoder_table(ctx, dec):
    h = fold_tag_names(ctx, ctx.N(dec.methods['object_hook']))
    out = {}
    for n in ast.walk(h.node):
        if isinstance(n, ast.If) and isinstance(n.test, ast.Compare) and isinstance(n.test.ops[0], ast.In):
            t = tag_of(n.test.left)
            if t:
                out[t] = n
    return h, out


def fmt_names(ctx, expr):
    """module constant names of strftime/strptime formats used in expr"""
    return [n.id for n in ast.walk(expr) if isinstance(n, ast.Name) and n.id.endswith('_FORMAT')]


def branch_text(ctx, fi, stmts, depth=2):
    """Unparsed text of the statements plus, for every call to a module-level function of the same module that was not inlined,
    the text of that function's body with the parameters replaced by the argument expressions (what the branch computes, wherever
    it is written)."""
    from sa.astcopy import clone
    txt = ' '.join(u(s_) for s_ in stmts)
    if depth <= 0:
        return txt
    seen = set()
    for s_ in stmts:
        for c in ast.walk(s_):
            if isinstance(c, ast.Call) and isinstance(c.func, ast.Name) and id(c) not in seen:
                seen.add(id(c))
                hf = ctx.repo.functions.get('%s:%s' % (fi.module.name, c.func.id))
                if hf is None or isinstance(hf.node, ast.Lambda) or hf.cls is not None or hf.parent is not None:
                    continue
                params = [a.arg for a in hf.node.args.args]
                if len(params) != len(c.args) or c.keywords:
                    continue
                env = dict(zip(params, c.args))

                class S(ast.NodeTransformer):
                    def visit_Name(self, n):
                        if isinstance(n.ctx, ast.Load) and n.id in env:
                            return clone(env[n.id])
                        return n
                body = [S().visit(clone(b)) for b in hf.node.body]
                for b in body:
                    ast.fix_missing_locations(b)
                txt += ' ' + branch_text(ctx, hf, body, depth - 1)
    return txt


def ejson_agreement(ctx):
    """R16 + R17 on the extended-JSON encoder / decoder pair (also run by C02: what unstream / a reused checkpoint emits must
    fit the stored descriptor, which it does only if every tagged value is decoded back to its type)."""
    run, repo, res = ctx.run, ctx.repo, ctx.res
    enc = repo.cls(EJ + ':CommonJSONEncoder')
    dec = repo.cls(EJ + ':CommonJSONDecoder')
    run.rule('R16', 'TAG-AGREEMENT: the set of type{...} tags the encoder can emit equals the set the decoder recognises; per tag the '
                    'payload shape written is the shape read (string / 3-tuple / list), the write format and the parse format are '
                    'the same format, and the decoder builds the value of the class the encoder tested for')
    d, et = encoder_table(ctx, enc)
    h, dt = decoder_table(ctx, dec)
    run.check(set(et) == set(dt) and len(et) >= 6, 'R16', d.where, d.qualname, 'tags %s' % sorted(et),
              'encoder and decoder disagree on the tag set: written only %s, read only %s'
              % (sorted(set(et) - set(dt)), sorted(set(dt) - set(et))))
    pairs = {
        'type{decimal}': dict(cls='decimal.Decimal', enc='str(', dec='decimal.Decimal('),
        'type{time}': dict(cls='datetime.time', enc='.strftime(', dec='.strptime(', tail='.time()'),
        'type{datetime}': dict(cls='datetime.datetime', enc='.strftime(', dec='.strptime('),
        'type{date}': dict(cls='datetime.date', enc='.strftime(', dec='.strptime(', tail='.date()'),
        'type{duration}': dict(cls='timedelta', enc='isodate.duration_isoformat(', dec='isodate.parse_duration('),
        'type{set}': dict(cls='set', enc='list(', dec='set('),
    }
    for tag in sorted(set(et) & set(dt)):
        test, payload, _cases = et[tag]
        branch = dt[tag]
        spec = pairs.get(tag)
        if spec is None:
            run.fail('R16', where(repo, test), d.qualname, tag, 'tag %s is not in the analyser\'s table: extend the table after '
                     'reading both sides' % tag)
            continue
        btxt = ' '.join(u(s) for s in branch.body)
        ptxt = u(payload)
        ok = spec['cls'] in u(test.args[1]) and spec['enc'] in ptxt and spec['dec'] in btxt and spec.get('tail', '') in btxt
        # the decoder reads the payload of its own tag
        ok = ok and ("obj[%r]" % tag) in btxt
        # formats
        ef, df = fmt_names(ctx, payload), fmt_names(ctx, branch)
        detail = None
        if ef or df:
            if len(ef) != 1 or len(df) != 1:
                ok = False
            else:
                w = tables.const_set(ctx, EJ, ef[0])
                r = tables.const_set(ctx, EJ, df[0])
                detail = 'written %s parsed %s' % (sorted(w), sorted(r))
                ok = ok and {tables.norm_fmt(x) for x in w} == r and len(r) == 1
                # the write format is the platform-probed constant: where strftime does not pad %Y, only %04Y writes a year below 1000
                # with the four digits the reader needs
                if ok and any('%Y' in tables.norm_fmt(x) for x in w) and not any('%04Y' in x for x in w):
                    ok = False
                    detail += ' (the format written with never pads the year)'
        run.check(ok, 'R16', where(repo, test), d.qualname, '%s: %s <-> %s' % (tag, ptxt[:60], btxt[:60]),
                  'what the encoder writes for %s is not what the decoder reads' % tag, detail=detail)
    # what the payload of a time / datetime carries: the value down to the microsecond (a format with %f, isoformat(), or the
    # microsecond as a component of its own) - a resumed run otherwise sees the values truncated to whole seconds
    for tag in (('type{datetime}', 'type{time}') if ctx.run.prop == 'C07' else ()):      # (value fidelity: C07's statement, not C02's)
        if tag in et:
            ptxt_ = u(et[tag][1])
            fmts_ = [x for nm_ in fmt_names(ctx, et[tag][1]) for x in tables.const_set(ctx, EJ, nm_)]
            carries = 'microsecond' in ptxt_ or 'isoformat(' in ptxt_ or any('%f' in str(x) for x in fmts_)
            run.check(carries, 'R16', where(repo, et[tag][0]), d.qualname, '%s carries the microsecond' % tag,
                      'the %s payload is written with a format that stops at the second: a value with microseconds resumes from the '
                      'checkpoint truncated' % tag)
    # datetime payload: 3-tuple <-> 3-unpack, offset in seconds <-> timedelta(seconds=)
    if 'type{datetime}' in et and 'type{datetime}' in dt:
        cases = et['type{datetime}'][2]
        payload = et['type{datetime}'][1]
        branch = dt['type{datetime}']
        unp = [n for n in ast.walk(branch) if isinstance(n, ast.Assign) and isinstance(n.targets[0], ast.Tuple)]
        ok = all(isinstance(pl, ast.Tuple) and len(pl.elts) == 3 for _pv, pl in cases) and len(unp) == 1 and \
            len(unp[0].targets[0].elts) == 3
        run.check(ok, 'R16', where(repo, payload), d.qualname, 'datetime payload (iso, offset, tzname) <-> 3-unpack',
                  'the datetime payload written and the tuple unpacked have different shapes')
        if ok:
            from sa.model import norm_compare
            from sa.pattern import match_expr as _me
            iso, ofs, tzn = [t.id for t in unp[0].targets[0].elts]
            btxt = branch_text(ctx, h, branch.body)
            ok2 = 'timedelta(seconds=%s)' % ofs in btxt and 'strptime(%s' % iso in btxt
            # offset cases: (aware?, expression) from a conditional expression or from the guards of the path
            offs = []
            for pv_, pl in cases:
                ok2 = ok2 and '.strftime(' in u(pl.elts[0]) and _me('__X.tzname()', pl.elts[2]) is not None
                e1 = pl.elts[1]
                if isinstance(e1, ast.IfExp):
                    t_, pol_ = norm_compare(e1.test, True)
                    aware = _me('__X.utcoffset() is None', t_) is not None
                    offs.append((not pol_ if aware else None, e1.body))
                    offs.append((pol_ if aware else None, e1.orelse))
                else:
                    aware = None
                    for g, pol in pv_.guards:
                        g, pol = norm_compare(g, pol)
                        if _me('__X.utcoffset() is None', g) is not None:
                            aware = not pol
                    offs.append((aware, e1))
            ok2 = ok2 and all(a is not None for a, _ in offs)
            run.check(ok2 and all('utcoffset()' in u(e) for a, e in offs if a), 'R16', where(repo, payload), d.qualname,
                      'offset seconds <-> timedelta(seconds=offset); tzname()',
                      'the three datetime components are not read back in the roles they were written in')
            # the zone name is handed to timezone(offset, name) only where it is known to be a name: timezone(offset, None) raises
            # TypeError (not the ValueError the decoder tolerates), and the encoder writes None for zones without a name
            hb = ctx.N(h)
            for c_ in ast.walk(hb.node):
                if isinstance(c_, ast.Call) and u(c_.func).endswith('timezone') and len(c_.args) == 2 and pseudo(c_.args[1]) == tzn:
                    tests = []
                    cur = c_
                    while getattr(cur, '_parent', None) is not None and cur is not hb.node:
                        par = cur._parent
                        if isinstance(par, (ast.If, ast.IfExp)):
                            inb = (cur is par.body) if isinstance(par, ast.IfExp) else any(cur is x for x in par.body)
                            ino = (cur is par.orelse) if isinstance(par, ast.IfExp) else any(cur is x for x in par.orelse)
                            if inb or ino:
                                t_, pol_ = norm_compare(par.test, inb)
                                tests.append((u(t_), pol_))
                        cur = par
                    run.check(('%s is None' % tzn, False) in tests, 'R16', where(repo, c_), h.qualname,
                              'timezone(offset, name) only where the name is not None',
                              'the zone name reaches timezone(offset, name) where it may be None: a zone-aware value of an unnamed zone '
                              'makes the reader raise TypeError, and a named zone loses its name')
            # naive datetimes: None offset written iff utcoffset() is None; decoder keys on tzname None
            naive = [e for a, e in offs if a is False]
            run.check(bool(naive) and all(isinstance(e, ast.Constant) and e.value is None for e in naive) and
                      any(a for a, _ in offs), 'R16', where(repo, payload), d.qualname,
                      'offset None for naive datetimes', 'a naive datetime does not round-trip as naive')
            # ... and the decoder must decide naive / aware on that same component: the zone *name* is None for perfectly aware
            # values too (fixed-offset zones of dateutil / pytz have no name), the offset is None for naive values only
            from sa.paths import Enumerator as _En
            from sa.pathvals import PathValues as _PV
            decided_ok, seen_kinds, wrong = True, set(), []
            for p_ in _En(where=h.qualname).paths(branch.body):
                pv_ = _PV(p_)
                if len(pv_.returns) != 1 or pseudo(pv_.returns[0]) in h.params:
                    continue        # falls through with the raw object
                if any(it_.kind in ('try_partial', 'handler') for it_ in p_.items):
                    continue        # decoding failed on this path: nothing decoded is returned
                # an aware result is built from the offset component; the naive result (the parsed value) is not
                aware_ret = ofs in names_in(pv_.returns[0]) or \
                    any(isinstance(n_, ast.Call) and ofs in names_in(n_) for n_ in path_nodes(p_, into_loops=True))
                gs = {}
                for t_, pol_ in p_.guards():
                    t_, pol_ = norm_compare(t_, pol_)
                    b_ = _me('_x is None', t_)
                    if b_ is not None:
                        gs[b_['_x']] = pol_
                seen_kinds.add(aware_ret)
                # aware result only where the offset is known to be present, naive result only where it is known to be absent
                if gs.get(ofs) is not (not aware_ret):
                    decided_ok = False
                    wrong.append('%s result under %s' % ('aware' if aware_ret else 'naive',
                                                       ', '.join('%s is %sNone' % (k_, '' if v_ else 'not ') for k_, v_ in sorted(gs.items())) or 'no test'))
            run.check(decided_ok and seen_kinds == {True, False}, 'R16', where(repo, branch), h.qualname,
                      'aware iff the offset component is not None' + ('' if decided_ok else ' (found: %s)' % '; '.join(wrong)),
                      'the decoder does not decide whether a datetime is zone-aware by the offset component (the zone name is None for '
                      'aware values of unnamed fixed-offset zones too): such a value resumes as a naive datetime, its offset ignored')
    # a decoded value is handed back whatever it is: testing it for truth sends every falsy value (Decimal 0, a zero duration, an
    # empty set) back as the raw one-key object it was stored as
    for tag, branch in sorted(dt.items()):
        holders = {pseudo(a_.targets[0]) for a_ in ast.walk(branch) if isinstance(a_, ast.Assign) and len(a_.targets) == 1
                   and pseudo(a_.targets[0]) and not (isinstance(a_.value, ast.Constant) and a_.value.value is None)}
        for t_ in ast.walk(branch):
            if isinstance(t_, ast.If) and t_ is not branch:
                tt = t_.test.operand if isinstance(t_.test, ast.UnaryOp) and isinstance(t_.test.op, ast.Not) else t_.test
                if isinstance(tt, ast.Name) and tt.id in holders and \
                        any(isinstance(r_, ast.Return) for r_ in ast.walk(t_)):
                    run.fail('R16', where(repo, t_), h.qualname, '%s: decoded value tested for truth before it is returned' % tag,
                             'the decoder returns the decoded value of %s only when it is truthy: a value that is falsy (0 as a decimal, a '
                             'zero-length duration, an empty set) comes back as the raw {tag: text} object' % tag)
    run.ok('R16', h.where, 'no decoded value is tested for truth')
    abstypes.r17_isinstance_order(ctx, [d], floor=1)
    return enc, dec, d, h, et, dt


def check(ctx):
    run, repo, res = ctx.run, ctx.repo, ctx.res
    enc, dec, d, h, et, dt = ejson_agreement(ctx)
    # what a resumed run reads back is what was written: a row is written before it is handed on, so what later steps do to the row
    # object in place (and would do again on resume) is not frozen into the checkpoint (shared clause with C05)
    from rules import commits as _cm, observers as _ob
    run.rule('R12', 'ROW-LOOP-SHAPE(stream writer): every row is written once, as it arrives, before it is yielded')
    roles_ = _cm.stream_roles(ctx)
    lp_, var_, _x = _ob.single_row_loop(ctx, roles_['rows'])
    _ob.transparent_loop(ctx, 'R12', roles_['rows'], lp_, var_, effects=roles_['write_names'], what='stream writer')

    run.rule('R24', 'TD-SECONDS: the UTC offset of a datetime is converted to seconds with total_seconds(); timedelta.seconds is '
                    'in [0, 86400) and drops the day component, so negative offsets (days=-1) come back 24h off')
    n24 = 0
    for m in repo.modules.values():
        for n in ast.walk(m.tree):
            if isinstance(n, ast.Attribute) and n.attr == 'seconds':
                base = n.value
                fi = repo.enclosing_func(n)
                srcs = [base]
                if fi is not None and pseudo(base):
                    srcs += Facts(fi, include_nested=False).values_of(pseudo(base))
                if any(isinstance(c, ast.Call) and isinstance(c.func, ast.Attribute) and c.func.attr in ('utcoffset', 'dst')
                       for s in srcs for c in ast.walk(s)):
                    n24 += 1
                    run.fail('R24', where(repo, n), fi.qualname if fi else m.name, u(n),
                             'UTC offset converted with .seconds: a zone-aware datetime west of UTC (e.g. -05:00) resumes from '
                             'the checkpoint as +19:00')
    if n24 == 0:
        uses = [n for n in ast.walk(repo.module(EJ).tree) if isinstance(n, ast.Call) and isinstance(n.func, ast.Attribute)
                and n.func.attr == 'utcoffset']
        run.check(bool(uses), 'R24', d.where, d.qualname, 'utcoffset() is converted without .seconds',
                  'the encoder no longer records the UTC offset at all')
    # ejson wires the classes
    ej = repo.cls(EJ + ':ejson')
    want = {'dumps': 'CommonJSONEncoder', 'dump': 'CommonJSONEncoder', 'loads': 'CommonJSONDecoder', 'load': 'CommonJSONDecoder'}
    for name, cls in want.items():
        m = ej.methods.get(name)
        m = ctx.N(m) if m is not None else None
        ok = m is not None and has_stmt("_kw['cls'] = %s" % cls, m.node) and has_expr('json.%s(*_a, **_kw)' % name, m.node)
        run.check(ok, 'R16', m.where if m else ej.where, ej.qualname + '.' + name, "kwargs['cls'] = %s" % cls,
                  'ejson.%s does not use %s' % (name, cls))
    di = dec.methods.get('__init__')
    run.check(di is not None and has_stmt("_kw['object_hook'] = self.object_hook", di.node), 'R16', dec.where, dec.qualname,
              "object_hook installed", 'the decoder does not install its object_hook')
    # decoder falls through to the raw object only
    rets = [n for n in own_nodes(h.node) if isinstance(n, ast.Return)]
    run.check(isinstance(rets[-1].value, ast.Name) and rets[-1].value.id == h.params[1], 'R16', h.where, h.qualname,
              'untagged objects are returned unchanged', 'object_hook alters plain objects')

    from rules import commits as _commits
    _commits.checkpoint_replaces(ctx)
    # running the pipeline again means running the same step objects again: a step placed after the checkpoint that carries state
    # from one run into the next (resources appended to a list the constructor made, a selector replaced by the matcher built from
    # it, field names collected per run into a dict that is never emptied) returns something else the second time
    from rules import independence as _ind
    n34 = _ind.r34_run_idempotence(ctx)
    n34 += _ind.r34_closure_state(ctx)
    # ... nor does a run use up something only the constructor / factory can create (an open file, a key-value store, a generator)
    _ind.r34_one_shot(ctx)
    run.floor('R34', n34, 30, 'step classes and step factories')

    run.rule('R25', 'FRAMING: the writer emits one single-line JSON document plus a newline per object and the reader reads line by '
                    'line, ends a resource at the first blank line and produces one reader per resource of the stored descriptor')
    from rules import commits
    roles = commits.stream_roles(ctx)
    wr = roles['write']
    ok, why = commits.one_line_per_object(ctx, wr)
    run.check(ok, 'R25', wr.where, wr.qualname, "file.write(ejson.dumps(obj) + '\\n') without indent",
              'an object is not written as exactly one line: ' + why)
    un = repo.func('dataflows.processors.unstream:unstream')
    kids = [f for f in repo.functions.values() if f.parent is un and not isinstance(f.node, ast.Lambda)]
    fns = [f for f in kids if f.all_params == ['package'] and f.is_generator]
    rrs = [f for f in kids if f.is_generator and f not in fns]
    rds = [f for f in kids if not f.is_generator]
    if len(fns) != 1 or len(rrs) != 1 or len(rds) != 1:
        raise AnalysisError('unstream: package step / resource reader / line reader not found by role')
    fn, rr, rd = ctx.N(fns[0]), ctx.N(rrs[0], keep=(rds[0].qualname,)), ctx.N(rds[0])
    rets = [n for n in ast.walk(rd.node) if isinstance(n, ast.Return)]
    loads = [n for n in ast.walk(rd.node) if isinstance(n, ast.Call) and u(n.func) == 'ejson.loads']
    ok = has_expr('_f.readline()', rd.node) and len(loads) == 1 and \
        any(r.value is None or (isinstance(r.value, ast.Constant) and r.value.value is None) for r in rets)
    if ok:
        # the document is decoded only when the (stripped) line is non-empty; otherwise None (= end of resource)
        paths = Enumerator(where=rd.qualname).paths(rd.node.body)
        for p_ in paths:
            has_load = any(n is loads[0] for n in path_nodes(p_))
            r_ = [it.node for it in p_.items if it.kind == 'return']
            if has_load:
                ok = ok and len(r_) == 1 and r_[0].value is not None and any(n is loads[0] for n in ast.walk(r_[0].value))
            else:
                ok = ok and (not r_ or r_[0].value is None or (isinstance(r_[0].value, ast.Constant) and r_[0].value.value is None))
        g = [resolve_here(t) for p_ in paths for t, pol in p_.guards()]
        ok = ok and any('readline()' in u(t) for t in g)
    run.check(ok, 'R25', rd.where, rd.qualname, 'readline -> loads, blank -> None', 'the reader does not read one document per line')
    loops = [n for n in own_nodes(rr.node) if isinstance(n, ast.While)]
    ok = len(loops) == 1
    reads_of = lambda nodes: [c for c in nodes if isinstance(c, ast.Call) and pseudo(c.func) == rd.name]
    from sa.model import norm_compare as _nc
    if ok and not (isinstance(loops[0].test, ast.Constant) and loops[0].test.value is True):
        # read-ahead form:  v = read(); while v is not None: yield v; v = read()      (or  while (v := read()) is not None: yield v)
        lp_ = loops[0]
        t_, pol_ = _nc(lp_.test, True)
        walrus = isinstance(t_, ast.Compare) and isinstance(t_.left, ast.NamedExpr)
        v_ = pseudo(t_.left.target) if walrus else (pseudo(t_.left) if isinstance(t_, ast.Compare) else None)
        ok = v_ is not None and isinstance(t_, ast.Compare) and isinstance(t_.ops[0], ast.Is) and not pol_ and \
            isinstance(t_.comparators[0], ast.Constant) and t_.comparators[0].value is None
        if ok and walrus:
            ok = bool(reads_of([t_.left.value]))
        pre = [st for st in rr.node.body if st is not lp_ and getattr(st, 'lineno', 0) < lp_.lineno]
        post = [st for st in rr.node.body if st is not lp_ and getattr(st, 'lineno', 0) > lp_.lineno]
        if ok and not walrus:
            pre_reads = [st for st in pre if isinstance(st, ast.Assign) and pseudo(st.targets[0]) == v_ and reads_of([st.value])]
            ok = len(pre_reads) == 1 and len(reads_of([n for st in pre for n in ast.walk(st)])) == 1
        ok = ok and not reads_of([n for st in post for n in ast.walk(st)]) and not lp_.orelse
        for p_ in (Enumerator(where=rr.qualname).body_paths(lp_) if ok else []):
            evs = []
            for n in path_nodes(p_):
                if isinstance(n, ast.Yield):
                    evs.append('Y' if pseudo(n.value) == v_ else 'y?')
                elif isinstance(n, ast.Assign) and pseudo(n.targets[0]) == v_:
                    evs.append('R' if reads_of([n.value]) else 'w?')
                elif reads_of([n]) and not any(isinstance(a, ast.Assign) and a.value is n for a in path_nodes(p_)):
                    evs.append('r?')
            ok = ok and evs == (['Y'] if walrus else ['Y', 'R']) and p_.term in ('fall', 'continue')
    elif ok:
        for p_ in Enumerator(where=rr.qualname).body_paths(loops[0]):
            ys = [y for y in path_nodes(p_) if isinstance(y, ast.Yield)]
            isnone = [pol if isinstance(t.ops[0], ast.IsNot) else not pol for t, pol in p_.guards()
                      if isinstance(t, ast.Compare) and isinstance(t.ops[0], (ast.Is, ast.IsNot))]
            if not isnone:
                ok = False
            elif isnone[0]:
                ok = ok and len(ys) == 1 and p_.term == 'fall'
            else:
                ok = ok and not ys and p_.term in ('break', 'return')
    else:
        # for-loop form: for r in iter(read, None): yield r
        fl = [n for n in own_nodes(rr.node) if isinstance(n, ast.For)]
        ok = len(fl) == 1 and match_expr('iter(%s, None)' % rd.name, fl[0].iter) is not None and \
            [u(y) for y in ast.walk(fl[0]) if isinstance(y, ast.Yield)] == ['(yield %s)' % u(fl[0].target)]
        # ... or the same thing delegated: yield from iter(read, None)
        yf = [n for n in own_nodes(rr.node) if isinstance(n, (ast.Yield, ast.YieldFrom))]
        if not fl and len(yf) == 1 and isinstance(yf[0], ast.YieldFrom) and match_expr('iter(%s, None)' % rd.name, yf[0].value) is not None:
            ok = len(reads_of(list(ast.walk(rr.node)))) == 0
    run.check(ok, 'R25', rr.where, rr.qualname, 'yield rows until the first blank line, then stop',
              'a resource reader does not stop exactly at the blank line that ends its resource')
    ys = [y for y in ast.walk(fn.node) if isinstance(y, ast.Yield)]
    lp = [n for n in own_nodes(fn.node) if isinstance(n, ast.For)]
    ok = len(ys) == 2 and len(lp) == 1 and u(lp[0].iter).endswith("['resources']") and ys[1] in list(ast.walk(lp[0])) and \
        isinstance(ys[1].value, ast.Call) and any(t is rrs[0] for t in res._resolve_callee(ys[1].value.func, fn.module, fns[0])) and \
        'Package(' in u(ys[0].value) and bool(names_in(ys[0].value) & names_in(lp[0].iter))
    run.check(ok, 'R25', fn.where, fn.qualname, "descriptor = read(); yield Package(descriptor); one res_reader() per resource",
              'the reader does not produce the stored descriptor followed by one stream per stored resource')
    run.trusted += ['LF7 timedelta.seconds is in [0, 86400)', 'json.dumps without indent emits no newline; ensure_ascii escapes line separators']
    run.not_decided += ['value round trip of decimals / durations / unicode through json and isodate', 'sub-second precision',
                        'run/delete/run histories beyond the chain-replacement clause']
    return ('Writer/reader agreement of the typed JSON encoding (tag sets, payload shapes, format constants over their platform-dependent '
            'value sets, class order), the UTC-offset conversion rule, the chain-replacement shape of checkpoint and Flow, and the '
            'line framing of stream/unstream.', ['LF7'])
