"""C08 An interrupted checkpoint is never used (DESIGN §5 C08)."""
import ast

from rules import commits, tables
from sa.deps import Facts, names_in, pseudo
from sa.loader import AnalysisError, FuncInfo, own_nodes
from sa.model import u, where

WRITE_OPENERS = {'builtins.open', 'io.open', 'codecs.open'}
MOVERS = {'os.rename', 'os.replace', 'shutil.move', 'shutil.copy', 'shutil.copy2', 'shutil.copyfile', 'os.link', 'os.symlink'}


def _mode(call):
    mode = None
    if len(call.args) > 1 and isinstance(call.args[1], ast.Constant):
        mode = call.args[1].value
    for k in call.keywords:
        if k.arg == 'mode' and isinstance(k.value, ast.Constant):
            mode = k.value.value
    return mode or 'r'


def check(ctx):
    run, repo, res = ctx.run, ctx.repo, ctx.res
    # a generator of the checkpoint machinery that is closed because the run failed does not keep the steps before it going
    from rules import errors as _err8
    n8 = _err8.r14_generator_exit(ctx, {'dataflows.processors.stream', 'dataflows.processors.checkpoint', 'dataflows.processors.unstream'})
    run.floor('R14g', n8, 3, 'generators of the checkpoint modules')
    run.rule('TMP', 'TEMP-NAME: the only file the checkpoint writer opens for writing is <final name> + a non-empty constant suffix; '
                    'the only call that creates the final name is one rename of exactly that temp name to itself minus the suffix; '
                    'no other open-for-write / copy / move / link exists in the writer and checkpoint modules')
    suffix = tables.const_set(ctx, 'dataflows.processors.stream', 'ACTIVE_SUFFIX')
    run.check(all(isinstance(s, str) and len(s) > 0 for s in suffix) and len(suffix) == 1, 'TMP', 'dataflows/processors/stream.py',
              'dataflows.processors.stream:<module>', 'ACTIVE_SUFFIX = %r' % sorted(suffix),
              'the temporary-name suffix is empty: the checkpoint is written directly under its final name')
    st0 = repo.func('dataflows.processors.stream:stream')
    st = ctx.N(st0)          # a helper that opens the temp file (`_open_active(target)`) is part of the factory
    inlined = {h for _c, h in getattr(st, 'inlined', [])}
    facts = Facts(st, include_nested=True)
    param = st.params[0]
    opens, moves = [], []

    def note(m, n):
        en = res.external_name(n)
        if en in WRITE_OPENERS:
            opens.append((m, n))
        if en in MOVERS:
            moves.append((m, n, en))
    for n in ast.walk(st.node):
        if isinstance(n, ast.Call):
            note(st0.module, n)
    for modname in ('dataflows.processors.stream', 'dataflows.processors.checkpoint', 'dataflows.processors.unstream'):
        m = repo.module(modname)
        for n in ast.walk(m.tree):
            if isinstance(n, ast.Call):
                ef = repo.enclosing_func(n)
                top = ef
                while top is not None and isinstance(getattr(top, 'parent', None), FuncInfo):
                    top = top.parent
                if top is st0 or (ef is not None and ef.qualname in inlined):
                    continue        # seen through the normalised factory
                note(m, n)
    w_opens = [(m, n) for m, n in opens if any(c in _mode(n) for c in 'wax+')]
    run.check(len(w_opens) == 1 and w_opens[0][0].name == 'dataflows.processors.stream', 'TMP', 'dataflows/processors/stream.py',
              st.qualname, 'exactly one open(..., "w")', 'unexpected number of files opened for writing: %s'
              % [where(repo, n) for _, n in w_opens])
    tmpname = None
    for m, n in w_opens:
        a = n.args[0]
        tmpname = pseudo(a)
        vals = [a] if not tmpname else [v for v in facts.values_of(tmpname)
                                        if not (isinstance(v, ast.Constant) and v.value is None)]
        def is_final(nm):
            if nm == param:
                return True
            vs = [v for v in facts.assigns.get(nm or '', []) if not (isinstance(v, ast.Constant) and v.value is None)]
            return len(vs) == 1 and pseudo(vs[0]) == param
        ok = bool(vals) and all(isinstance(v, ast.BinOp) and isinstance(v.op, ast.Add) and is_final(pseudo(v.left))
                                and pseudo(v.right) == 'ACTIVE_SUFFIX' for v in vals)
        run.check(ok, 'TMP', where(repo, n), st.qualname, 'open(%s) with %s = %s' % (u(a), u(a), [u(v) for v in vals]),
                  'the file opened for writing is not <final name> + ACTIVE_SUFFIX')
    run.check(len(moves) == 1 and moves[0][2] in ('os.rename', 'os.replace'), 'TMP', 'dataflows/processors/stream.py', st.qualname,
              'exactly one rename', 'files are moved/copied in %d places: %s' % (len(moves), [where(repo, n) for _, n, _ in moves]))
    def root_name(nm):
        """follow plain copies  a = b  and  (a, c) = (b, d)  back to the name the value was first bound to"""
        for _ in range(4):
            srcs = []
            for a_ in ast.walk(st.node):
                if isinstance(a_, ast.Assign) and len(a_.targets) == 1:
                    t_ = a_.targets[0]
                    if pseudo(t_) == nm and not (isinstance(a_.value, ast.Constant) and a_.value.value is None):
                        srcs.append(a_.value)
                    elif isinstance(t_, (ast.Tuple, ast.List)) and isinstance(a_.value, (ast.Tuple, ast.List)) and \
                            len(t_.elts) == len(a_.value.elts):
                        for x_, y_ in zip(t_.elts, a_.value.elts):
                            if pseudo(x_) == nm:
                                srcs.append(y_)
            if len(srcs) == 1 and isinstance(srcs[0], ast.Name):
                nm = srcs[0].id
            else:
                break
        return nm
    tmpname = root_name(tmpname) if tmpname else tmpname
    for m, n, en in moves:
        if len(n.args) != 2:
            run.fail('TMP', where(repo, n), st.qualname, n, 'rename with unexpected arguments')
            continue
        src, dst = n.args
        # (a local bound once to the destination - final_filename = filename[:-len(ACTIVE_SUFFIX)] - stands for it)
        from rules.stream import once_bound as _ob8
        fn8 = repo.enclosing_func(n)
        if isinstance(dst, ast.Name) and fn8 is not None:
            d2 = _ob8(fn8.node, dst)
            if isinstance(d2, ast.Subscript):
                dst = d2
        ok = pseudo(src) is not None and root_name(pseudo(src)) == tmpname and tmpname is not None
        # dst = src[:-len(ACTIVE_SUFFIX)]  or the original final name parameter before it was rebound
        okd = False
        if isinstance(dst, ast.Subscript) and pseudo(dst.value) and root_name(pseudo(dst.value)) == tmpname and isinstance(dst.slice, ast.Slice) \
                and dst.slice.lower is None and dst.slice.upper is not None and u(dst.slice.upper) == '-len(ACTIVE_SUFFIX)':
            okd = True
        # or: the very name the temp name was built from (<final> + ACTIVE_SUFFIX), kept in a variable that is not rebound later
        if pseudo(dst) is not None:
            bases = [pseudo(v.left) for v in facts.values_of(tmpname or '') if isinstance(v, ast.BinOp)]
            finals = set()
            for b_ in bases:
                finals.add(b_)
            dvals = [v for v in facts.assigns.get(pseudo(dst), []) if not (isinstance(v, ast.Constant) and v.value is None)]
            if pseudo(dst) in finals and (len(dvals) == 1 and pseudo(dvals[0]) == param or pseudo(dst) == param):
                # `param` itself is rebound to the file object by open(): only a copy taken before that is the final name
                okd = pseudo(dst) != param
        run.check(ok and okd, 'TMP', where(repo, n), st.qualname, n,
                  'the rename does not turn exactly the temp file into <temp name minus suffix>')
        # guarded only by "a file name was given"
    run.rule('R15', 'COMMIT-ORDER: file.close() then rename, only after the loop over all resources completed, never from an '
                    'except / finally block (an upstream error or a GeneratorExit leaves only the .active file)')
    commits.r15_checkpoint_rename(ctx)
    # a failing step must surface as an exception at the writer: no construct may turn it into a silent end of stream
    from rules import errors
    errors.r14_stopiteration_drivers(ctx)
    # the commit point is reached only when every stream was read to its end: the driver must stop pulling at the first failure
    # (a handler inside the driver that goes on to the next resource lets the writer upstream run to its rename / copy)
    errors.r14_err_discipline(ctx, rule='R14', include=lambda m: m.name == 'dataflows.base.datastream_processor', floor=1)
    # no try statement at all encloses the resource loop with a handler that continues to the rename
    sf = commits.stream_func(ctx)
    trys = [n for n in own_nodes(sf.node) if isinstance(n, ast.Try)]
    for t in trys:
        swallow = [h for h in t.handlers if not any(isinstance(x, ast.Raise) for x in ast.walk(h))]
        run.check(not swallow, 'R15', where(repo, t), sf.qualname, 'try around checkpoint writing',
                  'a handler around the writing loop swallows the failure and execution continues to the rename')
    # every write goes to the opened temp file object (flush after each line is not required for atomicity)
    run.rule('RD', 'READER-SIDE: the checkpoint decides by the existence of the final name only and opens the final name only; the '
                   'same expression is used for the test, the reader and the writer')
    ck = repo.cls('dataflows.processors.checkpoint:checkpoint')
    pc = ck.methods.get('_preprocess_chain')
    fn = ck.methods.get('filename')
    if pc is None or fn is None:
        raise AnalysisError('checkpoint._preprocess_chain / filename not found')
    rets = [n for n in own_nodes(fn.node) if isinstance(n, ast.Return)]
    ok = len(rets) == 1 and 'ACTIVE' not in u(rets[0].value) and '.active' not in u(rets[0].value) \
        and 'self.checkpoint_path' in u(rets[0].value)
    run.check(ok, 'RD', fn.where, fn.qualname, u(rets[0].value) if rets else 'return', 'the checkpoint file name is not the final name')
    from sa.pattern import match_expr as _me
    pcn, cases = commits.checkpoint_chain_cases(ctx)
    names = set()
    sel_ok = True
    for pol, arg, v, _p in cases:
        if pol is None or arg is None or v is None:
            sel_ok = False
            continue
        names.add(u(arg))
        readers = [c for c in ast.walk(v) if isinstance(c, ast.Call) and u(c.func) == 'unstream']
        writers = [c for c in ast.walk(v) if isinstance(c, ast.Call) and u(c.func) == 'stream']
        names |= set(u(c.args[0]) for c in readers + writers if c.args)
        # reader only when the final name exists, writer only when it does not
        sel_ok = sel_ok and (len(readers) == 1 and not writers if pol else len(writers) == 1 and not readers)
    run.check(names == {'self.filename'}, 'RD', pc.where, pc.qualname,
              'exists(self.filename) / unstream(self.filename) / stream(self.filename)',
              'existence test, reader and writer do not use the same final file name: %s' % sorted(names))
    run.check(sel_ok and {pol for pol, *_ in cases} == {True, False}, 'RD', pc.where, pc.qualname,
              'if exists(final): unstream(final) else: ... stream(final)',
              'the reader is not selected exactly when the final name exists')
    exm = ck.methods.get('exists')
    if exm is not None:
        r = [n for n in own_nodes(exm.node) if isinstance(n, ast.Return)]
        run.check(len(r) == 1 and u(r[0].value) == 'os.path.exists(self.filename)', 'RD', exm.where, exm.qualname,
                  'return os.path.exists(self.filename)', 'checkpoint.exists() looks at something other than the final name')
    # unstream opens exactly what it is given, read-only
    un = repo.func('dataflows.processors.unstream:unstream')
    ops = [n for _, n in opens if repo.enclosing_func(n) is un]
    run.check(len(ops) == 1 and pseudo(ops[0].args[0]) == un.params[0] and not any(c in _mode(ops[0]) for c in 'wax+'), 'RD',
              un.where, un.qualname, 'open(file)', 'the reader opens a different name or opens for writing')
    run.trusted += ['LF6 os.rename within one directory is atomic on POSIX; a closed file is visible to a later reader after process death']
    run.not_decided += ['durability across power loss', "completeness when a user step downstream stops consuming a resource early"]
    return ('Typestate temp -> closed -> renamed on every enumerated path of the checkpoint writer: the only write-open is the '
            'suffixed temp name, the only rename maps it to the final name, close precedes rename, the rename follows the complete '
            'resource loop and is unreachable from except/finally; the reader side tests and opens the final name only.', ['LF6'])
