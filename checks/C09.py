"""C09 Dump statistics describe the bytes on disk (DESIGN §5 C09)."""
import ast

from rules import commits
from rules.order import call_named, check_order, report_order
from sa.deps import Facts, base_name, names_in, pseudo
from sa.loader import AnalysisError, own_nodes
from sa.model import alpha_text, u, where
from sa.pattern import find_expr, find_stmt, has_expr, has_stmt, match_expr, match_stmt

SETTERS = ('inc_attr', 'set_attr')
COUNTERS = {
    'datapackage_rowcount': ('datapackage-rowcount', 'count_of_rows'),
    'datapackage_bytes': ('datapackage-bytes', 'bytes'),
    'datapackage_hash': ('datapackage-hash', 'hash'),
    'resource_rowcount': ('resource-rowcount', 'count_of_rows'),
    'resource_bytes': ('resource-bytes', 'bytes'),
    'resource_hash': ('resource-hash', 'hash'),
}
NONDETERMINISTIC = ('time.', 'uuid.', 'random.', 'os.getpid', 'datetime.datetime.now', 'datetime.datetime.utcnow',
                    'datetime.date.today', 'os.urandom', 'secrets.')


def target_kind(ctx, fi, expr):
    """'package' (self.datapackage.descriptor), 'package-resource' (an element of its ['resources']), 'private-resource'
    (<x>.res.descriptor: a private copy by LF1), or 'unknown'"""
    t = u(expr)
    if t == 'self.datapackage.descriptor':
        return {'package'}
    if t.endswith('.res.descriptor'):
        return {'private-resource'}
    nm = pseudo(expr)
    if nm is None:
        return {'unknown'}
    facts = Facts(fi, include_nested=False)
    kinds = set()
    for v in facts.assigns.get(nm, []):
        tv = u(v)
        if tv.endswith('.res.descriptor'):
            kinds.add('private-resource')
        elif tv == "self.datapackage.descriptor['resources']" or (
                isinstance(v, ast.Subscript) and isinstance(v.slice, ast.Constant) and v.slice.value == 'resources'
                and target_kind(ctx, fi, v.value) == {'package'}):
            kinds.add('package-resource')     # loop variable over the package's resource entries
        elif tv == 'self.datapackage.descriptor':
            kinds.add('package')
        elif isinstance(v, ast.Name):
            kinds |= target_kind(ctx, fi, v)
        else:
            kinds.add('unknown')
    return kinds or {'unknown'}


def counts_rows(m, name):
    """Does `name` count the iterations of a loop of m: incremented by one in the loop body, or the index of
    enumerate(<stream>, start=1) (pre-set to 0 for the empty stream)?"""
    for lp in ast.walk(m.node):
        if not isinstance(lp, ast.For):
            continue
        for st in lp.body:
            if isinstance(st, ast.AugAssign) and pseudo(st.target) == name and isinstance(st.op, ast.Add) and \
                    isinstance(st.value, ast.Constant) and st.value.value == 1:
                return True
        if isinstance(lp.iter, ast.Call) and u(lp.iter.func) == 'enumerate' and isinstance(lp.target, ast.Tuple) and \
                pseudo(lp.target.elts[0]) == name:
            start = {k.arg: k.value for k in lp.iter.keywords}.get('start')
            if isinstance(start, ast.Constant) and start.value == 1:
                return True
    return False


from sa.model import dominating_tests  # noqa: E402


def enclosing_loops(node, stop):
    cur = node
    while getattr(cur, '_parent', None) is not None and cur is not stop:
        cur = cur._parent
        if isinstance(cur, ast.For):
            yield cur


def check(ctx):
    run, repo, res = ctx.run, ctx.repo, ctx.res
    run.rule('R15', 'ORDER: finalize_file < tell/hash < close < write_file_to_output < unlink, all after the row loop and on the same '
                    'temp file; package hash after the resource loop and before the descriptor is handled')
    rp = commits.r15_datafile_order(ctx)
    commits.r15_descriptor_after_loop(ctx)
    # the rows counted are the rows written: the row counter sits downstream of the writer's generator, so what that generator yields
    # is what is counted - on every path of its row loop a row is yielded exactly when write_row(row) was called for it outside any
    # try statement (a handled failure of the write leaves the row out of the file)
    run.rule('WRC', 'WRITTEN-IS-COUNTED: in FileDumper.rows_processor every path of the row loop yields the row iff it wrote it')
    from sa.paths import Enumerator as _En9, path_nodes as _pn9
    rpn = ctx.N(commits.rows_processor(ctx))
    from sa.model import row_loops as _rl9
    found9 = [(l_, v_) for l_, v_, s_ in _rl9(rpn, streams=[rpn.params[1]])]
    if len(found9) != 1:
        raise AnalysisError('FileDumper.rows_processor: the row loop over its resource was not found')
    rloops, rv9 = [found9[0][0]], found9[0][1]
    n9 = 0
    for p_ in _En9(where=rpn.qualname).body_paths(rloops[0]):
        n9 += 1
        risky = any(it_.kind in ('handler', 'try_partial') for it_ in p_.items)
        wrote = [c_ for it_ in p_.items if it_.kind == 'stmt' for c_ in ast.walk(it_.node) if isinstance(c_, ast.Call)
                 and isinstance(c_.func, ast.Attribute) and c_.func.attr == 'write_row' and c_.args and pseudo(c_.args[0]) == rv9]
        ys = [y_ for y_ in _pn9(p_) if isinstance(y_, ast.Yield)]
        okw = (len(wrote) == 1 and not risky and len(ys) == 1 and pseudo(ys[0].value) == rv9) or (not wrote and not ys and not risky) \
            or p_.term == 'raise'
        run.check(okw, 'WRC', where(repo, rloops[0]), rpn.qualname, 'write_row(row); yield row',
                  'a row is passed on (and counted) on a path on which it was not written to the file, or the other way round: '
                  'count_of_rows no longer is the number of rows in the data file', path=p_.describe())
    run.floor('WRC', n9, 1, 'paths of the writer loop')
    # ... and a row that is written is one record of the file (JSON object / GeoJSON feature; CSV: one writerow, R16o in C03)
    from rules import observers as _obs9
    _obs9.json_object_is_row(ctx)
    db = commits.dumper_base(ctx)
    fd = commits.file_dumper(ctx)

    run.rule('R19a', 'STAT-TARGETS: every inc_attr/set_attr writes into the package\'s own descriptor tree (the package descriptor or '
                     'one of its resource entries), never into a Resource object\'s private copy; datapackage_* counters go to the '
                     'package descriptor, resource_* counters to a resource entry; row counts take the counted rows, byte counts '
                     'the tell() of the finished file, hashes a hexdigest')
    n = 0
    # methods that were inlined into their (only) callers are judged there, with their parameters bound to the caller's values
    norm = {}
    inlined_helpers = set()
    for c in res.subclasses(db):
        for m0 in c.methods.values():
            norm[m0.qualname] = ctx.N(m0, keep=('inc_attr', 'set_attr', 'get_attr'))
            inlined_helpers |= {h for _c, h in getattr(norm[m0.qualname], 'inlined', [])}
    for c in res.subclasses(db):
        for m0 in c.methods.values():
            if m0.qualname in inlined_helpers:
                continue
            m = norm[m0.qualname]
            for call in own_nodes(m.node):
                if not (isinstance(call, ast.Call) and isinstance(call.func, ast.Attribute) and call.func.attr in SETTERS
                        and len(call.args) == 3):
                    continue
                n += 1
                kinds = target_kind(ctx, m, call.args[0])
                attr = pseudo(call.args[1]) or ''
                cname = attr.replace('self.', '')
                if 'private-resource' in kinds and 'package-resource' not in kinds:
                    run.fail('R19a', where(repo, call), m.qualname, call,
                             'the counter is written into the Resource object\'s private descriptor copy and never reaches the '
                             'written datapackage.json')
                    continue
                if 'unknown' in kinds and len(kinds) == 1:
                    raise AnalysisError('%s: cannot classify stat target %s' % (where(repo, call), u(call.args[0])))
                if cname.startswith('datapackage_'):
                    run.check(kinds == {'package'}, 'R19a', where(repo, call), m.qualname, call,
                              'a package-level counter is written into a resource entry')
                elif cname.startswith('resource_'):
                    run.check('package' not in kinds, 'R19a', where(repo, call), m.qualname, call,
                              'a resource-level counter is written into the package descriptor')
                    # a resource is written once by a dumper: its own figures are SET.  Adding them to whatever the incoming
                    # descriptor already records (a package that was dumped before and loaded again) doubles them
                    run.check(call.func.attr == 'set_attr', 'R19a', where(repo, call), m.qualname, 'absolute ' + u(call),
                              'a per-resource counter is incremented on top of the value the incoming descriptor may already '
                              'carry: load(<dumped package>) followed by a dump records twice the bytes / rows of the file')
                else:
                    run.fail('R19a', where(repo, call), m.qualname, call, 'counter name is not one of the six configured attributes')
                # guard role: a test of the counter attribute itself that encloses its write enables it (a counter configured as
                # None is off, any other value is on); a resource-level write inside a scan over the descriptors is enclosed by
                # the test that the entry is the resource being written (by name)
                doms = dominating_tests(call, m.node)
                for t_, pol_ in doms:
                    if pseudo(t_) == attr:
                        run.check(pol_, 'R19a', where(repo, call), m.qualname, 'enabled by ' + attr,
                                  'the counter is written exactly when it is switched off (and never when it is on)')
                scans = [x for x in enclosing_loops(call, m.node) if 'resources' in u(x.iter)]
                if cname.startswith('resource_') and scans:
                    eqs = [(t_, pol_) for t_, pol_ in doms if isinstance(t_, ast.Compare) and len(t_.ops) == 1
                           and isinstance(t_.ops[0], (ast.Eq, ast.NotEq)) and "['name']" in u(t_) + ' ' and 'name' in u(t_.comparators[0]) + u(t_.left)]
                    run.check(len(eqs) == 1 and (eqs[0][1] == isinstance(eqs[0][0].ops[0], ast.Eq)), 'R19a', where(repo, call), m.qualname,
                              'entry chosen by name equality: ' + (u(eqs[0][0]) if eqs else 'none'),
                              'inside a scan over the resource descriptors a per-resource counter is not written into exactly the '
                              'entry whose name is the name of the resource being written')
                # value role
                val = call.args[2]
                facts = Facts(m, include_nested=False)
                srcs = [val] + [x for nm in facts.roots(val) for x in facts.values_of(nm)]
                txt = ' '.join(u(s) for s in srcs)
                if cname.endswith('rowcount'):
                    okv = pseudo(val) is not None and counts_rows(m, pseudo(val))
                    what = 'a counter that advances by one per row'
                elif cname.endswith('bytes'):
                    import re as _re
                    okv = '.tell()' in txt or 'os.path.getsize(' in txt or '.st_size' in txt or \
                        _re.search(r'len\(\w+\.encode\(', txt) is not None      # the byte length of the text that was written
                    what = 'the tell() of the written file (or its size, or the byte length of the written text)'
                else:
                    okv = 'hexdigest()' in txt
                    what = 'a hexdigest'
                run.check(okv, 'R19a', where(repo, call), m.qualname, 'value of ' + u(call),
                          'the recorded value is not %s' % what)
    run.floor('R19a', n, 7, 'stat writes')
    # the row counter counts exactly the rows it yields
    rc = ctx.N(db.methods.get('row_counter'), keep=('inc_attr', 'set_attr', 'get_attr'))
    from sa.model import row_loops, rowloop_signature
    loops_ = [n for n in own_nodes(rc.node) if isinstance(n, ast.For)]
    loop = loops_[0]
    var = loop.target.id if isinstance(loop.target, ast.Name) else loop.target.elts[-1].id
    for s in rowloop_signature(rc, loop, var):
        run.check(len(s.yields) == 1 and s.yields[0][0] == 'identity' and not s.guards, 'R19a', where(repo, loop), rc.qualname,
                  'one yield per row, unconditionally', 'rows are counted that are not written, or vice versa')
    # row_counter wraps the stream *after* the writer (counts what was written), per resource
    pr = ctx.N(db.methods.get('process_resources'))
    facts = Facts(pr, include_nested=False)
    wraps = [c for c in own_nodes(pr.node) if isinstance(c, ast.Call) and isinstance(c.func, ast.Attribute)
             and c.func.attr == 'row_counter']
    ok = len(wraps) == 1 and len(wraps[0].args) == 2
    if ok:
        inner = [wraps[0].args[1]] + list(facts.values_of(pseudo(wraps[0].args[1]) or ''))
        ok = any(isinstance(c, ast.Call) and isinstance(c.func, ast.Attribute) and c.func.attr == 'process_resource'
                 for s in inner for c in ast.walk(s))
    run.check(ok, 'R19a', pr.where, pr.qualname, 'row_counter(resource, process_resource(...))',
              'rows are not counted at the output of the writer')

    run.rule('R19r', 'COUNTER-ROLES: the six counter attributes are read from counters.get(<their own key>, <documented default>)')
    init = db.methods.get('__init__')
    facts = Facts(init, include_nested=False)
    for attr, (key, default) in COUNTERS.items():
        vals = facts.values_of('self.' + attr)
        ok = len(vals) == 1 and isinstance(vals[0], ast.Call) and isinstance(vals[0].func, ast.Attribute) and \
            vals[0].func.attr == 'get' and len(vals[0].args) == 2 and \
            [a.value if isinstance(a, ast.Constant) else None for a in vals[0].args] == [key, default]
        if ok:
            src = facts.values_of(pseudo(vals[0].func.value) or '')
            ok = any("'counters'" in u(s) for s in src)
        run.check(ok, 'R19r', init.where, init.qualname, "self.%s = counters.get(%r, %r)" % (attr, key, default),
                  'counter attribute %s is not configured from its own key with the documented default' % attr)
    # stats read back from the same attributes
    from sa.normalize import call_idioms as _ci9
    hd = _ci9(ctx, ctx.N(db.methods.get('handle_datapackage'), keep=tuple(m_.qualname for n_, m_ in db.methods.items() if n_ in ('get_attr', 'set_attr', 'inc_attr'))))      # (locals for the descriptor and for DumperBase.get_attr read through)
    want = {'count_of_rows': 'self.datapackage_rowcount', 'bytes': 'self.datapackage_bytes', 'hash': 'self.datapackage_hash'}
    for st in own_nodes(hd.node):
        if isinstance(st, ast.Assign) and isinstance(st.targets[0], ast.Subscript) and pseudo(st.targets[0].value) == 'self.stats':
            k = st.targets[0].slice.value if isinstance(st.targets[0].slice, ast.Constant) else None
            if k in want:
                c = st.value
                ok = isinstance(c, ast.Call) and isinstance(c.func, ast.Attribute) and c.func.attr == 'get_attr' and \
                    target_kind(ctx, hd, c.args[0]) == {'package'} and pseudo(c.args[1]) == want[k]
                run.check(ok, 'R19r', where(repo, st), hd.qualname, st,
                          'stats[%r] is not read from the package descriptor under the configured counter name' % k)
                want.pop(k)
    run.check(not want, 'R19r', hd.where, hd.qualname, 'stats keys count_of_rows / bytes / hash',
              'process() stats lack %s' % sorted(want))
    # dotted-path helpers agree with each other (set/inc/get walk the same path)
    for name in ('get_attr', 'set_attr', 'inc_attr'):
        f = ctx.N(db.methods.get(name))
        prm = f.params[1]
        # the parameter, or a plain copy of it (what an inlined helper's parameter becomes)
        copies_ = [prm] + [b_['_c'] for _n, b_ in find_stmt('_c = %s' % prm, f.node)]
        sp_ = [x_ for c_ in copies_ for x_ in find_stmt("_q = %s.split('.')" % c_, f.node)]
        ok = len(sp_) == 1 and (has_stmt('if %s is None:\n    return' % prm, f.node) or has_stmt('if %s is None:\n    return None' % prm, f.node))
        # second spelling: *parents, last = prop.split('.'); for part in parents: obj = obj.setdefault(part, {})
        star = find_stmt("(*_ps, _last) = %s.split('.')" % prm, f.node)
        if not ok and len(star) == 1 and (has_stmt('if %s is None:\n    return' % prm, f.node) or has_stmt('if %s is None:\n    return None' % prm, f.node)):
            ps_ = star[0][1]['_ps']
            walk = find_stmt('for _x in %s:\n    _o = _o2.setdefault(_x, {})' % ps_, f.node) + \
                find_stmt('for _x in %s:\n    _o = _o2.get(_x, {})' % ps_, f.node)
            ok = len(walk) == 1
            run.check(ok, 'R19r', f.where, f.qualname, 'dotted path walk, None disables',
                      '%s does not walk the dotted counter path / honour a disabled (None) counter' % name)
            continue
        if ok:
            q = sp_[0][1]['_q']
            ok = len(find_stmt('while len(%s) > 1:\n    _o = _o2.setdefault(%s.pop(0), {})' % (q, q), f.node)) + \
                len(find_stmt('while len(%s) > 1:\n    _o = _o2.get(%s.pop(0), {})' % (q, q), f.node)) + \
                len(find_stmt('while len(%s) > 1:\n    _o = __STEP' % q, f.node)) >= 1 and has_expr('%s.pop(0)' % q, f.node)
        run.check(ok, 'R19r', f.where, f.qualname, 'dotted path walk, None disables',
                  '%s does not walk the dotted counter path / honour a disabled (None) counter' % name)
    inc = db.methods.get('inc_attr')
    ok = any(isinstance(n, ast.AugAssign) and isinstance(n.op, ast.Add) and pseudo(n.value) == inc.params[2]
             for n in own_nodes(inc.node))
    run.check(ok, 'R19r', inc.where, inc.qualname, 'obj[prop] += value', 'inc_attr does not add the value')
    sa_ = db.methods.get('set_attr')
    ok = sa_ is not None and any(isinstance(n, ast.Assign) and isinstance(n.targets[0], ast.Subscript) and pseudo(n.value) == sa_.params[2]
                                 for n in own_nodes(sa_.node))
    run.check(ok, 'R19r', sa_.where if sa_ else db.where, sa_.qualname if sa_ else db.qualname, 'obj[prop] = value',
              'set_attr does not store the value: per-resource bytes / hash / row count never reach the descriptor')
    ga_ = db.methods.get('get_attr')
    ok = ga_ is not None and any(isinstance(n, ast.Return) and n.value is not None and
                                 match_expr('_o.get(_p, %s)' % ga_.params[2], n.value) is not None for n in own_nodes(ga_.node)) \
        if ga_ is not None and len(ga_.params) > 2 else ga_ is not None
    run.check(ok, 'R19r', ga_.where if ga_ else db.where, ga_.qualname if ga_ else db.qualname, 'return obj.get(prop, default)',
              'get_attr does not return the stored value: the stats process() returns are not the recorded counters')

    run.rule('R19b', 'SEALED: between serialising the package descriptor (json.dump) and reading the stats out of it nothing is '
                     'stored into the descriptor, so process() stats equal the written descriptor')
    fhd = ctx.N(fd.methods.get('handle_datapackage'), keep=('inc_attr', 'set_attr', 'get_attr', 'write_file_to_output'))
    preds = {'DUMP': commits.ext(ctx, 'json.dump', 'json.dumps'),       # the moment the descriptor is serialised
             'STORE': lambda x: isinstance(x, ast.Call) and isinstance(x.func, ast.Attribute) and x.func.attr in SETTERS
             and x.args and 'self.datapackage.descriptor' in u(x.args[0]),
             'READOUT': lambda x: isinstance(x, ast.Call) and isinstance(x.func, ast.Attribute) and x.func.attr == 'handle_datapackage'}
    pes, problems = check_order(ctx, 'R19b', fhd, preds, not_after=[('STORE', 'DUMP')], before=[('DUMP', 'READOUT')],
                                required=['DUMP', 'READOUT'])
    if problems:
        for (constraint, node), p in problems.items():
            run.fail('R19b', where(repo, node), fhd.qualname, alpha_text(node, fhd.node),
                     'the descriptor is modified after it was serialised: the stats returned by process() (and any later reader '
                     'of the in-memory descriptor) disagree with the written datapackage.json', path=p.describe())
    else:
        run.ok('R19b', fhd.where, fhd.qualname + ': no descriptor store after json.dump')

    run.rule('R19c', 'PATH: the path under which a data file is copied out depends on the descriptor entry whose path the hash '
                     'insertion rewrote (recorded path = written path)')
    facts = Facts(rp, include_nested=False)
    rewrites = [c for c in own_nodes(rp.node) if isinstance(c, ast.Call) and isinstance(c.func, ast.Attribute)
                and c.func.attr == 'insert_hash_in_path']
    outs = [c for c in own_nodes(rp.node) if isinstance(c, ast.Call) and isinstance(c.func, ast.Attribute)
            and c.func.attr == 'write_file_to_output']
    if not outs:
        raise AnalysisError('rows_processor: write_file_to_output not found')
    for w in outs:
        if not rewrites:
            run.ok('R19c', where(repo, w), rp.qualname + ': ' + u(w), 'no path rewrite in this function')
            continue
        rewritten = pseudo(rewrites[0].args[0])
        dep = facts.roots(w.args[1])
        run.check(rewritten in dep, 'R19c', where(repo, w), rp.qualname, w,
                  'with add_filehash_to_path the descriptor records <dir>/<hash>/<file> but the file is copied out under %s, '
                  'which does not depend on the rewritten descriptor %s' % (u(w.args[1]), rewritten))
    ih = db.methods.get('insert_hash_in_path')
    st = [n for n in own_nodes(ih.node) if isinstance(n, ast.Assign) and u(n.targets[0]) == "%s['path']" % ih.params[0]]
    run.check(len(st) == 1 and ih.params[1] in names_in(st[0].value) and 'file_name' in u(st[0].value) or
              (len(st) == 1 and 'basename' in u(st[0].value)), 'R19c', ih.where, ih.qualname, "descriptor['path'] = join(dir, hash, file)",
              'the hashed path is not <dir>/<hash>/<file name>')

    zd = repo.cls('dataflows.processors.dumpers.to_zip:ZipDumper')
    from sa.normalize import call_idioms as _ciz
    zw = _ciz(ctx, ctx.N(zd.methods['write_file_to_output']))      # (options collected in a dict and passed with **)
    from sa.pattern import has_expr as _he
    _zc = [c_ for c_ in ast.walk(zw.node) if isinstance(c_, ast.Call) and u(c_.func) == 'self.zip_file.write']
    run.check(len(_zc) == 1 and _zc[0].args and pseudo(_zc[0].args[0]) == zw.params[1] and
              {k_.arg: pseudo(k_.value) for k_ in _zc[0].keywords}.get('arcname') == zw.params[2], 'R19c', zw.where, zw.qualname,
              'zip_file.write(filename, arcname=path)', 'the zip member is not stored under the path recorded in the descriptor')
    zf = zd.methods['finalize']
    run.check(_he('self.zip_file.close()', zf.node), 'R19c', zf.where, zf.qualname, 'zip closed on finalize',
              'the zip archive is never closed (central directory missing)')
    run.rule('DET', 'DETERMINISM: no clock / random / pid source occurs in the dumper modules (hashes of identical data are identical)')
    hits = []
    for m in repo.modules.values():
        if not m.name.startswith('dataflows.processors.dumpers') or m.name.endswith('to_sql'):
            continue
        for c in ast.walk(m.tree):
            if isinstance(c, ast.Call):
                en = res.external_name(c) or ''
                if any(en.startswith(p) for p in NONDETERMINISTIC):
                    hits.append((c, en))
    run.check(not hits, 'DET', 'dataflows/processors/dumpers', 'dataflows.processors.dumpers:<package>', 'no nondeterministic source',
              'nondeterministic source in a dumper: %s' % [(where(repo, c), en) for c, en in hits])
    # the digest is MD5, for data files and for the package
    for f in (ctx.N(fd.methods['hash_handler']), ctx.N(db.methods['process_resources'])):
        hs = [c for c in ast.walk(f.node) if isinstance(c, ast.Call) and (res.external_name(c) or '').startswith('hashlib.')]
        run.check(len(hs) == 1 and res.external_name(hs[0]) == 'hashlib.md5', 'DET', f.where, f.qualname, 'hashlib.md5',
                  'the recorded hash is not an MD5 digest (%s)' % [res.external_name(h) for h in hs])
    # hash of exactly the bytes: hash_handler rewinds and reads to the end
    hh = fd.methods.get('hash_handler')
    run.check(has_expr('_f.seek(0)', hh.node) and has_expr('_f.read(___)', hh.node) and has_expr('_h.update(___)', hh.node)
              and any(isinstance(x, ast.While) for x in ast.walk(hh.node)), 'DET', hh.where, hh.qualname,
              'seek(0); read until empty; update', 'the hash does not cover the whole written file')
    # every chunk that was read is fed to the digest, text as its UTF-8 bytes: path by path over the body of the read loop
    hhn = ctx.N(hh)
    wl = [x for x in ast.walk(hhn.node) if isinstance(x, ast.While)]
    reads = [a for a in ast.walk(hhn.node) if isinstance(a, ast.Assign) and isinstance(a.value, ast.Call)
             and isinstance(a.value.func, ast.Attribute) and a.value.func.attr == 'read' and pseudo(a.targets[0])]
    if len(wl) != 1 or not reads:
        raise AnalysisError('hash_handler: read loop not found')
    chunk = pseudo(reads[0].targets[0])
    from sa.paths import CONTINUE, FALL, Enumerator as _En, path_nodes as _pn
    n_h = 0
    for p in _En(where=hh.qualname).body_paths(wl[0]):
        gs = {}
        for t_, pol_ in p.guards():
            b_ = match_expr('isinstance(%s, _t)' % chunk, t_)
            if b_ is not None:
                gs[b_['_t']] = pol_
        if gs and not any(gs.values()) and set(gs) >= {'str', 'bytes'}:
            continue            # neither text nor bytes: not a chunk read() returns
        if p.term not in (FALL, CONTINUE):
            continue            # the path that leaves the loop (nothing was read)
        ups = [c for c in _pn(p) if isinstance(c, ast.Call) and isinstance(c.func, ast.Attribute) and c.func.attr == 'update' and len(c.args) == 1]
        n_h += 1
        okh = len(ups) == 1
        if okh:
            a_ = ups[0].args[0]
            as_bytes = pseudo(a_) == chunk
            as_text = match_expr('%s.encode(___)' % chunk, a_) is not None
            if gs.get('str') is True:
                okh = as_text
            elif gs.get('bytes') is True or (gs.get('str') is False and 'bytes' not in gs):
                okh = as_bytes
            else:
                okh = as_bytes or as_text
        run.check(okh, 'DET', where(repo, wl[0]), hh.qualname, 'every chunk read is fed to the digest (text as UTF-8 bytes)',
                  'a chunk that was read from the written file does not reach the digest: the recorded hash is not the hash of the bytes '
                  'on disk', path=p.describe())
    run.floor('DET', n_h, 2, 'paths of the hash read loop')
    nd = commits.descriptor_never_skipped(ctx)
    run.floor('R19d', nd, 2, 'paths through write_file_to_output implementations')
    run.trusted += ['LF1', 'tell() of a text-mode temp file equals its byte size for UTF-8 output']
    run.not_decided += ['that tell() equals the byte size for every text; determinism of third-party writers (openpyxl)']
    return ('Ordering of size / hash / copy on the same temp file after finalisation; alias classification of every stat target '
            '(package descriptor tree vs private Resource copy); counter roles and value roles; sealing of the descriptor after '
            'serialisation; dependence of the copy-out path on the rewritten descriptor path; absence of nondeterministic sources.',
            ['LF1'])
