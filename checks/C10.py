"""C10 Resource selectors mean the same thing in every processor (DESIGN §5 C10)."""
import ast

from rules import matchers, stream
from sa.deps import pseudo
from sa.loader import AnalysisError, FuncInfo, own_nodes
from sa.model import (Atomizer, find_resloops, matcher_names, package_steps, processor_classes, resloop_signature, u,
                      where)
from sa.paths import FALL, RAISE, RETURN, Enumerator, path_nodes


def matcher_class(ctx):
    run = ctx.run
    run.rule('RM', 'MATCHER: None selects everything; a string is compiled into a full-string pattern; an integer is resolved '
                   'by indexing the package\'s resource list with the selector itself; anything else must be a list; match() '
                   'answers None -> True, regex -> pattern test on the name, list -> membership')
    rm = ctx.repo.cls('dataflows.helpers.resource_matcher:ResourceMatcher')
    init, match = rm.methods.get('__init__'), rm.methods.get('match')
    if init is None or match is None:
        raise AnalysisError('ResourceMatcher.__init__/match not found')
    sel, pkg = init.params[1], init.params[2]
    paths = Enumerator(where=init.qualname).paths(init.node.body)
    kinds = {}
    for p in paths:
        gs = [(u(t), pol) for t, pol in p.guards()]
        key = None
        for t, pol in p.guards():
            txt = u(t)
            if pol and 'is None' in txt:
                key = 'none'
            elif pol and 'isinstance' in txt and 'str' in txt:
                key = 'str'
            elif pol and 'isinstance' in txt and 'int' in txt and 'dict' not in txt:
                key = key or 'int'
        if key is None:
            key = 'list'
        kinds.setdefault(key, []).append(p)
    for k in ('none', 'str', 'int', 'list'):
        run.check(k in kinds, 'RM', init.where, init.qualname, 'selector form: ' + k,
                  'ResourceMatcher has no branch for a %s selector' % k)
    for p in kinds.get('str', []):
        comp = [n for n in path_nodes(p) if isinstance(n, ast.Call) and ctx.res.external_name(n) == 're.compile']
        ok = False
        for c in comp:
            parts = matchers._parts(ctx, c.args[0], init, None)
            ok = matchers.anchored(parts) and any(pt[0] == 'var' and ('self.resources' in pt[1] or sel in pt[1]) for pt in parts)
        flag = any(isinstance(n, ast.Assign) and pseudo(n.targets[0]) == 'self.re' and
                   isinstance(n.value, ast.Constant) and n.value.value is True for n in path_nodes(p))
        run.check(ok and flag, 'RM', init.where, init.qualname, 'str selector -> anchored pattern, re=True',
                  'a string selector is not compiled into a full-string pattern of itself')
    for p in kinds.get('int', []):
        good = False
        for n in path_nodes(p):
            if isinstance(n, ast.Assign) and pseudo(n.targets[0]) == 'self.resources' and isinstance(n.value, ast.List) \
                    and len(n.value.elts) == 1:
                e = n.value.elts[0]
                txt = u(e)
                # <pkg>['resources'][<selector>]['name']  or  <pkg>.resources[<selector>].name
                idx = [s for s in ast.walk(e) if isinstance(s, ast.Subscript) and pseudo(s.slice) in ('self.resources', sel)]
                named = txt.endswith("['name']") or txt.endswith('.name')
                good = bool(idx) and named and pkg in txt and 'resources' in txt
        flag = any(isinstance(n, ast.Assign) and pseudo(n.targets[0]) == 'self.re' and
                   isinstance(n.value, ast.Constant) and n.value.value is False for n in path_nodes(p))
        gtxt = ' & '.join(('' if pol else 'not ') + u(t) for t, pol in p.guards())
        run.check(good and flag, 'RM', init.where, init.qualname, 'int selector: ' + gtxt,
                  'an integer selector is not resolved to [name of package.resources[selector]]')
    for p in kinds.get('list', []):
        asserted = any(it.kind == 'assert' and 'list' in u(it.node.test) for it in p.items)
        flag = any(isinstance(n, ast.Assign) and pseudo(n.targets[0]) == 'self.re' and
                   isinstance(n.value, ast.Constant) and n.value.value is False for n in path_nodes(p))
        run.check((asserted and flag) or p.term == RAISE, 'RM', init.where, init.qualname, 'list selector asserted, re=False',
                  'a selector that is neither None, str, int nor list is accepted silently')
    # match()
    name = match.params[1]
    mp = Enumerator(where=match.qualname).paths(match.node.body)
    seen = set()
    for p in mp:
        rets = [it.node for it in p.items if it.kind == 'return']
        gtxt = ' & '.join(('' if pol else 'not ') + u(t) for t, pol in p.guards())
        if not rets:
            run.fail('RM', match.where, match.qualname, gtxt, 'match() can fall off without an answer')
            continue
        v = rets[0].value
        guards = p.guards()
        if any(pol and 'is None' in u(t) for t, pol in guards):
            seen.add('none')
            run.check(isinstance(v, ast.Constant) and v.value is True, 'RM', match.where, match.qualname, gtxt + ' -> ' + u(v),
                      'a None selector must select every resource')
        elif any(pol and pseudo(t) == 'self.re' for t, pol in guards):
            seen.add('re')
            calls = [c for c in ast.walk(v) if isinstance(c, ast.Call) and isinstance(c.func, ast.Attribute)
                     and c.func.attr in ('match', 'fullmatch', 'search') and pseudo(c.func.value) == 'self.resources']
            ok = len(calls) == 1 and calls[0].args and isinstance(calls[0].args[0], ast.Name) and calls[0].args[0].id == name
            ok = ok and isinstance(v, ast.Compare) and isinstance(v.ops[0], ast.IsNot) and \
                isinstance(v.comparators[0], ast.Constant) and v.comparators[0].value is None
            run.check(ok, 'RM', match.where, match.qualname, gtxt + ' -> ' + u(v),
                      'the regex branch does not test the name against the compiled selector')
        else:
            seen.add('list')
            ok = isinstance(v, ast.Compare) and isinstance(v.ops[0], ast.In) and isinstance(v.left, ast.Name) and \
                v.left.id == name and pseudo(v.comparators[0]) == 'self.resources'
            run.check(ok, 'RM', match.where, match.qualname, gtxt + ' -> ' + u(v),
                      'the list branch is not a membership test of the name')
    run.check(seen == {'none', 're', 'list'}, 'RM', match.where, match.qualname, 'three answers: none / regex / list',
              'match() lacks one of the three selector forms (found %s)' % sorted(seen))
    # first test in match() is the None test (self.re is unset for None selectors)
    first = mp[0].guards()[0] if mp and mp[0].guards() else None
    run.check(first is not None and 'is None' in u(first[0]), 'RM', match.where, match.qualname, 'None tested first',
              'match() consults self.re before the None test (attribute is unset for a None selector)')


def check(ctx):
    run = ctx.run
    matchers.r8_matcher_kind(ctx)
    matchers.r8_selector_not_truth_tested(ctx)
    matcher_class(ctx)
    matchers.r9_anchored(ctx, {'dataflows.helpers.resource_matcher'}, floor=1)
    # R7: package phases of selector-taking steps
    funcs = []
    for fi in package_steps(ctx.repo):
        if matcher_names(ctx.repo, ctx.res, fi):
            funcs.append(fi)
    for c in processor_classes(ctx.repo, ctx.res):
        m = c.methods.get('process_datapackage')
        if m is not None and matcher_names(ctx.repo, ctx.res, m):
            funcs.append(m)
    n7 = stream.r7_guard_dominance(ctx, funcs)
    run.floor('R7', n7, 8, 'guarded descriptor-writing paths')
    # R6c: stream phase
    n6 = stream.r6_identity(ctx)
    cls_steps = []
    rows_level = []
    for c in processor_classes(ctx.repo, ctx.res):
        pr = c.methods.get('process_resources')
        if pr is not None and matcher_names(ctx.repo, ctx.res, pr) and find_resloops(ctx.repo, ctx.res, pr, [pr.params[1]]):
            cls_steps.append(pr)
        p1 = c.methods.get('process_resource')
        if p1 is not None and matcher_names(ctx.repo, ctx.res, p1) and \
                any(isinstance(n, ast.Call) and isinstance(n.func, ast.Attribute) and n.func.attr == 'match'
                    for n in own_nodes(p1.node)):
            rows_level.append((p1, p1.params[1]))
    for pr in cls_steps:
        for rl in find_resloops(ctx.repo, ctx.res, pr, [pr.params[1]]):
            if rl.kind != 'for':
                continue
            sigs, at = resloop_signature(ctx.repo, ctx.res, rl)
            for s in sigs:
                if s.atoms.get(('MATCH',)) is False:
                    n6 += 1
                    kinds = [k for k, _ in s.yields]
                    run.check(kinds == ['identity'] and not s.drains, 'R6c', where(ctx.repo, rl.node), rl.fi.qualname,
                              stream.fmt_atoms(s.atoms), 'unselected resource does not pass through unchanged: ' + s.describe())
    from sa.model import rows_steps
    for f in rows_steps(ctx.repo):
        if any(ctx.res.instantiates(n, 'ResourceMatcher') for n in ast.walk(f.node) if isinstance(n, ast.Call)):
            rows_level.append((f, 'rows'))
    n6 += stream.r6_identity_rows(ctx, rows_level)
    run.floor('R6c', n6, 20, 'unmatched-path instances')
    n29 = stream.r29_no_shared_fields(ctx, stream.package_phase_functions(ctx))
    run.floor('R29', n29, 8, 'schema field stores')
    matchers.r10_arity(ctx)
    run.trusted += ['re: a pattern ^x$ used with match() accepts exactly the names x fully matches (modulo a trailing newline)']
    run.not_decided += ['regex semantics on names with metacharacters beyond anchoring',
                        'that the rows of a selected resource are changed correctly (other properties)']
    return ('All ResourceMatcher constructions are classified by the abstract kind of their package argument; the matcher class '
            'is checked branch by branch; every selector-taking step is checked, by guarded path signatures of its package '
            'phase and its stream phase, to edit descriptors only under MATCH and to yield unmatched resources as the identical '
            'object exactly once; every call resolving to a repository function is bound against its signature.',
            ['steps are found by role (parameter names package / rows, DataStreamProcessor subclasses)'])
