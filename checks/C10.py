"""C10 Resource selectors mean the same thing in every processor (DESIGN §5 C10)."""
import ast

from rules import matchers, stream
from sa.deps import pseudo
from sa.loader import AnalysisError, FuncInfo, own_nodes
from sa.model import (Atomizer, find_resloops, matcher_names, package_steps, processor_classes, resloop_signature, u,
                      where)
from sa.paths import FALL, RAISE, RETURN, Enumerator, path_nodes


def matcher_class(ctx):
    run = ctx.run
    run.rule('RM', 'MATCHER: None selects everything; a string is compiled into a full-string pattern; an integer is resolved '
                   'by indexing the package\'s resource list with the selector itself; anything else must be a list; match() '
                   'answers None -> True, regex -> pattern test on the name, list -> membership')
    rm = ctx.repo.cls('dataflows.helpers.resource_matcher:ResourceMatcher')
    init, match = rm.methods.get('__init__'), rm.methods.get('match')
    if init is None or match is None:
        raise AnalysisError('ResourceMatcher.__init__/match not found')
    sel, pkg = init.params[1], init.params[2]
    init, match = ctx.N(init), ctx.N(match)
    from sa.pathvals import PathValues
    from sa.pattern import match_expr
    from sa.model import norm_compare, truth_table
    paths = Enumerator(where=init.qualname).paths(init.node.body)

    def sel_atom(t):
        """Atom of a guard over the selector, after path-wise substitution (so `self.resources` and the parameter are one)."""
        if match_expr('%s is None' % sel, t) is not None:
            return 'none'
        for ty in ('str', 'int', 'list'):
            if match_expr('isinstance(%s, %s)' % (sel, ty), t) is not None:
                return ty
        if match_expr('isinstance(%s, dict)' % pkg, t) is not None:
            return 'pkgdict'
        return None
    kinds = {}
    for p in paths:
        pv = PathValues(p)
        key, pkgdict = None, None
        for t, pol in pv.guards:
            t, pol = norm_compare(t, pol)
            a = sel_atom(t)
            if a is None:
                key = 'other:' + u(t)
                break
            if a == 'pkgdict':
                pkgdict = pol
            elif pol and key is None:
                key = a
        if key is None:
            key = 'list'
        kinds.setdefault(key, []).append((p, pv, pkgdict))
    for k in sorted(kinds):
        if k.startswith('other:'):
            run.fail('RM', init.where, init.qualname, 'selector test: ' + k[6:],
                     'ResourceMatcher distinguishes a selector form outside None / pattern string / index / list of names')
    for k in ('none', 'str', 'int', 'list'):
        run.check(k in kinds, 'RM', init.where, init.qualname, 'selector form: ' + k,
                  'ResourceMatcher has no branch for a %s selector' % k)

    def final(pv, name):
        v = pv.value(name)
        return v

    def is_const(v, c):
        return isinstance(v, ast.Constant) and v.value is c
    for p, pv, _ in kinds.get('none', []):
        v = final(pv, 'self.resources')
        run.check(v is not None and (is_const(v, None) or u(v) == sel), 'RM', init.where, init.qualname,
                  'None selector stays None', 'a None selector is replaced by %s' % (u(v) if v is not None else '?'))
    for p, pv, _ in kinds.get('str', []):
        v = final(pv, 'self.resources')
        ok = False
        if isinstance(v, ast.Call) and u(v.func) == 're.compile' and init.module.imports.get('re') == ('external', 're'):
            flags_ok = len(v.args) == 1 and not v.keywords
            parts = matchers._parts(ctx, v.args[0], init, None) if v.args else []
            ok = flags_ok and matchers.anchored(parts) and sum(1 for pt in parts if pt[0] == 'var') == 1 and \
                any(pt[0] == 'var' and pt[1] == sel for pt in parts)
        run.check(ok and is_const(final(pv, 'self.re'), True), 'RM', init.where, init.qualname,
                  'str selector -> anchored pattern, re=True',
                  'a string selector is not compiled into a full-string pattern of itself')
    for p, pv, pkgdict in kinds.get('int', []):
        v = final(pv, 'self.resources')
        good = False
        if isinstance(v, ast.List) and len(v.elts) == 1:
            e = v.elts[0]
            forms = []
            if pkgdict is not False:
                forms.append("%s['resources'][%s]['name']" % (pkg, sel))
            if pkgdict is not True:
                forms.append('%s.resources[%s].name' % (pkg, sel))
            if pkgdict is None:
                forms = []      # both package representations must be told apart
            good = any(match_expr(f, e) is not None for f in forms)
        gtxt = ' & '.join(('' if pol else 'not ') + u(t) for t, pol in pv.guards)
        run.check(good and is_const(final(pv, 'self.re'), False), 'RM', init.where, init.qualname, 'int selector: ' + gtxt,
                  'an integer selector is not resolved to [name of package.resources[selector]]')
    for p, pv, _ in kinds.get('list', []):
        asserted = any(sel_atom(t) == 'list' for t in pv.asserts) or \
            any(sel_atom(norm_compare(t, pol)[0]) == 'list' and norm_compare(t, pol)[1] for t, pol in pv.guards)
        v = final(pv, 'self.resources')
        kept = v is not None and u(v) == sel
        run.check((asserted and kept and is_const(final(pv, 'self.re'), False)) or p.term == RAISE, 'RM', init.where,
                  init.qualname, 'list selector asserted, re=False',
                  'a selector that is neither None, str, int nor list is accepted silently')
    # match(): evaluate the guards as formulas over the two atoms (selector is None, regex flag) and look at what each
    # combination answers
    name = match.params[1]
    mp = Enumerator(where=match.qualname).paths(match.node.body)
    pvs = {id(p): PathValues(p) for p in mp}

    class _P:       # truth_table wants .guards() of substituted tests
        def __init__(self, p):
            self.p = p

        def guards(self):
            return pvs[id(self.p)].guards

    def m_atom(t):
        t, pol = norm_compare(t, True)
        if match_expr('self.resources is None', t) is not None:
            return 'NONE'
        if pseudo(t) == 'self.re':
            return 'RE'
        return None
    for p in mp:
        for t, pol in pvs[id(p)].guards:
            leaves = [t]
            while leaves:
                x = leaves.pop()
                if isinstance(x, ast.BoolOp):
                    leaves.extend(x.values)
                elif isinstance(x, ast.UnaryOp) and isinstance(x.op, ast.Not):
                    leaves.append(x.operand)
                elif m_atom(x) is None:
                    raise AnalysisError('%s: unrecognised test in match(): %s' % (match.where, u(x)))

    def atom_of(t):
        a = m_atom(t)
        return a

    def val_of(t, val):
        """value of leaf t under valuation (leaf may be the negated spelling `is not None`)"""
        return None
    wrapped = [_P(p) for p in mp]
    # norm_compare flips `is not None`; truth_table evaluates leaves by atom name, so rewrite leaves first
    for w in wrapped:
        pv = pvs[id(w.p)]
        pv.guards = [(_canon_leaves(t), pol) for t, pol in pv.guards]
    names, table = truth_table(wrapped, atom_of, lambda w: mp.index(w.p))

    def answer_kind(v):
        if is_const(v, True):
            return 'all'
        c = None
        for pat in ('self.resources.%s(%s) is not None', 'bool(self.resources.%s(%s))', 'self.resources.%s(%s) != None'):
            for meth in ('match', 'fullmatch', 'search'):
                if match_expr(pat % (meth, name), v) is not None:
                    c = 'regex'
        if c:
            return c
        if match_expr('%s in self.resources' % name, v) is not None:
            return 'member'
        return 'other'
    want = {(True, True): 'all', (True, False): 'all', (False, True): 'regex', (False, False): 'member'}
    seen = set()
    for none_v in (True, False):
        for re_v in (True, False):
            val = tuple(sorted({'NONE': none_v, 'RE': re_v}.items()))
            sat = table.get(tuple(sorted((k, v) for k, v in dict(val).items() if k in names)), set())
            label = 'selector %s, re flag %s' % ('is None' if none_v else 'is not None', re_v)
            if not sat:
                run.fail('RM', match.where, match.qualname, label, 'match() has no path for this case')
                continue
            for i in sat:
                p = mp[i]
                rets = pvs[id(p)].returns
                if not rets:
                    run.fail('RM', match.where, match.qualname, label, 'match() can fall off without an answer')
                    continue
                k = answer_kind(rets[0])
                seen.add(k)
                msg = {'all': 'a None selector must select every resource',
                       'regex': 'the regex branch does not test the name against the compiled selector',
                       'member': 'the list branch is not a membership test of the name'}[want[(none_v, re_v)]]
                run.check(k == want[(none_v, re_v)], 'RM', match.where, match.qualname, label + ' -> ' + u(rets[0]), msg)
    # self.re is unset for a None selector: on every path the flag is consulted only after the None test has failed
    for p in mp:
        established = False
        ok = True
        for t, pol in pvs[id(p)].guards:
            ats = set()
            stack = [t]
            while stack:
                x = stack.pop()
                if isinstance(x, ast.BoolOp):
                    stack.extend(x.values)
                elif isinstance(x, ast.UnaryOp) and isinstance(x.op, ast.Not):
                    stack.append(x.operand)
                else:
                    ats.add(m_atom(x))
            if 'RE' in ats and not established:
                # `self.resources is not None and self.re` short-circuits correctly; anything else does not
                ok = isinstance(t, ast.BoolOp) and m_atom(t.values[0]) == 'NONE' and \
                    ((isinstance(t.op, ast.And) and _negated(t.values[0])) or (isinstance(t.op, ast.Or) and not _negated(t.values[0])))
            if 'NONE' in ats:
                established = True
        run.check(ok, 'RM', match.where, match.qualname, 'None tested first: ' + ' & '.join(u(t) for t, _ in pvs[id(p)].guards),
                  'match() consults self.re before the None test (attribute is unset for a None selector)')


def _negated(t):
    """Is leaf t the negative spelling of the None test (`is not None`)?"""
    return isinstance(t, ast.Compare) and isinstance(t.ops[0], ast.IsNot)


def _canon_leaves(t):
    """`x is not None` -> `not (x is None)` inside a guard formula, so that one atom names both spellings."""
    if isinstance(t, ast.BoolOp):
        return ast.BoolOp(op=t.op, values=[_canon_leaves(v) for v in t.values])
    if isinstance(t, ast.UnaryOp) and isinstance(t.op, ast.Not):
        return ast.UnaryOp(op=ast.Not(), operand=_canon_leaves(t.operand))
    if isinstance(t, ast.Compare) and len(t.ops) == 1 and isinstance(t.ops[0], ast.IsNot):
        return ast.UnaryOp(op=ast.Not(), operand=ast.Compare(left=t.left, ops=[ast.Is()], comparators=t.comparators))
    return t


def check(ctx):
    run = ctx.run
    matchers.r8_matcher_kind(ctx)
    matchers.r8_selector_not_truth_tested(ctx)
    matcher_class(ctx)
    matchers.r9_anchored(ctx, {'dataflows.helpers.resource_matcher'}, floor=1)
    # R7: package phases of selector-taking steps
    funcs = []
    for fi in package_steps(ctx.repo):
        if matcher_names(ctx.repo, ctx.res, fi):
            funcs.append(fi)
    for c in processor_classes(ctx.repo, ctx.res):
        m = c.methods.get('process_datapackage')
        if m is not None and matcher_names(ctx.repo, ctx.res, m):
            funcs.append(m)
    n7 = stream.r7_guard_dominance(ctx, funcs)
    run.floor('R7', n7, 8, 'guarded descriptor-writing paths')
    # ... and, for the steps that exist to edit the selected descriptors, the converse: selected => edited
    editors = [ctx.repo.func('dataflows.processors.%s:%s.func' % (m_, m_)) for m_ in ('update_resource', 'update_schema', 'set_primary_key')]
    n7e = stream.r7_selected_edited(ctx, editors)
    run.floor('R7e', n7e, 3, 'matched paths of the descriptor editors')
    # R6c: stream phase
    n6 = stream.r6_identity(ctx)
    cls_steps = []
    rows_level = []
    for c in processor_classes(ctx.repo, ctx.res):
        pr = c.methods.get('process_resources')
        if pr is not None and matcher_names(ctx.repo, ctx.res, pr) and find_resloops(ctx.repo, ctx.res, pr, [pr.params[1]]):
            cls_steps.append(pr)
        p1 = c.methods.get('process_resource')
        if p1 is not None and matcher_names(ctx.repo, ctx.res, p1) and \
                any(isinstance(n, ast.Call) and isinstance(n.func, ast.Attribute) and n.func.attr == 'match'
                    for n in own_nodes(p1.node)):
            rows_level.append((p1, p1.params[1]))
    for pr in cls_steps:
        for rl in find_resloops(ctx.repo, ctx.res, pr, [pr.params[1]]):
            if rl.kind != 'for':
                continue
            sigs, at = resloop_signature(ctx.repo, ctx.res, rl)
            for s in sigs:
                if s.atoms.get(('MATCH',)) is False:
                    n6 += 1
                    kinds = [k for k, _ in s.yields]
                    run.check(kinds == ['identity'] and not s.drains, 'R6c', where(ctx.repo, rl.node), rl.fi.qualname,
                              stream.fmt_atoms(s.atoms), 'unselected resource does not pass through unchanged: ' + s.describe())
    n6 += stream.r6_matcher_asked(ctx, [x for x in funcs if x.name != 'process_datapackage'] + cls_steps)
    from sa.model import rows_steps
    for f in rows_steps(ctx.repo):
        if any(ctx.res.instantiates(n, 'ResourceMatcher') for n in ast.walk(f.node) if isinstance(n, ast.Call)):
            rows_level.append((f, 'rows'))
    n6 += stream.r6_identity_rows(ctx, rows_level)
    run.floor('R6c', n6, 20, 'unmatched-path instances')
    n29 = stream.r29_no_shared_fields(ctx, stream.package_phase_functions(ctx))
    run.floor('R29', n29, 8, 'schema field stores')
    stream.r29_no_shared_descriptor_values(ctx, stream.package_phase_functions(ctx))
    # concatenate's run detection: an unselected resource next to the selected run is neither swallowed nor reordered
    from checks import C16 as _C16
    _C16.concatenate_clauses(ctx)
    matchers.r10_arity(ctx)
    run.trusted += ['re: a pattern ^x$ used with match() accepts exactly the names x fully matches (modulo a trailing newline)']
    run.not_decided += ['regex semantics on names with metacharacters beyond anchoring',
                        'that the rows of a selected resource are changed correctly (other properties)']
    return ('All ResourceMatcher constructions are classified by the abstract kind of their package argument; the matcher class '
            'is checked branch by branch; every selector-taking step is checked, by guarded path signatures of its package '
            'phase and its stream phase, to edit descriptors only under MATCH and to yield unmatched resources as the identical '
            'object exactly once; every call resolving to a repository function is bound against its signature.',
            ['steps are found by role (parameter names package / rows, DataStreamProcessor subclasses)'])
