"""C11 join computes the relational join with the documented aggregates (DESIGN §5 C11) — structural clauses.

Shape clauses look at normalised functions (local helpers inlined, canonical spellings) and use patterns with metavariables."""
import ast

from rules import abstypes, stream
from sa.deps import Facts, names_in, pseudo
from sa.loader import AnalysisError, FuncInfo, own_nodes
from sa.model import is_drain_call, rowloop_signature, row_loops, stmts_after, u, where
from sa.normalize import resolve_here
from sa.paths import CONTINUE, FALL, RAISE, Enumerator, path_nodes
from sa.pattern import find_expr, find_stmt, has_expr, has_stmt, match_expr, match_stmt

J = 'dataflows.processors.join'


def nested(ctx, aux, role):
    """Nested functions of join_aux found by role, not by name."""
    fs = [f for f in ctx.repo.functions.values() if f.parent is aux and not isinstance(f.node, ast.Lambda)]
    if role == 'step':
        c = [f for f in fs if f.all_params == ['package'] and f.is_generator]
    elif role == 'resource_iterator':
        step = nested(ctx, aux, 'step')
        c = []
        for n in ast.walk(step.node):
            if isinstance(n, ast.YieldFrom) and isinstance(n.value, ast.Call):
                c += [t for t in ctx.res.resolve_call(n.value) if isinstance(t, FuncInfo)]
    elif role == 'indexer':
        # the generator that stores into the index and re-yields the source rows
        c = [f for f in fs if f.is_generator and any(isinstance(n, ast.Call) and u(n.func).endswith('.set') for n in ast.walk(ctx.N(f).node))
             and not any(isinstance(n, ast.Try) and any('KeyError' in u(h.type) for h in n.handlers if h.type is not None)
                         and any(isinstance(x, ast.Continue) for x in ast.walk(n)) for n in ast.walk(f.node))
             and f.all_params != ['package']]
        c = [f for f in c if 'AGGREGATORS' in u(ctx.N(f).node)]
        if len(c) > 1:
            # several generators reach the index (one of them through a call to the indexer): the indexer is the one whose own
            # body stores into it
            own = [f for f in c if any(isinstance(n, ast.Call) and u(n.func).endswith('.set') for n in own_nodes(f.node))]
            c = own or c
    elif role == 'target':
        ri = nested(ctx, aux, 'resource_iterator')
        idx = nested(ctx, aux, 'indexer')
        c = []
        for n in ast.walk(ri.node):
            if isinstance(n, ast.Yield) and isinstance(n.value, ast.Call):
                for t in ctx.res.resolve_call(n.value):
                    if isinstance(t, FuncInfo) and t is not idx and t not in c:
                        c.append(t)
    elif role == 'lookup':
        tg = nested(ctx, aux, 'target')

        def cands_in(tree):
            out_ = []
            for n in ast.walk(tree):
                if isinstance(n, ast.Try):
                    for x in n.body:
                        for call in ast.walk(x):
                            if isinstance(call, ast.Call):
                                for t in ctx.res.resolve_call(call):
                                    if isinstance(t, FuncInfo) and t.parent is aux and t not in out_:
                                        out_.append(t)
            return out_
        c = cands_in(tg.node) or cands_in(ctx.N(tg, depth=1).node)      # ... or through the generators it delegates to
    else:
        raise AnalysisError('unknown role ' + role)
    if len(c) != 1:
        raise AnalysisError('join_aux: function with role %r not found (%d candidates)' % (role, len(c)))
    return c[0]


def check(ctx):
    _body(ctx)
    ctx.run.trusted += ['LF5 KVFile get raises KeyError for a missing key; set overwrites']
    ctx.run.not_decided += ['that each aggregate equals its definition on all inputs (values)', 'key rendering and null-key behaviour',
                            'equivalence of the in-memory cache and the on-disk index']
    return (EXPLANATION, ['LF5'])


def _body(ctx):
    run, repo, res = ctx.run, ctx.repo, ctx.res
    aux = repo.func(J + ':join_aux')
    pt0 = nested(ctx, aux, 'target')
    ix0 = nested(ctx, aux, 'indexer')
    ce0 = nested(ctx, aux, 'lookup')
    nri = nested(ctx, aux, 'resource_iterator')
    roles = (pt0.qualname, ix0.qualname, ce0.qualname)
    pt, ix, ce = ctx.N(pt0, keep=roles), ctx.N(ix0, keep=roles), ctx.N(ce0, keep=roles)

    run.rule('R23', 'MODE-SIGNATURE(join): per target row - key found: the row is extended with the aggregates and yielded once (same '
                    'object); not found & inner: dropped; not found & outer: yielded once with nulls; full-outer additionally emits, '
                    'after the target rows, one row per source key whose usage flag is still False; the indexer clears the flag, a '
                    'match sets it; deduplication drains the indexer, then emits one row per stored key')
    loops = [l for l, v, s_ in row_loops(pt, streams=[pt.params[0]])]
    if len(loops) != 1:
        raise AnalysisError('join target generator: row loop over its resource not found')
    lp = loops[0]
    st = {k.arg: k.value for k in lp.iter.keywords}.get('start') if isinstance(lp.iter, ast.Call) else None
    tgt_elts = lp.target.elts if isinstance(lp.target, ast.Tuple) else []
    run.check(isinstance(lp.iter, ast.Call) and u(lp.iter.func) == 'enumerate' and isinstance(st, ast.Constant) and st.value == 1
              and len(tgt_elts) == 2, 'R23', where(repo, lp), pt.qualname, 'enumerate(resource, start=1)',
              'row numbers of the target do not start at 1 (the `#` key disagrees with the source side)')
    if len(tgt_elts) != 2:
        return
    rn, row = [t.id for t in tgt_elts]
    sigs = rowloop_signature(pt, lp, row)
    seen = set()
    trys = [n for n in ast.walk(lp) if isinstance(n, ast.Try)]
    ok_try = len(trys) == 1 and len(trys[0].handlers) == 1 and u(trys[0].handlers[0].type) == 'KeyError'
    b = None
    if ok_try:
        b = match_stmt('try:\n    _extra = __LOOKUP(_key)\n    _usage.set(_key, True)\nexcept KeyError:\n    ...', trys[0])
        ok_try = b is not None and any(isinstance(t, FuncInfo) and t is ce0 for t in
                                       res._resolve_callee(b['__LOOKUP'], pt.module, pt0)) if b else False
    run.check(ok_try, 'R23', where(repo, lp), pt.qualname, 'try: extra = lookup(key); usage.set(key, True) except KeyError',
              'a key is marked used although the lookup failed, the lookup is not the index lookup, or errors other than a missing '
              'key are treated as "no match"')
    if not ok_try:
        return
    extra, key, usage = b['_extra'], b['_key'], b['_usage']
    for s in sigs:
        exc = any(it.kind == 'handler' for it in s.path.items)
        inner = [pol for t, pol in s.guards if match_expr("mode == 'inner'", t) is not None]
        kinds = [k for k, _ in s.yields]
        nodes = list(path_nodes(s.path))
        upd = [c for c in nodes if isinstance(c, ast.Call) and u(c.func) == '%s.update' % row]
        if not exc:
            seen.add('found')
            ok = kinds == ['identity'] and len(upd) == 1 and pseudo(upd[0].args[0]) == extra and s.term == FALL
            run.check(ok, 'R23', where(repo, lp), pt.qualname, 'found: row.update(extra); yield row',
                      'a matched target row is not extended with the aggregates and yielded exactly once', detail=s.describe())
        elif inner and inner[0]:
            seen.add('inner')
            run.check(not kinds and s.term == CONTINUE and not upd, 'R23', where(repo, lp), pt.qualname,
                      'not found & inner: dropped', 'inner mode keeps an unmatched target row', detail=s.describe())
        elif inner:
            seen.add('outer')
            ok = kinds == ['identity'] and len(upd) == 1 and pseudo(upd[0].args[0]) == extra
            nulls = [n for n in nodes if isinstance(n, ast.Assign) and pseudo(n.targets[0]) == extra]
            ok = ok and len(nulls) == 1 and (match_expr('{_k: _r.get(_k) for _k in fields.keys()}', nulls[0].value, {'_r': row}) is not None
                                             or match_expr('{_k: _r.get(_k) for _k in fields}', nulls[0].value, {'_r': row}) is not None)
            run.check(ok, 'R23', where(repo, lp), pt.qualname, 'not found & outer: extra = {k: row.get(k) for k in fields}; yielded once',
                      'outer modes drop or duplicate an unmatched target row, or it does not get a null for every joined field',
                      detail=s.describe())
        else:
            run.fail('R23', where(repo, lp), pt.qualname, s.describe(), 'a path of the target loop is neither found / inner / outer')
    run.check(seen == {'found', 'inner', 'outer'}, 'R23', where(repo, lp), pt.qualname, 'three outcomes per target row',
              'process_target lacks one of found / unmatched-inner / unmatched-outer (%s)' % sorted(seen))
    kv = find_stmt('%s = target_key(%s, %s)' % (key, row, rn), lp)
    run.check(len(kv) == 1, 'R23', where(repo, lp), pt.qualname, 'key = target_key(row, row_number)',
              'the target key is not rendered from the row and its number')
    # full-outer emission after the loop
    # ... decided on the paths through the generator: where the mode is full-outer, exactly one further loop follows the row loop,
    # over the usage flags, yielding the lookup of each key whose flag is still False; in the other modes nothing follows
    from sa.model import norm_compare as _nc
    okp, seen_fo = True, set()
    for p_ in Enumerator(where=pt.qualname).paths(pt.node.body):
        gs_ = [_nc(t_, pol_) for t_, pol_ in p_.guards()]
        if any(pseudo(t_) == 'deduplication' and pol_ for t_, pol_ in gs_):
            continue
        pos_ = [i_ for i_, it_ in enumerate(p_.items) if it_.kind == 'loop' and it_.node is lp]
        if len(pos_) != 1 or any(it_.kind == 'loop_exit' for it_ in p_.items):
            okp = False
            continue
        after_ = p_.items[pos_[0] + 1:]
        later_ = [it_.node for it_ in after_ if it_.kind == 'loop']
        stray_ = any(isinstance(y_, (ast.Yield, ast.YieldFrom)) for it_ in after_ if it_.kind != 'loop' and isinstance(it_.node, ast.AST)
                     for y_ in ast.walk(it_.node))
        fo_ = [pol_ for t_, pol_ in gs_ if match_expr("mode == 'full-outer'", t_) is not None]
        if fo_ and all(fo_):
            seen_fo.add(True)
            bb_ = None
            if len(later_) == 1:
                bb_ = match_stmt("for (_k, _used) in %s.items():\n    if _used is False:\n        _e = __LOOKUP(_k)\n        yield _e" % usage, later_[0]) \
                    or match_stmt("for (_k, _used) in %s.items():\n    if _used is False:\n        yield __LOOKUP(_k)" % usage, later_[0])
            okp = okp and bb_ is not None and not stray_ and \
                any(isinstance(t_, FuncInfo) and t_ is ce0 for t_ in res._resolve_callee(bb_['__LOOKUP'], pt.module, pt0))
        elif fo_ and not any(fo_):
            seen_fo.add(False)
            okp = okp and not later_ and not stray_
        else:
            okp = okp and not later_ and not stray_
    okp = okp and True in seen_fo
    run.check(okp, 'R23', pt.where, pt.qualname, "after the loop, full-outer only: for key, used in usage.items(): if used is False: yield lookup(key)",
              'full-outer does not emit exactly the unmatched source keys after the target rows')

    # indexer
    iloops = [l for l, v, s_ in row_loops(ix, streams=[ix.params[0]])]
    if len(iloops) != 1:
        raise AnalysisError('join indexer: source row loop not found')
    il = iloops[0]
    st = {k.arg: k.value for k in il.iter.keywords}.get('start') if isinstance(il.iter, ast.Call) else None
    ielts = il.target.elts if isinstance(il.target, ast.Tuple) else []
    run.check(isinstance(il.iter, ast.Call) and u(il.iter.func) == 'enumerate' and isinstance(st, ast.Constant) and st.value == 1
              and len(ielts) == 2, 'R23', where(repo, il), ix.qualname, 'enumerate(resource, start=1)', 'row numbers of the source do not start at 1')
    if len(ielts) == 2:
        irn, irow = [t.id for t in ielts]
        isig = rowloop_signature(ix, il, irow)
        okall = bool(isig)
        ikey = cur = None
        for s in isig:
            nodes = list(path_nodes(s.path, into_loops=True))
            sets = [c for c in nodes if isinstance(c, ast.Call) and u(c.func) == '%s.set' % usage]
            dbs = [c for c in nodes if isinstance(c, ast.Call) and u(c.func).endswith('.set') and c not in sets]
            okall = okall and [k for k, _ in s.yields] == ['identity'] and s.term == FALL and len(sets) == 1 and \
                u(sets[0].args[1]) == 'False' and len(dbs) == 1 and len(dbs[0].args) == 2 and \
                pseudo(sets[0].args[0]) == pseudo(dbs[0].args[0])
            if okall:
                ikey, cur = pseudo(dbs[0].args[0]), pseudo(dbs[0].args[1])
        # the row is folded into the index BEFORE it is handed on: with source_delete=False the source rows continue downstream
        # by reference, and a later step that edits them in place must not change what the index holds
        for s in isig:
            nodes = list(path_nodes(s.path, into_loops=True))
            ypos = [i for i, n_ in enumerate(nodes) if isinstance(n_, ast.Yield)]
            spos = [i for i, n_ in enumerate(nodes) if isinstance(n_, ast.Call) and u(n_.func).endswith('.set')]
            reads = [i for i, n_ in enumerate(nodes) if isinstance(n_, ast.Name) and n_.id == irow and isinstance(n_.ctx, ast.Load)
                     and not any(n_ is getattr(y, 'value', None) for y in nodes if isinstance(y, ast.Yield))]
            run.check(bool(ypos) and bool(spos) and max(spos) < min(ypos) and (not reads or max(reads) < min(ypos)), 'R23',
                      where(repo, il), ix.qualname, 'index the source row, then yield it',
                      'a source row is handed downstream before it has been folded into the index: a later step that edits rows '
                      'in place changes the keys / aggregates the join uses')
        run.check(okall, 'R23', where(repo, il), ix.qualname, 'per source row: db.set(key, current); usage.set(key, False); yield row',
                  'the indexer does not store every source row under its key, clear its usage flag and pass the row on unchanged')
        run.check(ikey is not None and len(find_stmt('%s = source_key(%s, %s)' % (ikey, irow, irn), il)) == 1, 'R23', where(repo, il),
                  ix.qualname, 'key = source_key(row, row_number)', 'the source key is not rendered from the row and its number')
        # the fold, path by path over the loop on the field specs: a non-null source value (the empty text for `count`, which counts
        # rows) is folded into the running value with the aggregate's function; a null one only creates the entry
        from sa.pathvals import PathValues as _PVf
        from sa.model import norm_compare as _ncf
        floops = [l_ for l_ in ast.walk(il) if isinstance(l_, ast.For) and match_expr('fields.items()', l_.iter) is not None
                  and isinstance(l_.target, ast.Tuple) and len(l_.target.elts) == 2]
        ok = len(floops) == 1 and cur is not None
        kinds_f = set()
        if ok:
            fv_, sv_ = [t_.id for t_ in floops[0].target.elts]
            for p_ in Enumerator(where=ix.qualname).body_paths(floops[0]):
                pv_ = _PVf(p_)
                newx, isnone, member = None, None, None
                infeasible = False
                for t_, pol_ in pv_.guards:
                    t_, pol_ = _ncf(t_, pol_)
                    b_ = match_expr('__X is None', t_)
                    if b_ is not None:
                        if isinstance(b_['__X'], ast.Constant):
                            if (b_['__X'].value is None) != pol_:
                                infeasible = True
                            continue
                        newx, isnone = b_['__X'], pol_
                    b_ = match_expr('%s in %s' % (fv_, cur), t_)
                    if b_ is not None:
                        member = pol_
                    b_ = match_expr('%s not in %s' % (fv_, cur), t_)
                    if b_ is not None:
                        member = not pol_
                if infeasible:
                    continue
                stores = [c_ for o_, c_ in pv_.stmts if isinstance(c_, ast.Assign) and isinstance(o_.targets[0], ast.Subscript)
                          and pseudo(o_.targets[0].value) == cur and pseudo(o_.targets[0].slice) == fv_]
                count_path = any(isinstance(t_, ast.Compare) and "'count'" in u(t_) and
                                 ((isinstance(t_.ops[0], ast.Eq) and pol_) or (isinstance(t_.ops[0], ast.NotEq) and not pol_))
                                 for t_, pol_ in [_ncf(a_, b2_) for a_, b2_ in pv_.guards])
                if newx is None and count_path:
                    # count: the value folded is the constant '' (never None)
                    okp = len(stores) == 1 and match_expr("AGGREGATORS[%s['aggregate']].func(%s.get(%s), '')" % (sv_, cur, fv_), stores[0].value) is not None
                    kinds_f.add('count')
                elif isnone is False:
                    src_ok = match_expr("%s.get(%s['name'])" % (irow, sv_), newx) is not None or match_expr("%s[%s['name']]" % (irow, sv_), newx) is not None
                    okp = src_ok and len(stores) == 1 and stores[0].value is not None and \
                        match_expr("AGGREGATORS[%s['aggregate']].func(%s.get(%s), __N)" % (sv_, cur, fv_), stores[0].value) is not None and \
                        u(match_expr("AGGREGATORS[%s['aggregate']].func(%s.get(%s), __N)" % (sv_, cur, fv_), stores[0].value)['__N']) == u(newx)
                    kinds_f.add('value')
                elif isnone is True:
                    okp = (len(stores) == 1 and isinstance(stores[0].value, ast.Constant) and stores[0].value.value is None) if member is False \
                        else (not stores and member is True)
                    kinds_f.add('null')
                else:
                    okp = False
                ok = ok and okp
            ok = ok and {'value', 'null'} <= kinds_f
        run.check(ok, 'R23', where(repo, il), ix.qualname,
                  'current[field] = AGGREGATORS[spec aggregate].func(current.get(field), row.get(spec name)) for non-null values',
                  'aggregates are not folded over exactly the non-null source values of the matching key')
    # dedup mode
    paths = Enumerator(where=pt.qualname).paths(pt.node.body)
    okd = False
    for p in paths:
        if any(pol and pseudo(t) == 'deduplication' for t, pol in [_nc(t_, pol_) for t_, pol_ in p.guards()]):
            nodes = list(path_nodes(p, into_loops=True))
            drains = [c for c in nodes if isinstance(c, ast.Call) and is_drain_call(res, c)]
            floops = [it.node for it in p.items if it.kind == 'loop']
            drained = drains[0].args[0] if len(drains) == 1 and drains[0].args else None
            if isinstance(drained, ast.Name):
                # the argument of an inlined drain helper: the single value assigned to that name
                vs_ = [a_.value for a_ in nodes if isinstance(a_, ast.Assign) and pseudo(a_.targets[0]) == drained.id]
                drained = vs_[0] if len(vs_) == 1 else drained
            okd = len(drains) == 1 and isinstance(drained, ast.Call) and \
                (any(isinstance(t, FuncInfo) and t is ix0 for t in res._resolve_callee(drained.func, pt.module, pt0))
                 or pseudo(drained.func) == ix0.node.name) and \
                len(drained.args) == 1 and pseudo(drained.args[0]) == pt.params[0] and len(floops) == 1 and \
                u(floops[0].iter).endswith('.items()') and sum(isinstance(y, ast.Yield) for y in ast.walk(floops[0])) == 1 and \
                not any(isinstance(x, (ast.If, ast.Break, ast.Continue)) for x in ast.walk(floops[0])) and \
                [i_ for i_, n_ in enumerate(nodes) if n_ is drains[0]][0] < min(i_ for i_, n_ in enumerate(nodes) if any(n_ is x for x in ast.walk(floops[0])))
            if okd:
                okd = has_expr("{_k: AGGREGATORS[fields[_k]['aggregate']].finaliser(_v) for (_k, _v) in _val.items()}", floops[0]) and \
                    (has_expr('{_f: None for _f in fields.keys()}', floops[0]) or has_expr('{_f: None for _f in fields}', floops[0])
                     or has_expr('dict.fromkeys(fields)', floops[0]) or has_expr('dict.fromkeys(fields.keys())', floops[0])
                     or has_expr('dict.fromkeys(fields, None)', floops[0]))
    run.check(okd, 'R23', pt.where, pt.qualname, 'dedup: drain indexer(resource); then one finalised row per key of db.items()',
              'deduplication mode does not emit exactly one aggregated row per distinct key')
    # lookup: finaliser of the aggregator named by the field spec, for joined fields only
    ok = has_expr("{_k: AGGREGATORS[fields[_k]['aggregate']].finaliser(_v) for (_k, _v) in _s.items() if _k in fields}", ce.node) and \
        has_expr("_s.pop('__key__', None)", ce.node) and has_expr('zip(target_key.key_list, _kv)', ce.node)
    run.check(ok, 'R23', ce.where, ce.qualname, 'extra = {k: finaliser_of(fields[k])(v) for k, v in db.get(key).items() if k in fields}',
              'the joined values are not the finalised aggregates of the fields requested')
    from rules import independence
    independence.r28_functions(ctx, [(ix0.qualname, {}), (pt0.qualname, {})])

    abstypes.r18_target_field(ctx)      # what the package phase declares for each aggregate (shared with C02)
    run.rule('AGG', 'AGGREGATOR-TABLE: the twelve documented aggregates exist with (func, finaliser, dataType, copyProperties) and their '
                    'fold / finaliser have the documented shape (max calls max, min calls min, sum adds, count adds one, first keeps '
                    'the accumulator, last/any take the new value, set/array/counters collect); the fold tests the accumulator with '
                    '`is not None`, not for truth (0 and False are legitimate running values)')
    m, table = abstypes.table_entries(ctx, J, 'AGGREGATORS')
    shape = {
        'sum': ('_new + _curr if _curr is not None else _new', 'identity'),
        'max': ('max(_new, _curr) if _curr is not None else _new', 'identity'),
        'min': ('min(_new, _curr) if _curr is not None else _new', 'identity'),
        'first': ('_curr if _curr is not None else _new', 'identity'),
        'last': ('_new', 'identity'),
        'any': ('_new', 'identity'),
        'count': ('_curr + 1 if _curr is not None else 1', 'identity'),
        'avg': ('(_curr[0] + 1, _new + _curr[1]) if _curr is not None else (1, _new)', '_v[1] / _v[0]'),
        'median': ('_curr + [_new] if _curr is not None else [_new]', 'median'),
        'array': ('_curr + [_new] if _curr is not None else [_new]', '_v if _v is not None else []'),
        'set': ('_curr.union({_new}) if _curr is not None else {_new}', 'list(_v) if _v is not None else []'),
        'counters': ('update_counter(_curr, _new)', 'list(collections.Counter(_v).most_common()) if _v is not None else []'),
    }
    commutative = {'sum', 'count', 'avg', 'max', 'min'}

    def variants(pat, comm):
        """the pattern plus, for commutative folds, the spelling with + operands / max-min arguments swapped"""
        out = [pat]
        if comm:
            out.append(pat.replace('_new + _curr', '_curr + _new').replace('max(_new, _curr)', 'max(_curr, _new)')
                       .replace('min(_new, _curr)', 'min(_curr, _new)').replace('_curr + 1', '1 + _curr')
                       .replace('_new + _curr[1]', '_curr[1] + _new').replace('_curr[0] + 1', '1 + _curr[0]'))
        return out
    for name, (fshape, finshape) in shape.items():
        c = table.get(name)
        if not (isinstance(c, ast.Call) and len(c.args) == 4):
            run.fail('AGG', m.relpath, J + ':<module>', 'AGGREGATORS[%r]' % name, 'aggregate %r missing or malformed' % name)
            continue
        f, fin = c.args[0], c.args[1]

        def as_lambda(e_, n_params):
            """(parameter names, body expression) of a lambda, or of a module-level function whose body is one returned
            expression (a conditional return counts: `if c: return a` / `else: return b`)"""
            if isinstance(e_, ast.Lambda) and len(e_.args.args) == n_params:
                return [a_.arg for a_ in e_.args.args], e_.body
            if isinstance(e_, ast.Name):
                g = repo.func('%s:%s' % (J, e_.id), None)
                if g is not None and not isinstance(g.node, ast.Lambda) and len(g.params) == n_params:
                    body_ = [st for st in g.node.body if not (isinstance(st, ast.Expr) and isinstance(st.value, ast.Constant))]
                    if len(body_) == 1 and isinstance(body_[0], ast.Return) and body_[0].value is not None:
                        return g.params, body_[0].value
                    if len(body_) == 1 and isinstance(body_[0], ast.If) and len(body_[0].body) == 1 and len(body_[0].orelse) == 1 and \
                            isinstance(body_[0].body[0], ast.Return) and isinstance(body_[0].orelse[0], ast.Return):
                        return g.params, ast.IfExp(test=body_[0].test, body=body_[0].body[0].value, orelse=body_[0].orelse[0].value)
            return None
        fl = as_lambda(f, 2)
        okf = fl is not None and any(match_expr(v, fl[1], {'_curr': fl[0][0], '_new': fl[0][1]}) is not None
                                     for v in variants(fshape, name in commutative))
        # the fold may be the two-argument function itself instead of a lambda that only forwards to it
        e_fw = match_expr('_g(_curr, _new)', ast.parse(fshape, mode='eval').body)
        if not okf and e_fw is not None and isinstance(f, ast.Name) and f.id == e_fw['_g']:
            okf = True
        if isinstance(fin, ast.Lambda):
            okn = len(fin.args.args) == 1 and match_expr(finshape, fin.body, {'_v': fin.args.args[0].arg}) is not None
        else:
            okn = u(fin) == finshape
        run.check(okf and okn, 'AGG', where(repo, c), J + ':<module>', 'AGGREGATORS[%r] = (%s ; %s)' % (name, fshape, finshape),
                  'aggregate %r no longer computes its documented definition (fold: %s ; finaliser: %s)'
                  % (name, u(f.body) if isinstance(f, ast.Lambda) else u(f), u(fin.body) if isinstance(fin, ast.Lambda) else u(fin)))
    md = ctx.N(repo.func(J + ':median'))
    ok = has_stmt('_s = sorted(_vals)', md.node) and \
        (has_expr('(_s[_mid - 1] + _s[_mid]) / 2', md.node) or has_expr('(_s[_mid] + _s[_mid - 1]) / 2', md.node)) and \
        has_stmt('return _s[_mid]', md.node) and (has_stmt('_mid = int(_n / 2)', md.node) or has_stmt('_mid = _n // 2', md.node)) and \
        (has_expr('_n % 2 == 0', md.node) or has_expr('_n % 2', md.node) or has_expr('_n % 2 != 0', md.node) or has_expr('_n % 2 == 1', md.node))
    run.check(ok, 'AGG', md.where, md.qualname, 'median of the sorted values (mean of the middle two for even counts)', 'median helper changed')
    # ... arranged as: nothing collected -> None; even count -> mean of the two middle values of the sorted list; odd -> the middle one
    from sa.pathvals import PathValues as _PV
    from sa.model import norm_compare as _nc
    v0 = md.params[0]
    seen = set()
    okm = True
    for p in Enumerator(where=md.qualname).paths(md.node.body):
        pv = _PV(p)
        if len(pv.returns) != 1:
            okm = False
            continue
        none_, even = None, None
        for t, pol in pv.guards:
            t, pol = _nc(t, pol)
            if match_expr('%s is None' % v0, t) is not None:
                none_ = pol
            for pt, ev in (('__N % 2 == 0', True), ('__N % 2 != 0', False), ('__N % 2 == 1', False), ('__N % 2', False)):
                b_ = match_expr(pt, t)
                if b_ is not None and u(b_['__N']) == 'len(%s)' % v0:
                    even = pol if ev else (not pol)
                    break
        r = pv.returns[0]
        mids = ('int(len(%s) / 2)' % v0, 'len(%s) // 2' % v0)
        if none_:
            okm = okm and isinstance(r, ast.Constant) and r.value is None
            seen.add('none')
        elif even is True:
            b_ = match_expr('(sorted(%s)[__M - 1] + sorted(%s)[__M2]) / 2' % (v0, v0), r) or \
                match_expr('(sorted(%s)[__M2] + sorted(%s)[__M - 1]) / 2' % (v0, v0), r)
            okm = okm and b_ is not None and u(b_['__M']) in mids and u(b_['__M2']) in mids
            seen.add('even')
        elif even is False:
            b_ = match_expr('sorted(%s)[__M]' % v0, r)
            okm = okm and b_ is not None and u(b_['__M']) in mids
            seen.add('odd')
        else:
            okm = False
    run.check(okm and seen == {'none', 'even', 'odd'}, 'AGG', md.where, md.qualname,
              'median: None for no values; even count -> (s[mid-1] + s[mid]) / 2; odd -> s[mid], s = sorted(values), mid = len // 2',
              'the median helper does not return the middle of the sorted values (mean of the middle two for an even count)')
    # update_counter: nothing new -> unchanged; a text counts as one item; the running value is (made) a Counter and updated
    uc0 = repo.func(J + ':update_counter', None)
    if uc0 is None:
        raise AnalysisError('join: update_counter not found')
    uc = ctx.N(uc0)
    cur, new = uc.params[:2]
    okc, kinds = True, set()
    for p in Enumerator(where=uc.qualname).paths(uc.node.body):
        pv = _PV(p)
        g = {}
        infeasible = False
        for t, pol in pv.guards:
            t, pol = _nc(t, pol)
            b_ = match_expr('isinstance(__X, collections.Counter)', t)
            if b_ is not None and isinstance(b_['__X'], ast.Call) and u(b_['__X'].func) == 'collections.Counter' and not pol:
                infeasible = True       # a Counter just made is a Counter
        if infeasible:
            continue
        for t, pol in pv.guards:
            t, pol = _nc(t, pol)
            for nm, pt in (('new_none', '%s is None' % new), ('cur_none', '%s is None' % cur), ('new_str', 'isinstance(%s, str)' % new),
                           ('cur_counter', 'isinstance(%s, collections.Counter)' % cur)):
                if match_expr(pt, t) is not None:
                    g[nm] = pol
        if len(pv.returns) != 1:
            okc = False
            continue
        ups = [c.value for o_, c in pv.stmts if isinstance(c, ast.Expr) and isinstance(c.value, ast.Call)
               and isinstance(c.value.func, ast.Attribute) and c.value.func.attr == 'update']
        if g.get('new_none'):
            okc = okc and not ups and u(pv.returns[0]) == cur
            kinds.add('nothing new')
            continue
        want_recv = 'collections.Counter()' if g.get('cur_none') else (cur if g.get('cur_counter', True) else 'collections.Counter(%s)' % cur)
        want_arg = '[%s]' % new if g.get('new_str') else new
        okc = okc and len(ups) == 1 and u(ups[0].func.value) == want_recv and len(ups[0].args) == 1 and u(ups[0].args[0]) == want_arg \
            and u(pv.returns[0]) == want_recv
        kinds.add(('fresh' if g.get('cur_none') else 'kept', 'text' if g.get('new_str') else 'items'))
    run.check(okc and {'nothing new', ('fresh', 'text'), ('fresh', 'items'), ('kept', 'text'), ('kept', 'items')} <= kinds, 'AGG', uc.where,
              uc.qualname, 'update_counter: None adds nothing; a text is one item; the running value is a Counter, updated and returned',
              'the counters aggregate does not count every collected value once (a text as one item) on top of what was counted before')

    kc = repo.cls(J + ':KeyCalc')
    kinit, kcall = ctx.N(kc.methods['__init__']), ctx.N(kc.methods['__call__'])
    run.rule('KEY', 'KEY-RENDERING: a field-list key becomes the format string "{f1}:{f2}:..." (one separator between components), a '
                    'format-string key is used as given; the key is rendered from the row with "#" bound to the row number; source '
                    'and target use the same renderer class')
    join_ok = [b for n, b in find_expr("':'.join(('{%s}' % _k for _k in _spec))", kinit.node)] + \
        [b for n, b in find_expr("':'.join(['{%s}' % _k for _k in _spec])", kinit.node)]
    run.check(len(join_ok) == 1, 'KEY', kinit.where, kinit.qualname, "':'.join('{%s}' % key for key in key_spec)",
              'list keys are not rendered as colon-separated components (two different key tuples could render the same string)')
    # the key fields are kept in the order of the key specification: full-outer stores the source's key values by position
    # (`__key__`) and writes them back by position under the target's key fields, so the two lists must pair up as the user wrote them
    from sa.pathvals import PathValues as _PVk
    kspec = kinit.params[1]
    okl, nkl = True, 0
    for p_ in Enumerator(where=kinit.qualname).paths(ctx.N(kinit).node.body):
        if p_.term == 'raise':
            continue
        v_ = _PVk(p_).env.get('self.key_list')
        nkl += 1
        okl = okl and v_ is not None and (pseudo(v_) == kspec or (isinstance(v_, ast.Call) and (u(v_.func) in ('re.findall', 'list') or (isinstance(v_.func, ast.Attribute) and v_.func.attr == 'findall'))
                                                                   and kspec in {n_.id for n_ in ast.walk(v_) if isinstance(n_, ast.Name)}
                                                                   and not any(isinstance(c_, ast.Call) and u(c_.func) in ('sorted', 'set', 'reversed', 'frozenset')
                                                                               for c_ in ast.walk(v_))))
    run.check(okl and nkl >= 2, 'KEY', kinit.where, kinit.qualname, 'self.key_list = the key fields in specification order',
              'the list of key fields is reordered or de-duplicated: in full-outer mode the source key values, stored by position, are '
              'written back under the wrong target key fields')
    rets = [n for n in ast.walk(kcall.node) if isinstance(n, ast.Return)]
    okc = len(rets) == 1 and match_expr("self.key_spec.format(**{**_row, '#': _rn})", resolve_here(rets[0].value),
                                        {'_row': kcall.params[1], '_rn': kcall.params[2]}) is not None
    run.check(okc, 'KEY', kcall.where, kcall.qualname, "key_spec.format(**{**row, '#': row_number})", 'the key is not rendered from the row and its number')
    run.check(has_stmt('source_key = KeyCalc(source_key)', aux.node) and
              (has_stmt('if target_key is not None:\n    target_key = KeyCalc(target_key)\nelse:\n    target_key = target_key', aux.node) or
               has_stmt('if target_key is not None:\n    target_key = KeyCalc(target_key)', aux.node) or
               has_stmt('if target_key is None:\n    target_key = target_key\nelse:\n    target_key = KeyCalc(target_key)', aux.node) or
               # `deduplication` is the name of `target_key is None`, taken before target_key is rebound
               (has_stmt('deduplication = target_key is None', aux.node) and
                (has_stmt('if deduplication:\n    target_key = None\nelse:\n    target_key = KeyCalc(target_key)', aux.node) or
                 has_stmt('if not deduplication:\n    target_key = KeyCalc(target_key)', aux.node)))), 'KEY', aux.where,
              aux.qualname, 'both keys rendered by KeyCalc', 'source and target keys are rendered by different code')

    run.rule('ORD', 'INDEX-BEFORE-TARGET: the target branch asserts that the source was indexed; mode is one of the three documented '
                    'values; the source must precede the target in the package')
    flags = find_stmt('assert _flag', nri.node)
    ok = len(flags) == 1
    if ok:
        fl = flags[0][1]['_flag']
        a = flags[0][0]
        ok = isinstance(a._parent, ast.If) and 'target_name' in names_in(a._parent.test) and a._parent.body[0] is a
        sets = find_stmt('%s = True' % fl, nri.node)
        ok = ok and len(sets) == 1 and isinstance(sets[0][0]._parent, ast.If) and 'source_name' in names_in(sets[0][0]._parent.test)
    run.check(ok, 'ORD', nri.where, nri.qualname, 'assert has_index dominates the target branch',
              'the target can be processed before the source was indexed (every row would be unmatched)')
    am = [n for n in own_nodes(aux.node) if isinstance(n, ast.Assert) and 'mode' in names_in(n.test) and
          isinstance(n.test, ast.Compare) and isinstance(n.test.ops[0], ast.In)]
    modes_ok = False
    if len(am) == 1:
        from rules import tables as _tb
        try:
            vals_ = _tb.literal(ctx, aux.module.name, am[0].test.comparators[0])
            modes_ok = len(vals_) == 1 and sorted(vals_[0]) == ['full-outer', 'half-outer', 'inner']
        except AnalysisError:
            modes_ok = False
    ok = len(am) == 1 and modes_ok
    run.check(ok, 'ORD', aux.where, aux.qualname, "assert mode in ['inner', 'half-outer', 'full-outer']", 'an unknown mode is accepted silently')
    func = nested(ctx, aux, 'step')
    stream.r6_consumption(ctx, [func])
    stream.r6_identity(ctx, [func])
    stream.r6_count_agreement(ctx, [func])


EXPLANATION = ('Guarded path signature of the per-target-row loop over {KeyError raised, mode == inner}; post-loop full-outer emission; '
            'indexer and deduplication shapes; aggregator table against the documented definitions (patterns with free parameter '
            'names, commutative variants accepted); key rendering; dominance of the index assertion; descriptor/stream count '
            'agreement.  All shapes are compared on normalised functions.')
