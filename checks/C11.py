"""C11 join computes the relational join with the documented aggregates (DESIGN §5 C11) — structural clauses."""
import ast

from rules import abstypes, stream
from sa.deps import Facts, names_in, pseudo
from sa.loader import AnalysisError, FuncInfo, own_nodes
from sa.model import is_drain_call, rowloop_signature, stmts_after, u, where
from sa.paths import CONTINUE, FALL, RAISE, Enumerator, path_nodes
from sa.pattern import find_expr, find_stmt, has_expr, has_stmt, match_expr, match_stmt

J = 'dataflows.processors.join'


def check(ctx):
    run, repo, res = ctx.run, ctx.repo, ctx.res
    aux = repo.func(J + ':join_aux')
    pt = repo.func(J + ':join_aux.process_target')
    ix = repo.func(J + ':join_aux.indexer')
    ce = repo.func(J + ':join_aux.create_extra_by_key')
    nri = repo.func(J + ':join_aux.new_resource_iterator')

    run.rule('R23', 'MODE-SIGNATURE(join): per target row - key found: the row is extended with the aggregates and yielded once (same '
                    'object); not found & inner: dropped; not found & outer: yielded once with nulls; full-outer additionally emits, '
                    'after the target rows, one row per source key whose usage flag is still False; the indexer clears the flag, a '
                    'match sets it; deduplication drains the indexer, then emits one row per stored key')
    loops = [n for n in ast.walk(pt.node) if isinstance(n, ast.For) and isinstance(n.iter, ast.Call) and u(n.iter.func) == 'enumerate'
             and pseudo(n.iter.args[0]) == pt.params[0]]
    if len(loops) != 1:
        raise AnalysisError('join.process_target: target row loop not found')
    lp = loops[0]
    start = {k.arg: k.value for k in lp.iter.keywords}.get('start')
    run.check(isinstance(start, ast.Constant) and start.value == 1, 'R23', where(repo, lp), pt.qualname, 'enumerate(resource, start=1)',
              'row numbers of the target do not start at 1 (the `#` key disagrees with the source side)')
    rn, row = [t.id for t in lp.target.elts]
    sigs = rowloop_signature(pt, lp, row)
    seen = set()
    for s in sigs:
        exc = any(it.kind == 'handler' and 'KeyError' in u(it.node.type) for it in s.path.items)
        inner = [pol for t, pol in s.guards if u(t) == "mode == 'inner'"]
        kinds = [k for k, _ in s.yields]
        nodes = list(path_nodes(s.path))
        upd = [c for c in nodes if isinstance(c, ast.Call) and u(c.func) == '%s.update' % row]
        sets = [c for c in nodes if isinstance(c, ast.Call) and u(c.func) == 'db_keys_usage.set']
        if not exc:
            seen.add('found')
            ok = kinds == ['identity'] and len(upd) == 1 and pseudo(upd[0].args[0]) == 'extra' and len(sets) == 1 and \
                u(sets[0].args[1]) == 'True' and pseudo(sets[0].args[0]) == 'key'
            facts = Facts(pt, include_nested=False)
            run.check(ok, 'R23', where(repo, lp), pt.qualname, 'found: usage[key]=True; row.update(extra); yield row',
                      'a matched target row is not extended with the aggregates and yielded exactly once', detail=s.describe())
        elif inner and inner[0]:
            seen.add('inner')
            run.check(not kinds and s.term == CONTINUE and not upd, 'R23', where(repo, lp), pt.qualname,
                      'not found & inner: dropped', 'inner mode keeps an unmatched target row', detail=s.describe())
        elif inner:
            seen.add('outer')
            ok = kinds == ['identity'] and len(upd) == 1 and not sets
            run.check(ok, 'R23', where(repo, lp), pt.qualname, 'not found & outer: yielded once with nulls',
                      'outer modes drop or duplicate an unmatched target row', detail=s.describe())
    run.check(seen == {'found', 'inner', 'outer'}, 'R23', where(repo, lp), pt.qualname, 'three outcomes per target row',
              'process_target lacks one of found / unmatched-inner / unmatched-outer (%s)' % sorted(seen))
    # try body: lookup then flag; except KeyError only
    trys = [n for n in ast.walk(lp) if isinstance(n, ast.Try)]
    ok = len(trys) == 1 and len(trys[0].handlers) == 1 and u(trys[0].handlers[0].type) == 'KeyError'
    if ok:
        b = trys[0].body
        ok = len(b) == 2 and u(b[0]) == 'extra = create_extra_by_key(key)' and u(b[1]) == 'db_keys_usage.set(key, True)'
    run.check(ok, 'R23', where(repo, lp), pt.qualname, 'try: extra = create_extra_by_key(key); usage.set(key, True) except KeyError',
              'a key is marked used although the lookup failed, or errors other than a missing key are treated as "no match"')
    # key of the target row
    facts = Facts(pt, include_nested=False)
    kv = [v for v in facts.values_of('key') if isinstance(v, ast.Call) and u(v.func) == 'target_key']
    run.check(len(kv) == 1 and [pseudo(a) for a in kv[0].args] == [row, rn], 'R23', where(repo, lp), pt.qualname,
              'key = target_key(row, row_number)', 'the target key is not rendered from the row and its number')
    # unmatched outer rows get nulls for the joined fields (their own value if present)
    ex = [n for n in ast.walk(lp) if isinstance(n, ast.Assign) and pseudo(n.targets[0]) == 'extra' and isinstance(n.value, ast.Call)
          and u(n.value.func) == 'dict']
    ok = len(ex) == 1 and (match_expr('dict(((_k, _r.get(_k)) for _k in fields.keys()))', ex[0].value, {'_r': row}) is not None or
                           match_expr('dict(((_k, _r.get(_k)) for _k in fields))', ex[0].value, {'_r': row}) is not None)
    run.check(ok, 'R23', where(repo, lp), pt.qualname, 'extra = dict((k, row.get(k)) for k in fields.keys())',
              'an unmatched target row does not get a null for every joined field')
    # full-outer emission after the loop
    post = stmts_after(lp)
    ok = len(post) == 1 and isinstance(post[0], ast.If) and u(post[0].test) == "mode == 'full-outer'"
    if ok:
        fl = [n for n in post[0].body if isinstance(n, ast.For)]
        ok = len(fl) == 1 and u(fl[0].iter) == 'db_keys_usage.items()'
        if ok:
            k, v = [t.id for t in fl[0].target.elts]
            cond = [n for n in fl[0].body if isinstance(n, ast.If)]
            ok = len(fl[0].body) == 1 and len(cond) == 1 and u(cond[0].test) == '%s is False' % v and not cond[0].orelse
            if ok:
                b = cond[0].body
                ok = len(b) == 2 and u(b[0]) == 'extra = create_extra_by_key(%s)' % k and u(b[1]) == 'yield extra'
    run.check(ok, 'R23', pt.where, pt.qualname, "after the loop, full-outer only: for key, used in usage.items(): if used is False: yield extra(key)",
              'full-outer does not emit exactly the unmatched source keys after the target rows')
    # indexer: flag False, store, identity yield
    il = [n for n in own_nodes(ix.node) if isinstance(n, ast.For) and isinstance(n.iter, ast.Call) and u(n.iter.func) == 'enumerate']
    if len(il) != 1:
        raise AnalysisError('join.indexer: source row loop not found')
    il = il[0]
    irn, irow = [t.id for t in il.target.elts]
    st = {k.arg: k.value for k in il.iter.keywords}.get('start')
    run.check(isinstance(st, ast.Constant) and st.value == 1 and pseudo(il.iter.args[0]) == ix.params[0], 'R23', where(repo, il), ix.qualname,
              'enumerate(resource, start=1)', 'row numbers of the source do not start at 1')
    isig = rowloop_signature(ix, il, irow)
    okall = True
    for s in isig:
        nodes = list(path_nodes(s.path, into_loops=True))
        sets = [c for c in nodes if isinstance(c, ast.Call) and u(c.func) == 'db_keys_usage.set']
        dbs = [c for c in nodes if isinstance(c, ast.Call) and u(c.func) == 'db.set']
        okall = okall and [k for k, _ in s.yields] == ['identity'] and s.term == FALL and \
            len(sets) == 1 and u(sets[0].args[1]) == 'False' and pseudo(sets[0].args[0]) == 'key' and \
            len(dbs) == 1 and [pseudo(a) for a in dbs[0].args] == ['key', 'current']
    run.check(okall, 'R23', where(repo, il), ix.qualname, 'per source row: db.set(key, current); usage.set(key, False); yield row',
              'the indexer does not store every source row under its key, clear its usage flag and pass the row on unchanged')
    ifacts = Facts(ix, include_nested=False)
    kv = [v for v in ifacts.values_of('key') if isinstance(v, ast.Call) and u(v.func) == 'source_key']
    run.check(len(kv) == 1 and [pseudo(a) for a in kv[0].args] == [irow, irn], 'R23', where(repo, il), ix.qualname,
              'key = source_key(row, row_number)', 'the source key is not rendered from the row and its number')
    # aggregation over non-null values only, with the aggregator named by the spec
    fold = find_stmt('if _new is not None:\n    _cur[_f] = AGGREGATORS[_agg].func(_c, _new)\nelif _f not in _cur:\n    _cur[_f] = None', il)
    ok = len(fold) == 1
    if ok:
        b = fold[0][1]
        ok = has_stmt("%s = %s.get(%s)" % (b['_c'], b['_cur'], b['_f']), il) and has_stmt("%s = _spec['aggregate']" % b['_agg'], il) and \
            (has_stmt("%s = %s.get(_n)" % (b['_new'], irow), il) or has_stmt("%s = %s[_n]" % (b['_new'], irow), il)) and \
            has_stmt("_n = _spec['name']", il)
    run.check(ok, 'R23', where(repo, il), ix.qualname,
              'current[field] = AGGREGATORS[spec aggregate].func(current.get(field), row.get(spec name)) for non-null values',
              'aggregates are not folded over exactly the non-null source values of the matching key')
    # dedup mode
    paths = Enumerator(where=pt.qualname).paths(pt.node.body)
    okd = False
    for p in paths:
        if any(pol and pseudo(t) == 'deduplication' for t, pol in p.guards()):
            nodes = list(path_nodes(p, into_loops=True))
            drains = [c for c in nodes if isinstance(c, ast.Call) and is_drain_call(res, c)]
            floops = [it.node for it in p.items if it.kind == 'loop']
            okd = len(drains) == 1 and u(drains[0].args[0]) == 'indexer(%s)' % pt.params[0] and len(floops) == 1 and \
                u(floops[0].iter) == 'db.items()' and sum(isinstance(y, ast.Yield) for y in ast.walk(floops[0])) == 1 and \
                not any(isinstance(x, (ast.If, ast.Break, ast.Continue)) for x in ast.walk(floops[0])) and \
                drains[0].lineno < floops[0].lineno
            if okd:
                fb = u(floops[0])
                okd = 'AGGREGATORS[fields[k][\'aggregate\']].finaliser(v)' in fb and '(f, None) for f in fields.keys()' in fb
    run.check(okd, 'R23', pt.where, pt.qualname, 'dedup: drain indexer(resource); then one finalised row per key of db.items()',
              'deduplication mode does not emit exactly one aggregated row per distinct key')
    # create_extra_by_key: finaliser of the aggregator named by the field spec, for joined fields only
    cb = u(ce.node)
    ok = 'extra = db.get(key)' in cb and "(k, AGGREGATORS[fields[k]['aggregate']].finaliser(v))" in cb and 'if k in fields' in cb and \
        "key = extra.pop('__key__', None)" in cb and 'for k, v in zip(target_key.key_list, key)' in cb
    run.check(ok, 'R23', ce.where, ce.qualname, 'extra = {k: finaliser_of(fields[k])(v) for k, v in db.get(key) if k in fields}',
              'the joined values are not the finalised aggregates of the fields requested')

    from rules import independence
    independence.r28_functions(ctx, [(J + ':join_aux.indexer', {}), (J + ':join_aux.process_target', {})])
    run.rule('AGG', 'AGGREGATOR-TABLE: the twelve documented aggregates exist with (func, finaliser, dataType, copyProperties) and their '
                    'fold / finaliser have the documented shape (max calls max, min calls min, sum adds, count adds one, first keeps '
                    'the accumulator, last/any take the new value, set/array/counters collect)')
    m, table = abstypes.table_entries(ctx, J, 'AGGREGATORS')
    shape = {
        'sum': ('new + curr if curr is not None else new', 'identity'),
        'max': ('max(new, curr) if curr is not None else new', 'identity'),
        'min': ('min(new, curr) if curr is not None else new', 'identity'),
        'first': ('curr if curr is not None else new', 'identity'),
        'last': ('new', 'identity'),
        'any': ('new', 'identity'),
        'count': ('curr + 1 if curr is not None else 1', 'identity'),
        'avg': ('(curr[0] + 1, new + curr[1]) if curr is not None else (1, new)', 'value[1] / value[0]'),
        'median': ('curr + [new] if curr is not None else [new]', 'median'),
        'array': ('curr + [new] if curr is not None else [new]', 'value if value is not None else []'),
        'set': ('curr.union({new}) if curr is not None else {new}', 'list(value) if value is not None else []'),
        'counters': ('update_counter(curr, new)', 'list(collections.Counter(value).most_common()) if value is not None else []'),
    }
    commutative = {'sum', 'count', 'avg', 'max', 'min'}

    def canon(e, comm):
        """canonical text: `x if c is None else y` -> `y if c is not None else x`; operands of + (numeric aggregates) and
        arguments of max/min sorted"""
        if isinstance(e, ast.IfExp):
            t, b, o = e.test, e.body, e.orelse
            if isinstance(t, ast.Compare) and isinstance(t.ops[0], ast.Is) and u(t.comparators[0]) == 'None':
                t = ast.Compare(left=t.left, ops=[ast.IsNot()], comparators=t.comparators)
                b, o = o, b
            return '%s if %s else %s' % (canon(b, comm), u(t), canon(o, comm))
        if isinstance(e, ast.BinOp) and isinstance(e.op, ast.Add) and comm:
            return ' + '.join(sorted([canon(e.left, comm), canon(e.right, comm)], reverse=True))
        if isinstance(e, ast.Tuple):
            return '(' + ', '.join(canon(x, comm) for x in e.elts) + ')'
        if isinstance(e, ast.Call) and u(e.func) in ('max', 'min') and comm:
            return '%s(%s)' % (u(e.func), ', '.join(sorted((canon(a, comm) for a in e.args), reverse=True)))
        return u(e)

    for name, (fshape, finshape) in shape.items():
        c = table.get(name)
        if not (isinstance(c, ast.Call) and len(c.args) == 4):
            run.fail('AGG', m.relpath, J + ':<module>', 'AGGREGATORS[%r]' % name, 'aggregate %r missing or malformed' % name)
            continue
        f, fin = c.args[0], c.args[1]
        okf = isinstance(f, ast.Lambda) and [a.arg for a in f.args.args] == ['curr', 'new'] and \
            canon(f.body, name in commutative) == canon(ast.parse(fshape, mode='eval').body, name in commutative)
        fint = u(fin.body) if isinstance(fin, ast.Lambda) else u(fin)
        okn = fint == finshape or (isinstance(fin, ast.Lambda) and canon(fin.body, False) == canon(ast.parse(finshape, mode='eval').body, False))
        run.check(okf and okn, 'AGG', where(repo, c), J + ':<module>', 'AGGREGATORS[%r] = (%s ; %s)' % (name, fshape, finshape),
                  'aggregate %r no longer computes its documented definition (fold: %s ; finaliser: %s)'
                  % (name, u(f.body) if isinstance(f, ast.Lambda) else u(f), fint))
    md = repo.func(J + ':median')
    mb = u(md.node)
    ok = 'values = sorted(values)' in mb and 'mid = int(ll / 2)' in mb and 'if ll % 2 == 0' in mb and \
        '(values[mid - 1] + values[mid]) / 2' in mb and 'return values[mid]' in mb
    run.check(ok, 'AGG', md.where, md.qualname, 'median of the sorted values (mean of the middle two for even counts)', 'median helper changed')

    kc = repo.cls(J + ':KeyCalc')
    kinit, kcall = kc.methods['__init__'], kc.methods['__call__']
    from sa.pattern import has_stmt as _hs, has_expr as _he
    run.rule('KEY', 'KEY-RENDERING: a field-list key becomes the format string "{f1}:{f2}:..." (one separator between components), a '
                    'format-string key is used as given; the key is rendered from the row with "#" bound to the row number; source '
                    'and target use the same renderer class')
    run.check(_he("':'.join(('{%s}' % _k for _k in key_spec))", kinit.node) and _hs('self.key_spec = key_spec', kinit.node), 'KEY',
              kinit.where, kinit.qualname, "':'.join('{%s}' % key for key in key_spec)",
              'list keys are not rendered as colon-separated components (two different key tuples could render the same string)')
    run.check(_hs("return self.key_spec.format(**{**%s, '#': %s})" % (kcall.params[1], kcall.params[2]), kcall.node), 'KEY',
              kcall.where, kcall.qualname, "key_spec.format(**{**row, '#': row_number})", 'the key is not rendered from the row and its number')
    run.check(_hs('source_key = KeyCalc(source_key)', aux.node) and
              _hs('target_key = KeyCalc(target_key) if target_key is not None else target_key', aux.node), 'KEY', aux.where,
              aux.qualname, 'both keys rendered by KeyCalc', 'source and target keys are rendered by different code')
    run.rule('ORD', 'INDEX-BEFORE-TARGET: the target branch asserts that the source was indexed; mode is one of the three documented '
                    'values; the source must precede the target in the package')
    asserts = [n for n in ast.walk(nri.node) if isinstance(n, ast.Assert) and pseudo(n.test) == 'has_index']
    ok = len(asserts) == 1 and isinstance(asserts[0]._parent, ast.If) and 'target_name' in u(asserts[0]._parent.test) and \
        asserts[0]._parent.body[0] is asserts[0]
    sets = [n for n in ast.walk(nri.node) if isinstance(n, ast.Assign) and pseudo(n.targets[0]) == 'has_index'
            and isinstance(n.value, ast.Constant) and n.value.value is True]
    ok = ok and len(sets) == 1 and 'source_name' in u(sets[0]._parent.test)
    run.check(ok, 'ORD', nri.where, nri.qualname, 'assert has_index dominates process_target(target)',
              'the target can be processed before the source was indexed (every row would be unmatched)')
    am = [n for n in own_nodes(aux.node) if isinstance(n, ast.Assert) and 'mode in' in u(n.test)]
    ok = len(am) == 1 and sorted(abstypes._const(e) for e in am[0].test.comparators[0].elts) == ['full-outer', 'half-outer', 'inner']
    run.check(ok, 'ORD', aux.where, aux.qualname, "assert mode in ['inner', 'half-outer', 'full-outer']", 'an unknown mode is accepted silently')
    func = repo.func(J + ':join_aux.func')
    stream.r6_consumption(ctx, [func])
    stream.r6_identity(ctx, [func])
    stream.r6_count_agreement(ctx, [func])
    run.trusted += ['LF5 KVFile get raises KeyError for a missing key; set overwrites']
    run.not_decided += ['that each aggregate equals its definition on all inputs (values)', 'key rendering and null-key behaviour',
                        'equivalence of the in-memory cache and the on-disk index']
    return ('Guarded path signature of the per-target-row loop over {KeyError raised, mode == inner}; post-loop full-outer emission; '
            'indexer and deduplication shapes; aggregator table against the documented definitions and (abstractly) against declared '
            'types; dominance of the index assertion; descriptor/stream count agreement.', ['LF5'])
