"""C12 sort_rows emits a stable, correctly ordered permutation (DESIGN §5 C12) — structural clauses."""
import ast

from rules import stream
from sa.deps import Facts, names_in, pseudo
from sa.loader import AnalysisError, FuncInfo, own_nodes
from sa.model import u, where
from sa.pattern import find_expr, find_stmt, has_expr, has_stmt, match_expr, match_stmt

SR = 'dataflows.processors.sort_rows'


def width(ctx, fi, facts, e, depth=0):
    """Width domain of a string-building expression: ('FIXED', n) | ('VAR',) | ('CONCAT', [parts])"""
    if depth > 5:
        return ('VAR',)
    if isinstance(e, ast.Constant) and isinstance(e.value, str):
        return ('FIXED', len(e.value))
    if isinstance(e, ast.BinOp) and isinstance(e.op, ast.Add):
        return ('CONCAT', [width(ctx, fi, facts, e.left, depth + 1), width(ctx, fi, facts, e.right, depth + 1)])
    if isinstance(e, ast.Call) and isinstance(e.func, ast.Attribute) and e.func.attr == 'format' and \
            isinstance(e.func.value, ast.Constant):
        import re as _re
        tpl = e.func.value.value
        m = _re.fullmatch(r'\{:0(\d+)[xdXob]\}', tpl)
        if m:
            return ('FIXED', int(m.group(1)))
        return ('VAR',)
    return ('VAR',)


def flat(w):
    if w[0] == 'CONCAT':
        out = []
        for p in w[1]:
            out.extend(flat(p))
        return out
    return [w]


def check(ctx):
    run, repo, res = ctx.run, ctx.repo, ctx.res
    srt = repo.func(SR + ':_sorter')
    proc = repo.func(SR + ':_sorter.process')
    run.rule('STB', 'STABILITY/NO-LOSS: every row is stored under key = sort key + fixed-width rendering of its enumerate index (distinct '
                    'keys, so equal sort keys neither overwrite each other nor lose input order) and every stored value is yielded once')
    loops = [n for n in own_nodes(proc.node) if isinstance(n, ast.For)]
    ok = len(loops) == 1 and isinstance(loops[0].iter, ast.Call) and u(loops[0].iter.func) == 'enumerate' and \
        pseudo(loops[0].iter.args[0]) == proc.params[0] and len(loops[0].iter.args) == 1 and not loops[0].iter.keywords
    if not ok:
        raise AnalysisError('sort_rows: `for n, row in enumerate(rows)` not found in the key generator')
    idx, row = [t.id for t in loops[0].target.elts]
    facts = Facts(proc, include_nested=False)
    ys = [y for y in ast.walk(loops[0]) if isinstance(y, ast.Yield)]
    ok = len(ys) == 1 and isinstance(ys[0].value, ast.Tuple) and len(ys[0].value.elts) == 2 and pseudo(ys[0].value.elts[1]) == row
    run.check(ok, 'STB', proc.where, proc.qualname, 'yield (key, row) once per row', 'not every row is stored exactly once with itself as value')
    keyexpr = None
    if ok:
        k = ys[0].value.elts[0]
        vals = [k] if not pseudo(k) else facts.values_of(pseudo(k))
        keyexpr = vals[0] if len(vals) == 1 else None
    run.check(keyexpr is not None and idx in facts.roots(keyexpr) and row in facts.roots(keyexpr), 'STB', proc.where, proc.qualname,
              'key depends on the row and on its enumerate index',
              'the storage key does not contain the row number: rows with equal sort keys overwrite each other (rows lost) or lose '
              'their input order')
    exits = [n for n in ast.walk(loops[0]) if isinstance(n, (ast.Break, ast.Continue, ast.Return, ast.If))]
    run.check(not exits, 'STB', proc.where, proc.qualname, 'unconditional loop body', 'some rows are skipped by the key generator')
    # output loop
    outs = [n for n in own_nodes(srt.node) if isinstance(n, ast.For)]
    ok = len(outs) == 1 and isinstance(outs[0].iter, ast.Call) and isinstance(outs[0].iter.func, ast.Attribute) and \
        outs[0].iter.func.attr == 'items' and pseudo(outs[0].iter.func.value) == 'db'
    if ok:
        v = outs[0].target.elts[1].id
        body = outs[0].body
        ok = len(body) == 1 and isinstance(body[0], ast.Expr) and isinstance(body[0].value, ast.Yield) and pseudo(body[0].value.value) == v
    run.check(ok, 'STB', srt.where, srt.qualname, 'for _, value in db.items(...): yield value', 'stored rows are filtered or altered on output')
    ins = [c for c in own_nodes(srt.node) if isinstance(c, ast.Call) and isinstance(c.func, ast.Attribute) and c.func.attr == 'insert'
           and pseudo(c.func.value) == 'db']
    ok = len(ins) == 1 and isinstance(ins[0].args[0], ast.Call) and u(ins[0].args[0].func) == proc.name and \
        pseudo(ins[0].args[0].args[0]) == srt.params[0]
    run.check(ok, 'STB', srt.where, srt.qualname, 'db.insert(process(rows))', 'not all rows are inserted')
    if ok and outs:
        run.check(ins[0].lineno < outs[0].lineno, 'STB', srt.where, srt.qualname, 'insert before output', 'output starts before insertion')

    run.rule('R20', 'OPTION-FLOW: `reverse` reaches only the iteration direction of the output loop, `batch_size` only the insert call; '
                    'neither is in the dependence set of the key')
    kw = {k.arg: pseudo(k.value) for k in outs[0].iter.keywords} if outs else {}
    run.check(kw.get('reverse') == 'reverse', 'R20', srt.where, srt.qualname, 'db.items(reverse=reverse)', 'reverse does not reach the output order')
    kwi = {k.arg: pseudo(k.value) for k in ins[0].keywords} if ins else {}
    run.check(kwi.get('batch_size') == 'batch_size', 'R20', srt.where, srt.qualname, 'db.insert(..., batch_size=batch_size)',
              'batch_size does not reach the insert call')
    if keyexpr is not None:
        deps = facts.roots(keyexpr)
        run.check('reverse' not in deps and 'batch_size' not in deps, 'R20', proc.where, proc.qualname, 'key independent of reverse / batch_size',
                  'the key depends on reverse or batch_size: the result is no longer the exact reverse / independent of batching')
    fn = repo.func(SR + ':sort_rows.func')
    calls = [c for c in own_nodes(fn.node) if isinstance(c, ast.Call) and u(c.func) == '_sorter']
    run.check(len(calls) == 1 and [pseudo(a) for a in calls[0].args] == ['rows', 'key_calc', 'reverse', 'batch_size'], 'R20', fn.where,
              fn.qualname, '_sorter(rows, key_calc, reverse, batch_size)', 'options are not handed to the sorter in their roles')

    run.rule('R22', 'KEY-WIDTH: in a key that is compared as a string, a variable-width component must be last or followed by a '
                    'separator that sorts below every content character; otherwise a key that is a prefix of another sorts wrongly')
    if keyexpr is not None:
        parts = flat(width(ctx, proc, facts, keyexpr))
        bad = [i for i, p in enumerate(parts[:-1]) if p[0] == 'VAR' and not (parts[i + 1][0] == 'FIXED' and False)]
        run.check(not bad, 'R22', where(repo, keyexpr), proc.qualname, 'key = ' + u(keyexpr),
                  'the variable-width sort key is directly followed by the row number without a separator: with keys "a" and "a0" '
                  'the row "a0" can sort before "a" (e.g. "a0"+"00000000" < "a"+"00000001")', detail=str(parts))
    kc = repo.func(SR + ':KeyCalc._KeyCalc__calculator.func') if (SR + ':KeyCalc._KeyCalc__calculator.func') in repo.functions else None
    if kc is None:
        cands = [f for f in repo.find_funcs(module=SR, name='func') if f.all_params == ['row']]
        if len(cands) != 1:
            raise AnalysisError('sort_rows: key calculator function not found')
        kc = cands[0]
    accs = [n for n in ast.walk(kc.node) if isinstance(n, ast.AugAssign) and isinstance(n.op, ast.Add) and pseudo(n.target) == 'ret']
    seps = [a for a in accs if any(isinstance(c, ast.Constant) and isinstance(c.value, str) and c.value for c in ast.walk(a.value))]
    raw = [a for a in accs if u(a.value) == 'str(value)']
    for a in raw:
        run.check(False if not seps else True, 'R22', where(repo, a), kc.qualname, 'ret += str(value)',
                  'components of a multi-field key are concatenated without a separator: ("ab","c") and ("a","bc") collide and '
                  '("ab","c") sorts before ("a","z")')
    run.rule('NUM', 'NUMERIC-ENCODING (shape): raw numeric key fields are encoded as the 64-bit float pattern with the sign bit '
                    'inverted and, for negatives, all remaining bits inverted (order-preserving for doubles)')
    enc = find_stmt('_b = BitArray(float=_v, length=64)', kc.node)
    ok = len(enc) == 1
    if ok:
        b = enc[0][1]
        ok = has_expr('%s.invert(0)' % b['_b'], kc.node) and \
            has_stmt('if %s < 0:\n    %s.invert(range(1, 64))' % (b['_v'], b['_b']), kc.node) and \
            has_stmt('%s = %s.hex' % (b['_v'], b['_b']), kc.node) and \
            has_expr('isinstance(%s, (int, float, decimal.Decimal))' % b['_v'], kc.node)
    run.check(ok, 'NUM', kc.where, kc.qualname, 'sign bit inverted; negatives fully inverted; hex', 'the numeric encoding no longer preserves numeric order')
    st = repo.func(SR + ':sort_rows.func')
    stream.r6_identity(ctx, [st])
    stream.r6_count_agreement(ctx, [st])
    run.trusted += ['LF5 KVFile: equal keys overwrite; items() iterates in ascending key order, reversed with reverse=True']
    run.not_decided += ['correctness of the IEEE-754 order-preserving encoding on values (ints above 2**53, -0.0)', 'unicode collation',
                        'equivalence of cached and on-disk KVFile iteration']
    return ('Def-use: the storage key depends on the row and its enumerate index; every stored value is yielded once; reverse and '
            'batch_size reach only their sinks; width-domain abstract evaluation of the key expression flags variable-width '
            'components that are not last / separated.', ['LF5'])
