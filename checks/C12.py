"""C12 sort_rows emits a stable, correctly ordered permutation (DESIGN §5 C12) — structural clauses."""
import ast

from rules import stream
from sa.deps import Facts, names_in, pseudo
from sa.loader import AnalysisError, FuncInfo, own_nodes
from sa.model import u, where
from sa.pattern import find_expr, find_stmt, has_expr, has_stmt, match_expr, match_stmt

SR = 'dataflows.processors.sort_rows'


def _spec_width(spec):
    import re as _re
    m = _re.fullmatch(r'0(\d+)[xdXob]', spec or '')
    return ('FIXED', int(m.group(1))) if m else ('VAR',)


def width(ctx, fi, facts, e, depth=0):
    """Width domain of a string-building expression: ('FIXED', n) | ('VAR',) | ('CONCAT', [parts])"""
    if depth > 5:
        return ('VAR',)
    if isinstance(e, ast.Constant) and isinstance(e.value, str):
        return ('FIXED', len(e.value))
    if isinstance(e, ast.BinOp) and isinstance(e.op, ast.Add):
        return ('CONCAT', [width(ctx, fi, facts, e.left, depth + 1), width(ctx, fi, facts, e.right, depth + 1)])
    if isinstance(e, ast.Call) and isinstance(e.func, ast.Attribute) and e.func.attr == 'format' and \
            isinstance(e.func.value, ast.Constant) and isinstance(e.func.value.value, str):
        import re as _re
        m = _re.fullmatch(r'\{:([^{}]*)\}', e.func.value.value)
        return _spec_width(m.group(1)) if m else ('VAR',)
    if isinstance(e, ast.Call) and isinstance(e.func, ast.Name) and e.func.id == 'format' and len(e.args) == 2 and \
            isinstance(e.args[1], ast.Constant) and isinstance(e.args[1].value, str):
        return _spec_width(e.args[1].value)
    if isinstance(e, ast.JoinedStr):
        parts = []
        for v in e.values:
            if isinstance(v, ast.Constant):
                parts.append(('FIXED', len(v.value)))
            elif isinstance(v, ast.FormattedValue) and isinstance(v.format_spec, ast.JoinedStr) and \
                    len(v.format_spec.values) == 1 and isinstance(v.format_spec.values[0], ast.Constant):
                parts.append(_spec_width(v.format_spec.values[0].value))
            else:
                parts.append(('VAR',))
        return ('CONCAT', parts)
    return ('VAR',)


def flat(w):
    if w[0] == 'CONCAT':
        out = []
        for p in w[1]:
            out.extend(flat(p))
        return out
    return [w]


def check(ctx):
    run, repo, res = ctx.run, ctx.repo, ctx.res
    from sa.model import generator_wrapper_of, resolved_callee, returned_closure, toplevel_qualname
    from sa.normalize import resolve_here
    step = returned_closure(ctx, repo.func(SR + ':sort_rows'))
    if step is None:
        raise AnalysisError('sort_rows: package step not found')
    srt0 = generator_wrapper_of(ctx, step)
    # the store and the generator that feeds it
    dbs = [pseudo(n.targets[0]) for n in own_nodes(srt0.node) if isinstance(n, ast.Assign) and isinstance(n.value, ast.Call)
           and res.external_name(n.value) in ('kvfile.KVFile', 'kvfile.kvfile.KVFile', 'kvfile.CachedKVFile')]
    if len(dbs) != 1:
        # the store must belong to ONE sorted resource: reading a KVFile back does not empty it, so a store created by the step (or
        # by the factory) and shared by the resources still holds the rows of the earlier ones
        outer_ = [n for f_ in (step, step.parent) if f_ is not None for n in own_nodes(f_.node)
                  if isinstance(n, ast.Call) and res.external_name(n) in ('kvfile.KVFile', 'kvfile.kvfile.KVFile', 'kvfile.CachedKVFile')]
        if not dbs and outer_:
            run.rule('STB', 'STABILITY/NO-LOSS: one store per sorted resource')
            run.fail('STB', where(repo, outer_[0]), toplevel_qualname(srt0), 'the store is created outside the generator that sorts one resource',
                     'the key-value store is shared by all resources the step sorts: every resource after the first comes out as the sorted '
                     'union of its own rows and the rows of the resources before it')
        raise AnalysisError('%s: the KVFile store was not found' % srt0.qualname)
    db = dbs[0]
    ins0 = [c for c in own_nodes(srt0.node) if isinstance(c, ast.Call) and isinstance(c.func, ast.Attribute) and c.func.attr == 'insert'
            and pseudo(c.func.value) == db]
    proc0 = None
    genexp_form = False
    if len(ins0) == 1 and ins0[0].args and isinstance(ins0[0].args[0], ast.Name):
        # a local in between: db.insert(keyed_rows) with keyed_rows = <generator>
        defs_ = [a_.value for a_ in own_nodes(srt0.node) if isinstance(a_, ast.Assign) and pseudo(a_.targets[0]) == ins0[0].args[0].id]
        if len(defs_) == 1:
            ins0[0].args[0] = defs_[0]
    if len(ins0) == 1 and ins0[0].args and isinstance(ins0[0].args[0], ast.Call):
        proc0 = resolved_callee(ctx, ins0[0].args[0], srt0)
    elif len(ins0) == 1 and ins0[0].args and isinstance(ins0[0].args[0], ast.GeneratorExp) and len(ins0[0].args[0].generators) == 1 \
            and not ins0[0].args[0].generators[0].ifs:
        # the same generator written as an expression: ((key, row) for n, row in enumerate(rows)) is
        # `def process(rows): for n, row in enumerate(rows): yield (key, row)` applied to rows
        from sa.astcopy import clone as _clone
        from sa.loader import FuncInfo as _FI, set_parents as _sp
        ge = ins0[0].args[0]
        srcs = [a_ for a_ in ast.walk(ge.generators[0].iter) if isinstance(a_, ast.Name) and a_.id == srt0.params[0]]
        if srcs:
            fdef = ast.parse('def process(%s):\n    for _t in _i:\n        yield _e' % srt0.params[0]).body[0]
            fdef.body[0].target = _clone(ge.generators[0].target)
            fdef.body[0].iter = _clone(ge.generators[0].iter)
            fdef.body[0].body[0].value.value = _clone(ge.elt)
            ast.copy_location(fdef, ge)
            ast.fix_missing_locations(fdef)
            _sp(fdef)
            fdef._parent = srt0.node
            proc0 = _FI(fdef, srt0.module, srt0.qualname + '.<genexp>', srt0, None)
            genexp_form = True
    if proc0 is None or not proc0.is_generator:
        raise AnalysisError('%s: the generator handed to %s.insert() was not found' % (srt0.qualname, db))
    srt = ctx.N(srt0, keep=(proc0.qualname, proc0.node.name))
    if genexp_form:
        from sa.normalize import fold_module_constants as _fold
        proc = proc0
        proc.node = _fold(ctx, srt0, proc.node)
    else:
        proc = ctx.N(proc0)
    ident = toplevel_qualname(srt0)
    run.rule('STB', 'STABILITY/NO-LOSS: every row is stored under key = sort key + fixed-width rendering of its enumerate index (distinct '
                    'keys, so equal sort keys neither overwrite each other nor lose input order) and every stored value is yielded once')
    # an index carried from chunk to chunk by `for n, row in enumerate(chunk, start=n)`: the next chunk starts at the LAST index the
    # previous one issued, so the two rows at every seam get the same number (equal sort keys then collide in the store)
    for lp_ in ast.walk(proc.node):
        if isinstance(lp_, ast.For) and isinstance(lp_.iter, ast.Call) and u(lp_.iter.func) == 'enumerate' and isinstance(lp_.target, ast.Tuple) \
                and lp_.target.elts and isinstance(lp_.target.elts[0], ast.Name):
            st_ = [k.value for k in lp_.iter.keywords if k.arg == 'start'] + list(lp_.iter.args[1:2])
            if st_ and isinstance(st_[0], ast.Name) and st_[0].id == lp_.target.elts[0].id:
                run.fail('STB', where(repo, lp_), ident, 'row numbers continued with enumerate(chunk, start=<the index itself>)',
                         'the row number of a chunk starts at the last number of the previous chunk: the rows on both sides of a chunk '
                         'boundary share a number, and if their sort keys are equal the second overwrites the first in the store')
    loops = [n for n in own_nodes(proc.node) if isinstance(n, ast.For)]
    ok = len(loops) == 1 and isinstance(loops[0].iter, ast.Call) and u(loops[0].iter.func) == 'enumerate' and \
        pseudo(loops[0].iter.args[0]) == proc.params[0] and len(loops[0].iter.args) == 1 and not loops[0].iter.keywords and \
        isinstance(loops[0].target, ast.Tuple) and len(loops[0].target.elts) == 2
    if not ok:
        raise AnalysisError('sort_rows: `for n, row in enumerate(rows)` not found in the key generator')
    idx, row = [t.id for t in loops[0].target.elts]
    facts = Facts(proc, include_nested=False)
    ys = [y for y in ast.walk(loops[0]) if isinstance(y, ast.Yield)]
    ok = len(ys) == 1 and isinstance(ys[0].value, ast.Tuple) and len(ys[0].value.elts) == 2 and pseudo(ys[0].value.elts[1]) == row
    run.check(ok, 'STB', proc.where, ident, 'yield (key, row) once per row', 'not every row is stored exactly once with itself as value')
    keyexpr = None
    if ok:
        keyexpr = resolve_here(ys[0].value.elts[0])
        for _ in range(3):
            keyexpr = resolve_here(keyexpr)
    run.check(keyexpr is not None and idx in names_in(keyexpr) and row in names_in(keyexpr), 'STB', proc.where, ident,
              'key depends on the row and on its enumerate index',
              'the storage key does not contain the row number: rows with equal sort keys overwrite each other (rows lost) or lose '
              'their input order')
    exits = [n for n in ast.walk(loops[0]) if isinstance(n, (ast.Break, ast.Continue, ast.Return, ast.If))]
    run.check(not exits, 'STB', proc.where, ident, 'unconditional loop body', 'some rows are skipped by the key generator')
    # output loop
    outs = [n for n in own_nodes(srt.node) if isinstance(n, ast.For)]
    ok = len(outs) == 1 and isinstance(outs[0].iter, ast.Call) and isinstance(outs[0].iter.func, ast.Attribute) and \
        outs[0].iter.func.attr == 'items' and pseudo(outs[0].iter.func.value) == db and isinstance(outs[0].target, ast.Tuple) \
        and len(outs[0].target.elts) == 2
    if ok:
        v = outs[0].target.elts[1].id
        body = outs[0].body
        ok = len(body) == 1 and isinstance(body[0], ast.Expr) and isinstance(body[0].value, ast.Yield) and pseudo(body[0].value.value) == v
    run.check(ok, 'STB', srt.where, ident, 'for _, value in db.items(...): yield value', 'stored rows are filtered or altered on output')
    # nothing is delivered on any other way: every yield of the sorter is that loop's (a second delivery path - an in-memory
    # shortcut using sorted() - orders equal keys differently under reverse and makes the result depend on the input size)
    all_ys = [y for y in own_nodes(srt.node) if isinstance(y, (ast.Yield, ast.YieldFrom))]
    in_loop = [y for y in all_ys if outs and any(y is x for x in ast.walk(outs[0]))]
    run.check(bool(all_ys) and len(all_ys) == len(in_loop) == 1, 'STB', srt.where, ident, 'the output loop is the only delivery path',
              'rows are also delivered on a path that does not go through the keyed store: order of equal keys / reverse / '
              'dependence on the input size are no longer those of the stored keys')
    ins = [c for c in own_nodes(srt.node) if isinstance(c, ast.Call) and isinstance(c.func, ast.Attribute) and c.func.attr == 'insert'
           and pseudo(c.func.value) == db]
    # the key generator is fed the resource's rows (its first argument; further arguments such as the key calculator may follow)
    ok = len(ins) == 1 and isinstance(ins[0].args[0], ast.Call) and pseudo(ins[0].args[0].func) == proc0.node.name and \
        len(ins[0].args[0].args) >= 1 and pseudo(ins[0].args[0].args[0]) == srt.params[0] and \
        proc0.params and proc0.params[0] == proc.params[0]
    if genexp_form:
        ok = len(ins) == 1 and isinstance(ins[0].args[0], ast.GeneratorExp)     # iterates enumerate(<rows>): checked on the loop above
    run.check(ok, 'STB', srt.where, ident, 'db.insert(process(rows))', 'not all rows are inserted')
    if ok and outs:
        order = [x for x in ast.walk(srt.node) if x is ins[0] or x is outs[0]]
        blk = srt.node.body
        pos = lambda n_: [i for i, st_ in enumerate(blk) if any(y is n_ for y in ast.walk(st_))]
        run.check(pos(ins[0]) and pos(outs[0]) and pos(ins[0])[0] < pos(outs[0])[0], 'STB', srt.where, ident, 'insert before output',
                  'output starts before insertion')

    run.rule('R20', 'OPTION-FLOW: `reverse` reaches only the iteration direction of the output loop, `batch_size` only the insert call; '
                    'neither is in the dependence set of the key')
    # the wrapper's parameters by the role the step gives them: bound from the public options of sort_rows
    calls = [c for c in own_nodes(step.node) if isinstance(c, ast.Call) and resolved_callee(ctx, c, step) is srt0]
    bind = {}
    if len(calls) == 1:
        ec = res.effective_call(calls[0], step.module, step)      # arguments pre-bound by functools.partial count
        for p_, a_ in zip(srt0.params, ec.args):
            bind[p_] = pseudo(a_)
        for k in ec.keywords:
            bind[k.arg] = pseudo(k.value)
    rev_p = [p_ for p_, a_ in bind.items() if a_ == 'reverse']
    bs_p = [p_ for p_, a_ in bind.items() if a_ == 'batch_size']
    kc_p = [p_ for p_, a_ in bind.items() if a_ not in ('reverse', 'batch_size') and p_ != srt0.params[0]]
    run.check(len(calls) == 1 and len(rev_p) == 1 and len(bs_p) == 1 and len(kc_p) == 1 and len(bind) == 4, 'R20', step.where,
              toplevel_qualname(step), 'sorter(rows, key_calc, reverse, batch_size)', 'options are not handed to the sorter in their roles')
    kw = {k.arg: pseudo(k.value) for k in outs[0].iter.keywords} if outs and isinstance(outs[0].iter, ast.Call) else {}
    run.check(bool(rev_p) and kw.get('reverse') == rev_p[0], 'R20', srt.where, ident, 'db.items(reverse=reverse)',
              'reverse does not reach the output order')
    if rev_p:
        uses = [n for n in ast.walk(srt.node) if isinstance(n, ast.Name) and n.id == rev_p[0] and isinstance(n.ctx, ast.Load)]
        kwv = [k.value for k in outs[0].iter.keywords if k.arg == 'reverse'] if outs and isinstance(outs[0].iter, ast.Call) else []
        run.check(len(uses) == 1 and kwv and uses[0] is kwv[0], 'R20', srt.where, ident, 'reverse is used only as db.items(reverse=)',
                  'reverse influences something other than the iteration direction of the store')
    kwi = {k.arg: pseudo(k.value) for k in ins[0].keywords} if ins else {}
    run.check(bool(bs_p) and kwi.get('batch_size') == bs_p[0], 'R20', srt.where, ident, 'db.insert(..., batch_size=batch_size)',
              'batch_size does not reach the insert call')
    if keyexpr is not None:
        deps = names_in(keyexpr) | facts.roots(keyexpr)
        run.check(not (set(rev_p + bs_p) & deps) and 'reverse' not in deps and 'batch_size' not in deps, 'R20', proc.where, ident,
                  'key independent of reverse / batch_size',
                  'the key depends on reverse or batch_size: the result is no longer the exact reverse / independent of batching')

    run.rule('R22', 'KEY-WIDTH: in a key that is compared as a string, a variable-width component must be last or followed by a '
                    'separator that sorts below every content character; otherwise a key that is a prefix of another sorts wrongly')
    if keyexpr is not None:
        parts = flat(width(ctx, proc, facts, keyexpr))
        bad = [i for i, p in enumerate(parts[:-1]) if p[0] == 'VAR']
        shape = ' + '.join('variable-width' if p[0] == 'VAR' else 'fixed(%d)' % p[1] for p in parts)
        run.check(not bad, 'R22', where(repo, loops[0]), ident, 'storage key = ' + shape,
                  'the variable-width sort key is directly followed by the row number without a separator: with keys "a" and "a0" '
                  'the row "a0" can sort before "a" (e.g. "a0"+"00000000" < "a"+"00000001")', detail=u(keyexpr))
    kcls = repo.cls(SR + ':KeyCalc')
    # KEY-WHOLE: the sort key reaches the store whole.  Between the calculator and the stored key the string is only passed on and
    # extended by the row number: a slice, a case fold or a strip anywhere on the way makes rows that differ in the removed part
    # ties, which the row number then orders by input position instead of by key.
    run.rule('KEYW', 'KEY-WHOLE: the key the calculator renders for a row reaches the store whole: the stored key is <calculator(row)> + row '
                     'number, and KeyCalc.__call__ returns what the calculator selected at construction returns for the row')
    if keyexpr is not None:
        def _add_parts(e_):
            if isinstance(e_, ast.BinOp) and isinstance(e_.op, ast.Add):
                return _add_parts(e_.left) + _add_parts(e_.right)
            if isinstance(e_, ast.JoinedStr):
                return [v_.value if isinstance(v_, ast.FormattedValue) and v_.format_spec is None and v_.conversion == -1 else v_
                        for v_ in e_.values]
            return [e_]
        kparts = [p_ for p_ in _add_parts(keyexpr) if row in names_in(p_)]
        okw = len(kparts) == 1 and isinstance(kparts[0], ast.Call) and not kparts[0].keywords and \
            [pseudo(a_) for a_ in kparts[0].args] == [row] and pseudo(kparts[0].func) is not None
        run.check(okw, 'KEYW', where(repo, loops[0]), ident, 'stored key = <key calculator>(row) + row number',
                  'the computed sort key is cut or transformed before it is stored: rows whose keys differ only in the removed part '
                  'come out in input order instead of key order', detail=u(keyexpr))
    kcall = kcls.methods.get('__call__')
    if kcall is None:
        raise AnalysisError('sort_rows: KeyCalc.__call__ not found')
    from sa.pathvals import PathValues as _PV
    from sa.paths import Enumerator
    kcn = ctx.N(kcall)
    rowp = kcn.params[-1]
    nret = 0
    for p_ in Enumerator(where=kcall.qualname).paths(kcn.node.body):
        for rv in _PV(p_).returns:
            nret += 1
            e_ = rv
            okr = isinstance(e_, ast.Call) and not e_.keywords and [pseudo(a_) for a_ in e_.args] == [rowp] and \
                (pseudo(e_.func) or '').startswith('self.')
            run.check(okr, 'KEYW', where(repo, kcall.node), kcall.qualname, 'return self.<calculator>(row)',
                      'KeyCalc.__call__ does not return the calculator\'s key as it is: a key that is cut or transformed makes rows that '
                      'differ only in the removed part ties (ordered by input position, not by key)', detail=u(rv))
    run.floor('KEYW', nret, 1, 'returns of KeyCalc.__call__')
    # the key calculator: the function built inside class KeyCalc that maps a row to the key string
    cands = [f for f in repo.functions.values() if not isinstance(f.node, ast.Lambda) and f.parent is not None
             and getattr(f.parent, 'cls', None) is kcls and len(f.all_params) == 1]
    cands = [f for f in cands if any(isinstance(n, ast.For) for n in ast.walk(f.node)) or
             any(isinstance(n, ast.For) for n in ast.walk(ctx.N(f).node))]        # (the loop may live in a helper the function calls)
    if not cands:
        # the same function at module level, handed out as functools.partial(f, <bound arguments>): its last parameter is the row
        for meth in kcls.methods.values():
            for c_ in ast.walk(meth.node):
                if isinstance(c_, ast.Call) and u(c_.func) in ('functools.partial', 'partial') and c_.args and isinstance(c_.args[0], ast.Name):
                    f_ = repo.func('%s:%s' % (SR, c_.args[0].id), None)
                    if f_ is not None and len(f_.all_params) == len(c_.args) and any(isinstance(n, ast.For) for n in ast.walk(f_.node)):
                        cands.append(f_)
    factory_map = None
    if not cands:
        # ... or built by a module-level factory that a method of KeyCalc calls: F(<args>) returning its nested row -> key function;
        # the factory's parameters are then read as the arguments of that call
        for meth in kcls.methods.values():
            for c_ in ast.walk(meth.node):
                if isinstance(c_, ast.Call) and isinstance(c_.func, ast.Name) and not c_.keywords:
                    f_ = repo.func('%s:%s' % (SR, c_.func.id), None)
                    if f_ is None or isinstance(f_.node, ast.Lambda) or len(f_.all_params) != len(c_.args):
                        continue
                    inner = [g for g in repo.functions.values() if g.parent is f_ and not isinstance(g.node, ast.Lambda)
                             and len(g.all_params) == 1 and any(isinstance(n, ast.For) for n in ast.walk(g.node))]
                    if len(inner) == 1 and all(isinstance(a_, ast.Name) for a_ in c_.args):
                        cands.append(inner[0])
                        factory_map = {p_: a_.id for p_, a_ in zip(f_.all_params, c_.args) if p_ != a_.id}
    if len(cands) != 1:
        raise AnalysisError('sort_rows: key calculator function not found')
    kc = ctx.N(cands[0])
    if factory_map:
        from sa.normalize import _Rename, clone, set_parents
        from sa.loader import FuncInfo as _FI
        n_ = _Rename(dict(factory_map)).visit(clone(kc.node))
        ast.fix_missing_locations(n_)
        set_parents(n_)
        n_._parent = getattr(kc.node, '_parent', None)
        kc = _FI(n_, kc.module, kc.qualname, kc.parent, kc.cls)
        repo.func_of_node[id(n_)] = kc
    # the key of a row is a function of that row and of the key specification alone: the calculator changes nothing that outlives the
    # call (a cache of rendered values, a counter, the row itself) - what it would read back from there was written for another row,
    # another field or another format
    kident = toplevel_qualname(cands[0]) if getattr(cands[0].parent, 'cls', None) is kcls else kcls.qualname
    run.rule('KEYP', 'KEY-PURE: the key calculator stores into, and calls mutators on, its own locals only; no nonlocal / global names')
    own_locals = {n_.id for n_ in own_nodes(kc.node) if isinstance(n_, ast.Name) and isinstance(n_.ctx, ast.Store)}
    impure = []
    for n_ in own_nodes(kc.node):
        if isinstance(n_, (ast.Nonlocal, ast.Global)):
            impure.append(n_)
        tg_ = []
        if isinstance(n_, ast.Assign):
            tg_ = n_.targets
        elif isinstance(n_, (ast.AugAssign, ast.AnnAssign)):
            tg_ = [n_.target]
        elif isinstance(n_, ast.Delete):
            tg_ = n_.targets
        for t_ in tg_:
            if isinstance(t_, (ast.Subscript, ast.Attribute)):
                b_ = t_
                while isinstance(b_, (ast.Subscript, ast.Attribute)):
                    b_ = b_.value
                if not (isinstance(b_, ast.Name) and b_.id in own_locals and b_.id not in kc.params):
                    impure.append(n_)
        if isinstance(n_, ast.Call) and isinstance(n_.func, ast.Attribute) and n_.func.attr in (
                'append', 'extend', 'add', 'update', 'insert', 'pop', 'remove', 'clear', 'setdefault', 'popitem', 'discard',
                'appendleft', '__setitem__', 'sort', 'reverse'):
            b_ = n_.func.value
            while isinstance(b_, (ast.Subscript, ast.Attribute)):
                b_ = b_.value
            if not (isinstance(b_, ast.Name) and b_.id in own_locals and b_.id not in kc.params):
                impure.append(n_)
    run.check(not impure, 'KEYP', where(repo, impure[0]) if impure else kc.where, kident, 'the key calculator writes its own locals only',
              'the key calculator keeps something between calls (%s): the fragment it produces for one row / field can come from what was '
              'stored for another, and rows are then ordered by a key that is not theirs' % (u(impure[0])[:80] if impure else ''))
    # the name under which the format fragments of a format-string key are held (None for a list of names / a callable)
    fnames = set()
    for meth in kcls.methods.values():
        asg = {}
        for a_ in ast.walk(meth.node):
            if isinstance(a_, ast.Assign) and len(a_.targets) == 1 and isinstance(a_.targets[0], ast.Name):
                asg.setdefault(a_.targets[0].id, []).append(a_.value)
        for k_, vs_ in asg.items():
            if any(isinstance(v_, ast.Constant) and v_.value is None for v_ in vs_) and \
                    any(isinstance(v_, ast.Call) and isinstance(v_.func, ast.Attribute) and v_.func.attr == 'findall' for v_ in vs_):
                fnames.add(k_)
    if len(fnames) != 1:
        raise AnalysisError('sort_rows: the name holding the format fragments of the key was not found (%s)' % sorted(fnames))
    FMT = fnames.pop()
    kident = toplevel_qualname(cands[0]) if getattr(cands[0].parent, 'cls', None) is kcls else kcls.qualname     # the calculator of KeyCalc, wherever it is written
    # fragments of the key: `ret += x` on the returned name, or `parts.append(x)` with `return ''.join(parts)`
    rets = [n for n in own_nodes(kc.node) if isinstance(n, ast.Return) and n.value is not None]
    frags = []
    if len(rets) == 1 and pseudo(rets[0].value):
        rn = pseudo(rets[0].value)
        frags = [n.value for n in ast.walk(kc.node) if isinstance(n, ast.AugAssign) and isinstance(n.op, ast.Add) and pseudo(n.target) == rn]
    elif len(rets) == 1:
        e = match_expr("''.join(_l)", rets[0].value)
        if e is not None:
            frags = [c.args[0] for c in ast.walk(kc.node) if isinstance(c, ast.Call) and isinstance(c.func, ast.Attribute)
                     and c.func.attr == 'append' and pseudo(c.func.value) == e['_l'] and len(c.args) == 1]
    if not frags:
        raise AnalysisError('%s: key fragments not found' % kc.qualname)
    seps = [a for a in frags if any(isinstance(c, ast.Constant) and isinstance(c.value, str) and c.value for c in ast.walk(a))]
    raw = [a for a in frags if match_expr('str(_v)', a) is not None]
    for a in raw:
        run.check(bool(seps), 'R22', where(repo, a), kident, 'multi-field key: fragments str(value) concatenated',
                  'components of a multi-field key are concatenated without a separator: ("ab","c") and ("a","bc") collide and '
                  '("ab","c") sorts before ("a","z")')
    run.rule('NUM', 'NUMERIC-ENCODING (shape): raw numeric key fields are encoded as the 64-bit float pattern with the sign bit '
                    'inverted and, for negatives, all remaining bits inverted (order-preserving for doubles)')
    enc = find_stmt('_b = BitArray(float=_v, length=64)', kc.node)
    ok = len(enc) == 1
    if ok:
        b = enc[0][1]
        ok = has_expr('%s.invert(0)' % b['_b'], kc.node) and \
            has_stmt('if %s < 0:\n    %s.invert(range(1, 64))' % (b['_v'], b['_b']), kc.node) and \
            has_stmt('%s = %s.hex' % (b['_v'], b['_b']), kc.node)
        # guarded by the numeric-type test (the tuple may be a module constant)
        tests = [c for c in ast.walk(kc.node) if isinstance(c, ast.Call) and u(c.func) == 'isinstance' and len(c.args) == 2
                 and pseudo(c.args[0]) == b['_v']]
        def types_of(e_):
            if isinstance(e_, ast.Name):
                for st_ in cands[0].module.tree.body:
                    if isinstance(st_, ast.Assign) and pseudo(st_.targets[0]) == e_.id:
                        return types_of(st_.value)
            if isinstance(e_, ast.Tuple):
                return sorted(u(x) for x in e_.elts)
            return [u(e_)]
        ok = ok and len(tests) == 1 and types_of(tests[0].args[1]) == sorted(['int', 'float', 'decimal.Decimal'])
    run.check(ok, 'NUM', kc.where, kident, 'sign bit inverted; negatives fully inverted; hex', 'the numeric encoding no longer preserves numeric order')
    # which values are encoded, and which fragment is appended: by the tests that enclose the statements (polarity included)
    from sa.model import dominating_atoms
    if len(enc) == 1:
        at_ = dominating_atoms(enc[0][0], kc.node)
        is_num = any(pol_ and isinstance(t_, ast.Call) and u(t_.func) == 'isinstance' and pseudo(t_.args[0]) == enc[0][1]['_v']
                     for t_, pol_ in at_)
        neg_num = any((not pol_) and isinstance(t_, ast.Call) and u(t_.func) == 'isinstance' and pseudo(t_.args[0]) == enc[0][1]['_v']
                      for t_, pol_ in at_)
        # the "raw" condition: no formatter, or the bare {field} formatter - as a name bound in the loop or spelled out
        raw_pos = any(pol_ and (isinstance(t_, ast.Name) or FMT in names_in(t_)) and not (isinstance(t_, ast.Call)) for t_, pol_ in at_)
        run.check(is_num and not neg_num and raw_pos, 'NUM', where(repo, enc[0][0]), kident,
                  'encoded exactly when the field is raw (no formatter of its own) and its value is a number',
                  'the order-preserving encoding is applied to the wrong values (to non-numbers, or not to raw numeric fields): numbers are '
                  'then compared as text ("10" < "9")')
    fmt_frag = [a for a in frags if isinstance(a, ast.Call) and isinstance(a.func, ast.Attribute) and a.func.attr == 'format']
    str_frag = [a for a in frags if match_expr('str(_v)', a) is not None]
    if fmt_frag and str_frag:
        def _stmt_of(e_):
            while getattr(e_, '_parent', None) is not None and not isinstance(e_, ast.stmt):
                e_ = e_._parent
            return e_
        # decided on the two cases of the key specification - a format string (formatters: a list of format texts) or a field list /
        # callable (formatters: None) - by evaluating the enclosing tests on each (three-valued; locals of the loop resolved)
        once_k = {}
        for a_ in ast.walk(kc.node):
            if isinstance(a_, ast.Assign) and len(a_.targets) == 1 and isinstance(a_.targets[0], ast.Name):
                once_k.setdefault(a_.targets[0].id, []).append(a_.value)

        once_a = {}
        for a_ in ast.walk(kc.node):
            if isinstance(a_, ast.Assign) and len(a_.targets) == 1 and isinstance(a_.targets[0], ast.Name):
                once_a.setdefault(a_.targets[0].id, []).append(a_)
        zipped = {}
        for l_ in ast.walk(kc.node):
            if isinstance(l_, ast.For) and isinstance(l_.iter, ast.Call) and u(l_.iter.func) == 'zip' and isinstance(l_.target, ast.Tuple) \
                    and len(l_.target.elts) == len(l_.iter.args):
                for t_, a_ in zip(l_.target.elts, l_.iter.args):
                    if isinstance(t_, ast.Name):
                        zipped[t_.id] = a_

        def kind(e_, case, d=0):
            if d > 5:
                return None
            if isinstance(e_, ast.Constant):
                return 'none' if e_.value is None else 'value'
            if isinstance(e_, ast.Name) and e_.id == FMT:
                return 'value' if case == 'format' else 'none'
            if isinstance(e_, ast.Subscript) and isinstance(e_.value, ast.Name) and e_.value.id == FMT:
                return 'value' if case == 'format' else None
            if isinstance(e_, ast.IfExp):
                t3 = tv(e_.test, case, d + 1)
                return kind(e_.body if t3 else e_.orelse, case, d + 1) if t3 is not None else None
            if isinstance(e_, ast.Name) and len(once_k.get(e_.id, [])) == 1:
                return kind(once_k[e_.id][0], case, d + 1)
            if isinstance(e_, ast.Name) and len(once_a.get(e_.id, [])) == 2:
                # bound in the two branches of one `if` (x = A if c else B, written as a statement)
                a1, a2 = once_a[e_.id]
                par = getattr(a1, '_parent', None)
                if isinstance(par, ast.If) and getattr(a2, '_parent', None) is par and a1 in par.body and a2 in par.orelse:
                    t3 = tv(par.test, case, d + 1)
                    return kind((a1 if t3 else a2).value, case, d + 1) if t3 is not None else None
            if isinstance(e_, ast.Name) and e_.id in zipped:
                # a loop variable taken from zip(.., <formatters or itertools.repeat(None)>): an element of whichever is iterated
                src = zipped[e_.id]
                if isinstance(src, ast.BoolOp) and isinstance(src.op, ast.Or) and len(src.values) == 2:
                    t3 = tv(src.values[0], case, d + 1)
                    if t3 is None:
                        return None
                    src = src.values[0] if t3 else src.values[1]
                if isinstance(src, ast.Name) and src.id == FMT:
                    return 'value' if case == 'format' else None
                if isinstance(src, ast.BinOp) and isinstance(src.op, ast.Mult) and isinstance(src.left, ast.List) and len(src.left.elts) == 1:
                    return kind(src.left.elts[0], case, d + 1)       # [None] * len(keys)
                if isinstance(src, ast.Call) and u(src.func) in ('itertools.repeat', 'repeat') and src.args:
                    return kind(src.args[0], case, d + 1)
            return None

        def tv(e_, case, d=0):
            if d > 5:
                return None
            if isinstance(e_, ast.UnaryOp) and isinstance(e_.op, ast.Not):
                v_ = tv(e_.operand, case, d + 1)
                return None if v_ is None else (not v_)
            if isinstance(e_, ast.Compare) and len(e_.ops) == 1 and isinstance(e_.ops[0], (ast.Is, ast.IsNot)) and \
                    isinstance(e_.comparators[0], ast.Constant) and e_.comparators[0].value is None:
                k_ = kind(e_.left, case, d + 1)
                if k_ is None:
                    return None
                return (k_ == 'none') if isinstance(e_.ops[0], ast.Is) else (k_ != 'none')
            k_ = kind(e_, case, d + 1)
            if k_ is not None:
                return k_ == 'value'
            return None

        def reachable(stmt_, case):
            for t_, pol_ in dominating_atoms(stmt_, kc.node):
                v_ = tv(t_, case)
                if v_ is not None and v_ != pol_:
                    return False
            return True
        sf, ss = _stmt_of(fmt_frag[0]), _stmt_of(str_frag[0])
        okf = reachable(sf, 'format') and not reachable(sf, 'plain') and reachable(ss, 'plain') and not reachable(ss, 'format')
        run.check(okf, 'NUM', where(repo, fmt_frag[0]), kident,
                  'fragment = formatter.format(field=value) when the key is a format string, str(value) otherwise',
                  'the key fragment is rendered with the wrong branch: a format string key is rendered with str() (its width / padding '
                  'specification is ignored) or a field-list key with a formatter that does not exist')
    stream.r6_identity(ctx, [step])
    stream.r6_count_agreement(ctx, [step])
    run.trusted += ['LF5 KVFile: equal keys overwrite; items() iterates in ascending key order, reversed with reverse=True']
    run.not_decided += ['correctness of the IEEE-754 order-preserving encoding on values (ints above 2**53, -0.0)', 'unicode collation',
                        'equivalence of cached and on-disk KVFile iteration']
    return ('Def-use: the storage key depends on the row and its enumerate index; every stored value is yielded once; reverse and '
            'batch_size reach only their sinks; width-domain abstract evaluation of the key expression flags variable-width '
            'components that are not last / separated.', ['LF5'])
