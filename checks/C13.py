"""C13 load reproduces the source table faithfully (DESIGN §5 C13) — structural clauses."""
import ast

from rules import observers, stream
from sa.deps import Facts, names_in, pseudo
from sa.loader import AnalysisError, FuncInfo, own_nodes
from sa.model import is_drain_call, norm_compare, row_loops, rowloop_signature, u, where
from sa.paths import BREAK, FALL, RAISE, RETURN, Enumerator, path_nodes
from sa.normalize import resolve_here
from sa.pattern import find_expr, find_stmt, has_expr, has_stmt, match_expr, match_stmt

LOAD = 'dataflows.processors.load:load'


def driven_to_end(ctx, pr, lp, others):
    """zip() stops at the shorter argument: once the descriptors are used up the iterator of streams is not asked again.  When that
    iterator is a generator over the resources of another flow (a (descriptor, iterators) source), the resources after the last
    selected one are then never consumed and the source flow never learns that it is exhausted - a step of it that fails at that
    moment, or a dumper that writes its descriptor then, goes unnoticed.  So after the pairing loop the iterator is driven to its end."""
    run, repo = ctx.run, ctx.repo
    run.rule('END', 'DRIVEN-TO-END: after the loop that pairs descriptors with streams by zip(), the iterator of streams is iterated to '
                    'its end (a source that is another flow is exhausted within this run: trailing resources consumed, its end-of-stream '
                    'work and errors happen)')
    its = [pseudo(a) for a in lp.iter.args]
    stream_it = its[1] if len(its) == 2 else None
    blk = lp._parent.body if hasattr(lp._parent, 'body') else []
    after = blk[blk.index(lp) + 1:] if lp in blk else []
    ok = False
    for st in after:
        if isinstance(st, ast.For) and pseudo(st.iter) == stream_it and not any(isinstance(x, (ast.Break, ast.Return)) for x in ast.walk(st)):
            ok = True
        if isinstance(st, ast.Expr) and isinstance(st.value, ast.Call) and u(st.value.func) in ('collections.deque', 'deque') and \
                st.value.args and pseudo(st.value.args[0]) == stream_it:
            ok = True
    run.check(ok, 'END', where(repo, lp), pr.qualname, 'for _ in %s: pass  (after the pairing loop)' % stream_it,
              'the iterator of loaded streams is never asked for more than the descriptors it is paired with: with a (descriptor, '
              'iterators) source the resources after the last selected one are never consumed and the source flow is never exhausted '
              '(a failure of one of its steps at end of stream is not noticed, the run returns normally)')
    for o in others:
        run.check(o in after and pseudo(o.iter) == stream_it, 'WRAP', where(repo, o), pr.qualname, 'no other loop in process_resources',
                  'a second loop over something else than the rest of the stream iterator')


def source_asked_first(ctx, ld):
    """select_iterators pairs the iterator of source resources with a finite list through zip(): zip asks its arguments left to right
    and stops at the first that is exhausted, so the source is told that it is exhausted only if it is asked FIRST - with the finite
    list first, the loop that drives the source to its end (END) never reaches the source's own end."""
    run, repo = ctx.run, ctx.repo
    si = ld.methods.get('select_iterators')
    if si is None:
        run.note('load.select_iterators not present: the pairing of the source iterator is decided by SEL alone')
        return
    sin = ctx.N(si)
    src = sin.params[0]
    zs = [c_ for c_ in ast.walk(sin.node) if isinstance(c_, ast.Call) and u(c_.func) == 'zip' and any(pseudo(a_) == src for a_ in c_.args)]
    if not zs:
        raise AnalysisError('load.select_iterators: the zip() that pairs the source iterator was not found')
    for z in zs:
        run.check(pseudo(z.args[0]) == src, 'END', where(repo, z), si.qualname, 'zip(<source iterator>, <finite list>)',
                  'zip() is given the finite list before the source iterator: it stops without asking the source once more, the source '
                  'flow is never exhausted and a failure of one of its steps at end of stream goes unnoticed')


def wrappers(ctx, ld):
    run, repo = ctx.run, ctx.repo
    run.rule('WRAP', 'WRAPPERS: for every (descriptor, iterator) pair exactly one stream is yielded, after the upstream streams; the '
                     'missing-values, strip and limit wrappers are applied exactly when their option is set, the caster always')
    pr = ctx.N(ld.methods['process_resources'], keep=('missing_values_extractor', 'caster', 'stripper', 'limiter'))
    all_loops = [n for n in own_nodes(pr.node) if isinstance(n, ast.For)]
    from rules.stream import once_bound
    for n in all_loops:
        n.iter = once_bound(pr.node, n.iter)        # pairs = zip(...); for d, it in pairs
    loops = [n for n in all_loops if isinstance(n.iter, ast.Call) and u(n.iter.func) in ('zip', 'itertools.zip_longest')]
    if len(loops) != 1:
        raise AnalysisError('load.process_resources: pair loop not found')
    lp = loops[0]
    driven_to_end(ctx, pr, lp, [n for n in all_loops if n is not lp])
    source_asked_first(ctx, ld)
    ok = isinstance(lp.iter, ast.Call) and u(lp.iter.func) == 'zip' and \
        [pseudo(a) for a in lp.iter.args] == ['self.resource_descriptors', 'self.iterators']
    run.check(ok, 'WRAP', where(repo, lp), pr.qualname, 'for descriptor, it in zip(self.resource_descriptors, self.iterators)',
              'descriptors and iterators of the loaded resources are not walked in step')
    d, it = [t.id for t in lp.target.elts] if isinstance(lp.target, ast.Tuple) else (None, None)
    opts = {'self.extract_missing_values': 'missing_values_extractor', 'self.strip': 'stripper', 'self.limit_rows': 'limiter'}
    stages = set(opts.values()) | {'caster'}
    from sa.pathvals import PathValues, subst
    n = 0
    truth_tested_any = set()
    for p in Enumerator(where=pr.qualname).body_paths(lp):
        n += 1
        pv = PathValues(p)
        flags = {}
        truth_tested = set()
        from sa.model import norm_compare as _nc
        for t, pol in pv.guards:
            if pseudo(t) in opts:
                flags[pseudo(t)] = pol
                truth_tested.add(pseudo(t))
            else:
                t2, pol2 = _nc(t, pol)
                b_ = match_expr('_o is None', t2)
                if b_ is not None and b_['_o'] in opts:
                    flags[b_['_o']] = not pol2            # the option is set when it is not None
        truth_tested_any |= truth_tested
        ys = [it_.node.value for it_ in p.items if it_.kind == 'stmt' and isinstance(it_.node, ast.Expr)
              and isinstance(it_.node.value, ast.Yield)]
        # what is yielded, with the values known along this path: a nest  limiter(stripper(caster(d, extractor(it))))
        applied = []
        ok = len(ys) == 1 and p.term == FALL
        if ok:
            v = subst(ys[0].value, pv.env)
            while isinstance(v, ast.Call) and isinstance(v.func, ast.Attribute) and pseudo(v.func.value) == 'self' and v.func.attr in stages:
                applied.append(v.func.attr)
                if v.func.attr == 'caster':
                    ok = ok and len(v.args) == 2 and pseudo(v.args[0]) == d
                else:
                    ok = ok and len(v.args) == 1
                v = v.args[-1] if v.args else None
            ok = ok and v is not None and pseudo(v) == it      # every stage wraps the previous one; innermost is the source
            applied.reverse()                                   # innermost first = order of application
        want = [w for o, w in opts.items() if flags.get(o)]
        ok = ok and set(flags) == set(opts) and sorted(a for a in applied if a != 'caster') == sorted(want) and applied.count('caster') == 1
        run.check(ok, 'WRAP', where(repo, lp), pr.qualname, ', '.join('%s=%s' % (k.split('.')[1], v) for k, v in sorted(flags.items())),
                  'wrappers applied %s but options say %s' % (applied, want), path=p.describe())
        # order of the stages on this path: missing-value extraction -> cast -> strip -> limit.  The limiter counts what load
        # *yields*: it must be the outermost stage (a caster with a drop policy removes rows; counting before it lets dropped
        # rows use up the limit)
        pos = {a: i for i, a in enumerate(applied)}
        order_ok = ('limiter' not in pos or pos['limiter'] == len(applied) - 1) and \
            ('stripper' not in pos or 'caster' not in pos or pos['stripper'] > pos['caster']) and \
            ('missing_values_extractor' not in pos or 'caster' not in pos or pos['missing_values_extractor'] < pos['caster'])
        run.check(order_ok, 'WRAP', where(repo, lp), pr.qualname, 'stage order: ' + ' -> '.join(applied),
                  'the row stages of load are not applied in the order extract-missing, cast, strip, limit: limit_rows no longer '
                  'counts the rows that are yielded (rows dropped by the cast policy use up the limit), or markers reach the caster')
    # limit_rows is a number of rows: 0 is a limit (no rows), so the option is tested against None, not for truth
    run.check('self.limit_rows' not in truth_tested_any, 'WRAP', where(repo, lp), pr.qualname, 'limit_rows tested with `is not None`',
              'the limiter is installed only for a truthy limit_rows: load(..., limit_rows=0) yields every row instead of none')
    run.floor('WRAP', n, 2, 'option valuations')


def _nothing_after(stmt, fnode):
    """no statement follows `stmt` on the way out of the function (so `return` inside it and `break` out of it end the same way)"""
    cur = stmt
    while cur is not fnode and getattr(cur, '_parent', None) is not None:
        par = cur._parent
        if isinstance(par, (ast.For, ast.While)) and cur is not stmt:
            return False
        for fld in ('body', 'orelse', 'finalbody', 'handlers'):
            blk = getattr(par, fld, None)
            if isinstance(blk, list) and any(cur is x for x in blk):
                rest = blk[[i for i, x in enumerate(blk) if x is cur][0] + 1:]
                if any(not (isinstance(r, ast.Return) and r.value is None) and not isinstance(r, ast.Pass) for r in rest):
                    return False
                if isinstance(par, ast.Try) and (par.finalbody and fld != 'finalbody'):
                    return False
        cur = par
    return cur is fnode


def row_wrappers(ctx, ld):
    run, repo = ctx.run, ctx.repo
    run.rule('R12', 'ROW-LOOP-SHAPE(load): limiter yields the incoming rows and stops after exactly limit_rows of them; stripper yields '
                    'each row once and stores only stripped strings under the same key; stringer yields a fresh row whose every value '
                    'is a str; missing_values_extractor yields each row once and stores only the target field')
    lim = ctx.N(ld.methods['limiter'])
    ok = False
    how = ''
    # (iii) islice form
    if has_expr('(yield from itertools.islice(_it, self.limit_rows))', lim.node):
        ok, how = True, 'islice'
    else:
        rls = row_loops(lim)
        loops = [n for n in own_nodes(lim.node) if isinstance(n, ast.For)]
        if len(loops) == 1:
            loop = loops[0]
            enum = isinstance(loop.iter, ast.Call) and u(loop.iter.func) == 'enumerate' and isinstance(loop.target, ast.Tuple)
            if enum:
                start = {k.arg: k.value for k in loop.iter.keywords}.get('start')
                start = start.value if isinstance(start, ast.Constant) else (0 if start is None else None)
                cnt, var = [t.id for t in loop.target.elts]
            else:
                var = loop.target.id if isinstance(loop.target, ast.Name) else None
                cnt, start = None, None
            if var:
                sigs = rowloop_signature(lim, loop, var)
                ok = all([k for k, _ in s_.yields] == ['identity'] and not s_.stores for s_ in sigs) and len(sigs) == 2
                for s_ in sigs:
                    g = [(t, pol) for t, pol in s_.guards if isinstance(t, ast.Compare)]
                    if len(g) != 1:
                        ok = False
                        continue
                    t, pol = g[0]
                    c = pseudo(t.left)
                    ok = ok and isinstance(t.ops[0], (ast.GtE, ast.Eq)) and pseudo(t.comparators[0]) == 'self.limit_rows'
                    # (leaving the generator from the loop is the same stop when nothing follows the loop)
                    stops = s_.term == BREAK or (s_.term == RETURN and _nothing_after(loop, lim.node))
                    ok = ok and (stops == pol) and (stops or s_.term == FALL)
                    seq = []
                    for n in path_nodes(s_.path):
                        if isinstance(n, ast.Yield):
                            seq.append('Y')
                        elif isinstance(n, ast.AugAssign) and pseudo(n.target) == c and isinstance(n.op, ast.Add) and \
                                isinstance(n.value, ast.Constant) and n.value.value == 1:
                            seq.append('I')
                        elif n is t:
                            seq.append('T')
                    if enum:
                        # the counter is the 1-based position of the row just yielded
                        ok = ok and c == cnt and start == 1 and seq == ['Y', 'T']
                    else:
                        init = [n.value for n in own_nodes(lim.node) if isinstance(n, ast.Assign) and pseudo(n.targets[0]) == c
                                and isinstance(n.value, ast.Constant)]
                        ok = ok and seq == ['Y', 'I', 'T'] and len(init) == 1 and init[0].value == 0
                how = 'enumerate' if enum else 'counter'
    run.check(ok, 'R12', lim.where, lim.qualname, 'yield row k, stop as soon as k rows were yielded and k >= limit_rows',
              'the limiter does not deliver exactly the first limit_rows rows', detail=how)
    # ... and none at all for a limit of 0: the yield-then-count loop delivers one row before it looks at the limit, so it needs a
    # guard in front (islice needs none)
    # decided by evaluating, for limit_rows = 0, the tests that stand before / around the loop
    def _at_zero(t_):
        if isinstance(t_, ast.UnaryOp) and isinstance(t_.op, ast.Not):
            v_ = _at_zero(t_.operand)
            return None if v_ is None else not v_
        if pseudo(t_) == 'self.limit_rows':
            return False
        if isinstance(t_, ast.Compare) and len(t_.ops) == 1:
            l_, r_ = t_.left, t_.comparators[0]
            vals = [0 if pseudo(x_) == 'self.limit_rows' else (x_.value if isinstance(x_, ast.Constant) and isinstance(x_.value, (int, float))
                                                               and not isinstance(x_.value, bool) else None) for x_ in (l_, r_)]
            if None in vals or 'self.limit_rows' not in (pseudo(l_), pseudo(r_)):
                return None
            import operator as _op
            f_ = {ast.Lt: _op.lt, ast.LtE: _op.le, ast.Gt: _op.gt, ast.GtE: _op.ge, ast.Eq: _op.eq, ast.NotEq: _op.ne}.get(type(t_.ops[0]))
            return f_(*vals) if f_ else None
        return None
    from sa.model import dominating_atoms as _da
    zero = how == 'islice'
    if not zero and how:
        zero = any(_at_zero(t_) is not None and _at_zero(t_) != pol_ for t_, pol_ in _da(loops[0], lim.node))
    run.check(zero, 'R12', lim.where, lim.qualname, 'no row for limit_rows == 0',
              'the limiter yields a row before it consults the limit: with limit_rows=0 one row is delivered instead of none')
    # the limiter is only installed for a truthy limit (limit 0/None = no limit), checked in WRAP
    stp = ctx.N(ld.methods['stripper'])
    loop, var, _ = observers.single_row_loop(ctx, stp)
    sigs = rowloop_signature(stp, loop, var)
    ok = all([k for k, _ in s.yields] == ['identity'] and s.term == FALL for s in sigs)
    stores = [n for n in ast.walk(loop) if isinstance(n, ast.Assign) and isinstance(n.targets[0], ast.Subscript)
              and pseudo(n.targets[0].value) == var]
    why = 'rows are not yielded once each' if not ok else ''
    if ok and len(stores) != 1:
        ok, why = False, 'expected exactly one store into the row'
    if ok:
        st = stores[0]
        inner = st
        while not isinstance(inner, ast.For) and inner is not loop:
            inner = inner._parent
        facts = Facts(stp, include_nested=False)
        # the cells visited are the cells of *this* row: the inner loop iterates the current row, nothing carried over
        if inner is loop or var not in names_in(inner.iter) or (names_in(inner.iter) - {var}):
            ok, why = False, 'the cells considered for stripping are not taken from the current row alone (%s)' % u(inner.iter)
        else:
            key = u(st.targets[0].slice)
            val = st.value
            stripped = isinstance(val, ast.Call) and isinstance(val.func, ast.Attribute) and val.func.attr == 'strip' and not val.args
            if not stripped:
                ok, why = False, 'the stored value is not <cell>.strip()'
            else:
                cell = pseudo(val.func.value)
                tnames = [t.id for t in ast.walk(inner.target) if isinstance(t, ast.Name)]
                same_cell = cell in tnames or (cell and any(u(v) in ('%s[%s]' % (var, key), '%s.get(%s)' % (var, key))
                                                             for v in facts.values_of(cell)))
                from sa.model import dominating_atoms
                is_str = any(pol_ and u(t_) == 'isinstance(%s, str)' % cell for t_, pol_ in dominating_atoms(st, loop))
                if not (same_cell and key in tnames and is_str):
                    ok, why = False, 'the stripped value is not the string cell stored back under its own key'
    run.check(ok, 'R12', stp.where, stp.qualname, 'for k, v in r.items(): if str: r[k] = v.strip(); yield r',
              'stripping does not treat every string cell of every row: ' + why)
    if 'stringer' not in ld.methods:
        raise AnalysisError('load.stringer not found (the row wrapper of the strings strategy)')
    sg = ctx.N(ld.methods['stringer'])
    loop, var, _ = observers.single_row_loop(ctx, sg)
    ys = [y for y in ast.walk(loop) if isinstance(y, ast.Yield)]
    e = resolve_here(ys[0].value) if len(ys) == 1 and ys[0].value is not None else None
    ok = e is not None and any(match_expr(p_, e, {'_r': var}) is not None for p_ in (
        '{_k: _v if isinstance(_v, str) else str(_v) for (_k, _v) in _r.items()}',
        '{_k: str(_v) for (_k, _v) in _r.items()}'))
    run.check(ok, 'R12', sg.where, sg.qualname, '{k: v if isinstance(v, str) else str(v) for k, v in row.items()}',
              'the string strategy can emit a value that is not a str (found %s)' % (u(e) if e is not None else 'no single yield'))
    mv = ctx.N(ld.methods['missing_values_extractor'])
    loop, var, _ = observers.single_row_loop(ctx, mv)
    sigs = rowloop_signature(mv, loop, var)
    ok = all([k for k, _ in s.yields] == ['identity'] and s.term == FALL for s in sigs)
    stores = [n for n in ast.walk(loop) if isinstance(n, ast.Assign) and isinstance(n.targets[0], ast.Subscript)
              and pseudo(n.targets[0].value) == var]
    ok = ok and len(stores) == 1 and pseudo(stores[0].targets[0].slice) == 'target'
    run.check(ok, 'R12', mv.where, mv.qualname, 'row[target] = mapping; yield row', 'the extractor alters other cells or drops rows')


def headers_and_tables(ctx, ld):
    run, repo = ctx.run, ctx.repo
    run.rule('R23', 'MODE-SIGNATURE(load): duplicate headers without deduplicate_headers raise; with it they are renamed; the guesser and '
                    'caster tables have exactly the three documented strategies; on_error reaches the schema caster')
    # (private methods / helpers the loading branches were moved into are part of it; local names for self.<attr> are resolved)
    sp = ctx.N(ld.methods['safe_process_datapackage'], keep=('rename_duplicate_headers', 'select_iterators'))
    from sa.normalize import call_idioms as _ci13
    sp = _ci13(ctx, sp)          # (keyword arguments collected in a dict and passed with **; a bound options.setdefault)
    renames = [c for c in ast.walk(sp.node) if isinstance(c, ast.Call) and isinstance(c.func, ast.Attribute)
               and c.func.attr == 'rename_duplicate_headers']
    if len(renames) != 1:
        raise AnalysisError('load: the call that renames duplicate headers was not found')
    # D = the innermost `if` that contains both the rename and a raise: its test is "the headers contain duplicates"
    D = None
    p_ = renames[0]
    while getattr(p_, '_parent', None) is not None and p_ is not sp.node:
        p_ = p_._parent
        if isinstance(p_, ast.If) and any(isinstance(x, ast.Raise) for st_ in p_.body for x in ast.walk(st_)) \
                and any(renames[0] is x for st_ in p_.body for x in ast.walk(st_)):
            D = p_
            break
    if D is None:
        run.fail('R23', sp.where, sp.qualname, 'if <duplicate headers>: raise unless deduplicate_headers, else rename',
                 'renaming / rejecting duplicate headers is not conditional on duplicates being present')
    else:
        seen = {}
        for path in Enumerator(where=sp.qualname).paths(D.body):
            flag = [pol for t, pol in [norm_compare(t, pol) for t, pol in path.guards()] if pseudo(t) == 'self.deduplicate_headers']
            did_rename = any(n is renames[0] for n in path_nodes(path))
            if not flag:
                continue
            if flag[0]:
                seen[True] = seen.get(True, True) and did_rename and path.term != RAISE
            else:
                seen[False] = seen.get(False, True) and path.term == RAISE and not did_rename
        run.check(seen.get(False) is True, 'R23', where(repo, D), sp.qualname, 'duplicates & not deduplicate_headers -> raise',
                  'duplicate headers are accepted silently although de-duplication was not requested')
        run.check(seen.get(True) is True, 'R23', where(repo, D), sp.qualname, 'duplicates & deduplicate_headers -> renamed',
                  'duplicate headers are not renamed although requested')
        run.check(not D.orelse or not any(renames[0] is x for st_ in D.orelse for x in ast.walk(st_)), 'R23', where(repo, D), sp.qualname,
                  'no duplicates -> headers untouched', 'unique headers are renamed')
        # the renamed headers replace the stream's headers
        asg = renames[0]._parent
        run.check(isinstance(asg, ast.Assign) and u(asg.targets[0]).endswith('.headers'), 'R23', where(repo, D), sp.qualname,
                  'stream.headers = renamed headers', 'the de-duplicated names are not used as the field names')
    # the names the renamer gives out are unique: every name built with the de-duplication format is tried against the names in use
    # (all incoming headers and every name given out so far) and numbered on until it is free - 'a, a, a (1)' must not become
    # 'a (1), a (2), a (1)'
    from sa.normalize import renest_helpers as _rh13
    rn = _rh13(ctx, ctx.N(ld.methods['rename_duplicate_headers']))       # (with the module-level helpers it calls read as nested ones)
    hp, fmtp = rn.params[0], (rn.params[2] if len(rn.params) > 2 else None)
    built = [n for n in ast.walk(rn.node) if isinstance(n, ast.BinOp) and isinstance(n.op, ast.Mod) and fmtp in names_in(n.left)] + \
        [n for n in ast.walk(rn.node) if isinstance(n, ast.Call) and isinstance(n.func, ast.Attribute) and n.func.attr == 'format'
         and fmtp in names_in(n.func.value)]
    if not built:
        raise AnalysisError('load.rename_duplicate_headers: the expression that builds a numbered name was not found')
    sets_ = {pseudo(a_.targets[0]): a_.value for a_ in ast.walk(rn.node) if isinstance(a_, ast.Assign) and pseudo(a_.targets[0])
             and isinstance(a_.value, (ast.Call, ast.SetComp)) and hp in names_in(a_.value)
             and (isinstance(a_.value, ast.SetComp) or u(a_.value.func) in ('set', 'frozenset'))}
    oku = True
    for b_ in built:
        loops_ = []
        cur = b_
        while getattr(cur, '_parent', None) is not None and cur is not rn.node:
            cur = cur._parent
            if isinstance(cur, ast.While):
                loops_.append(cur)
        tried = False
        for lp_ in loops_[:1]:
            tests = [t_ for t_ in ast.walk(lp_) if isinstance(t_, ast.Compare) and len(t_.ops) == 1 and isinstance(t_.ops[0], (ast.In, ast.NotIn))
                     and pseudo(t_.comparators[0]) in sets_]
            scope_ = lp_
            while getattr(scope_, '_parent', None) is not None and not isinstance(scope_, (ast.FunctionDef, ast.AsyncFunctionDef)):
                scope_ = scope_._parent
            adds = [c_ for c_ in ast.walk(scope_) if isinstance(c_, ast.Call) and isinstance(c_.func, ast.Attribute) and c_.func.attr == 'add'
                    and pseudo(c_.func.value) in sets_]     # (inside the loop, or right after it in the same function)
            tried = bool(tests) and bool(adds)
        oku = oku and tried
    run.check(oku, 'R23', rn.where, rn.qualname, 'a numbered name is tried against the names in use and numbered on until free',
              'the names given to duplicate headers are not checked against the headers already in use: "a, a, a (1)" becomes '
              '"a (1), a (2), a (1)" - still not unique, and one column is lost from every row')
    # the decision "there are duplicate headers" is a uniqueness test of the (optionally lower-cased) stream headers, wherever
    # it is computed (inline or in a helper of the class / module)
    scope = [sp.node] + [f.node for f in repo.functions.values() if f.module is sp.module and f is not sp and
                         any(isinstance(c, ast.Call) and any(t is f for t in ctx.res.resolve_call(c))
                             for c in ast.walk(sp.node))]
    uniq = [b for sc in scope for n, b in find_expr('len(_h) != len(set(_h))', sc)]
    lower = any(has_expr('[_x.lower() for _x in __H]', sc) for sc in scope)
    ok = len(uniq) >= 1 and lower and any('headers' in u(sc) for sc in scope)
    run.check(ok, 'R23', sp.where, sp.qualname, 'duplicates = len(h) != len(set(h)) (lower-cased when case-insensitive)',
              'the duplicate-header test is not a uniqueness test of the header names')
    run.rule('OPT', 'STREAM-OPTION-DEFAULTS: the defaults load hands to the tabular reader keep every data line: headers from row 1, only '
                    'the "auto" skip preset (comment / leading blank lines), blank *headers* ignored; no preset that drops data rows')
    dflt = {}
    for c in ast.walk(sp.node):
        if isinstance(c, ast.Call) and u(c.func) == 'self.options.setdefault' and len(c.args) == 2 and isinstance(c.args[0], ast.Constant):
            try:
                dflt[c.args[0].value] = ast.literal_eval(c.args[1])
            except Exception:
                dflt[c.args[0].value] = u(c.args[1])
    # (options[K] = V under `K not in options` is the same default)
    from sa.model import dominating_atoms as _da13
    for a_ in ast.walk(sp.node):
        if isinstance(a_, ast.Assign) and len(a_.targets) == 1 and isinstance(a_.targets[0], ast.Subscript) and \
                u(a_.targets[0].value) == 'self.options' and isinstance(a_.targets[0].slice, ast.Constant):
            k_ = a_.targets[0].slice.value
            if any(pol_ is False and isinstance(t_, ast.Compare) and len(t_.ops) == 1 and isinstance(t_.ops[0], ast.In)
                   and isinstance(t_.left, ast.Constant) and t_.left.value == k_ and u(t_.comparators[0]) == 'self.options'
                   or (pol_ is True and isinstance(t_, ast.Compare) and len(t_.ops) == 1 and isinstance(t_.ops[0], ast.NotIn)
                       and isinstance(t_.left, ast.Constant) and t_.left.value == k_ and u(t_.comparators[0]) == 'self.options')
                   for t_, pol_ in _da13(a_, sp.node)) and k_ not in dflt:
                try:
                    dflt[k_] = ast.literal_eval(a_.value)
                except Exception:
                    dflt[k_] = u(a_.value)
    # the schema is inferred with confidence=1: a type is declared only if EVERY sampled cell casts to it (tableschema's default of 0.75
    # declares integer for a column in which a quarter of the cells are text - those rows then fail to cast or are dropped)
    infs = [c_ for c_ in ast.walk(sp.node) if isinstance(c_, ast.Call) and isinstance(c_.func, ast.Attribute) and c_.func.attr == 'infer'
            and any(k.arg == 'guesser_cls' for k in c_.keywords)]
    if len(infs) != 1:
        raise AnalysisError('load: the Schema.infer(...) call was not found')
    kwi = {k.arg: k.value for k in infs[0].keywords}
    run.check(isinstance(kwi.get('confidence'), ast.Constant) and kwi['confidence'].value == 1 and u(kwi.get('headers', ast.Constant(value=None))).endswith('.headers')
              and u(kwi.get('guesser_cls')) == 'self.guesser', 'OPT', where(repo, infs[0]), sp.qualname,
              'Schema.infer(sample, headers=stream.headers, confidence=1, guesser_cls=self.guesser)',
              'the schema is not inferred with confidence=1 from the stream headers with the configured guesser: a column is typed although '
              'some of its sampled cells do not cast')
    # the inferred fields carry the stream's own headers: Schema.infer renames what it is given (an empty header becomes `field<N>`,
    # a repeated one gets a number) while the rows stay keyed by the headers as read - so the names are put back, field by field
    schema_var = pseudo(infs[0]._parent.targets[0]) if isinstance(getattr(infs[0], '_parent', None), ast.Assign) else None
    hdr = u(kwi['headers']) if 'headers' in kwi else None
    restored = False
    if schema_var and hdr:
        for pat_ in ("for (_i, _f) in enumerate(%s['fields']):\n    _f['name'] = %s[_i]" % (schema_var, hdr),
                     "for (_i, _h) in enumerate(%s):\n    %s['fields'][_i]['name'] = _h" % (hdr, schema_var)):
            restored = restored or has_stmt(pat_, sp.node)
        # the pairing loop, with either order of the pair, locals for the two sequences, and the store as item assignment or update()
        from rules.stream import subst_once as _so13
        for l_ in ast.walk(sp.node):
            if not (isinstance(l_, ast.For) and isinstance(l_.target, ast.Tuple) and len(l_.target.elts) == 2
                    and all(isinstance(t_, ast.Name) for t_ in l_.target.elts)):
                continue
            z_ = match_expr('zip(__A, __B)', l_.iter)
            sides = None
            if z_ is not None:
                # each side as written, or through a local bound once to it
                from rules.stream import once_bound as _ob13
                sides = [u(_ob13(sp.node, z_[k_])) if isinstance(z_[k_], ast.Name) else u(z_[k_]) for k_ in ('__A', '__B')]
            if sides is None or sorted(sides) != sorted([hdr, "%s['fields']" % schema_var]):
                continue
            hv_ = l_.target.elts[sides.index(hdr)].id
            fv_ = l_.target.elts[1 - sides.index(hdr)].id
            for st_ in l_.body:
                if match_stmt("%s['name'] = %s" % (fv_, hv_), st_) is not None or match_stmt('%s.update(name=%s)' % (fv_, hv_), st_) is not None \
                        or match_stmt("%s.update({'name': %s})" % (fv_, hv_), st_) is not None:
                    restored = True
    run.check(restored, 'OPT', where(repo, infs[0]), sp.qualname, "for header, field in zip(stream.headers, schema['fields']): field['name'] = header",
              'the inferred fields keep the names Schema.infer made up (field<N> for an empty header, a number appended to a repeated one) '
              'while the rows are keyed by the headers as read: those columns are declared under one name and delivered under another')
    want = {'ignore_blank_headers': True, 'skip_rows': [{'type': 'preset', 'value': 'auto'}], 'headers': 1, 'sample_size': 1000}
    for k_, v_ in want.items():
        run.check(dflt.get(k_) == v_, 'OPT', sp.where, sp.qualname, 'default %s = %r' % (k_, v_),
                  'the default reader option %s is %r instead of %r: data lines can be dropped or mis-read as headers' % (k_, dflt.get(k_), v_))
    init = ld.methods['__init__']
    for attr, keys in (('self.guesser', ['self.INFER_FULL', 'self.INFER_PYTHON_TYPES', 'self.INFER_STRINGS']),
                       ('self.caster', ['self.CAST_DO_NOTHING', 'self.CAST_WITH_SCHEMA', 'self.CAST_TO_STRINGS'])):
        vals = [n.value for n in own_nodes(init.node) if isinstance(n, ast.Assign) and pseudo(n.targets[0]) == attr]
        ok = len(vals) == 1 and isinstance(vals[0], ast.Subscript) and isinstance(vals[0].value, ast.Dict) and \
            sorted(u(k) for k in vals[0].value.keys) == sorted(keys)
        run.check(ok, 'R23', init.where, init.qualname, '%s table keys %s' % (attr, keys), 'strategy table of %s changed' % attr)
        if ok and attr == 'self.caster':
            tab = {u(k): v for k, v in zip(vals[0].value.keys, vals[0].value.values)}

            def as_fn(e):
                # a table entry as (parameters, returned expression): a lambda, or a method of the class (self.m / load.m, static or
                # not) whose body is a single return
                if isinstance(e, ast.Lambda):
                    return [x.arg for x in e.args.args], e.body
                if isinstance(e, ast.Attribute) and isinstance(e.value, ast.Name) and e.value.id in ('self', 'cls', ld.name):
                    m_ = ld.methods.get(e.attr)
                    if m_ is not None and not isinstance(m_.node, ast.Lambda):
                        body_ = [x for x in m_.node.body if not (isinstance(x, ast.Expr) and isinstance(x.value, ast.Constant))]
                        if len(body_) == 1 and isinstance(body_[0], ast.Return) and body_[0].value is not None:
                            return [p_ for p_ in m_.params if p_ not in ('self', 'cls')], body_[0].value
                return None, None
            a = tab['self.CAST_DO_NOTHING']
            pa_, ba_ = as_fn(a)
            run.check(pa_ is not None and len(pa_) == 2 and u(ba_) == pa_[1], 'R23', init.where, init.qualname,
                      'CAST_DO_NOTHING: identity', 'the do-nothing cast strategy alters the stream')
            b = tab['self.CAST_WITH_SCHEMA']
            okb = (isinstance(b, ast.Lambda) and len(b.args.args) == 2 and
                   u(b.body) == 'schema_validator(%s, %s, on_error=on_error)' % (b.args.args[0].arg, b.args.args[1].arg)) or \
                match_expr('functools.partial(schema_validator, on_error=on_error)', b) is not None or \
                match_expr('partial(schema_validator, on_error=on_error)', b) is not None
            run.check(okb, 'R23', init.where, init.qualname,
                      'CAST_WITH_SCHEMA: schema_validator(res, it, on_error=on_error)', 'schema casting ignores on_error')
            c = tab['self.CAST_TO_STRINGS']
            pc_, bc_ = as_fn(c)
            run.check(pc_ is not None and len(pc_) == 2 and u(bc_) == 'self.stringer(%s)' % pc_[1], 'R23', init.where,
                      init.qualname, 'CAST_TO_STRINGS: self.stringer(it)', 'the strings strategy does not stringify')
    # limit_rows etc. stored
    for a in ('strip', 'limit_rows', 'resources', 'name'):
        run.check(has_stmt('self.%s = %s' % (a, a), init.node), 'R23', init.where, init.qualname, 'self.%s = %s' % (a, a), 'option %s lost' % a)


def selection(ctx, ld):
    run, repo, res = ctx.run, ctx.repo, ctx.res
    run.rule('SEL', 'SELECTION: when loading from a data package or from a (descriptor, iterators) pair, descriptors and iterators are '
                    'selected by the same matcher with the same polarity, in the same order; an unselected iterator of a pair is '
                    'still consumed (the pair\'s iterators may share one sequential source)')
    sp = ctx.N(ld.methods['safe_process_datapackage'])
    facts = Facts(sp, include_nested=True)
    # datapackage branch: one loop; on every path through its body both lists are appended to exactly when the matcher
    # accepts the resource's name
    from sa.model import norm_compare
    from sa.paths import Enumerator as _En, path_nodes as _pn
    loops = [n for n in ast.walk(sp.node) if isinstance(n, ast.For) and u(n.iter) == 'self.load_dp.resources'
             and isinstance(n.target, ast.Name)]
    ok = len(loops) == 1
    if ok:
        lp = loops[0]
        v_ = lp.target.id
        seen_pol = set()
        for p_ in _En(where=sp.qualname).body_paths(lp):
            pol_ = None
            for t, pol in p_.guards():
                t, pol = norm_compare(t, pol)
                if match_expr('_m.match(%s.name)' % v_, t) is not None:
                    pol_ = pol
                else:
                    ok = False
            nodes = list(_pn(p_))
            d_app = [c for c in nodes if match_expr('self.resource_descriptors.append(%s.descriptor)' % v_, c) is not None]
            i_app = [c for c in nodes if isinstance(c, ast.Call) and match_expr('self.iterators.append', c.func) is not None
                     and len(c.args) == 1 and isinstance(c.args[0], ast.Call) and match_expr('%s.iter' % v_, c.args[0].func) is not None]
            if pol_ is None:
                ok = False
            elif pol_:
                ok = ok and len(d_app) == 1 and len(i_app) == 1
            else:
                ok = ok and not d_app and not i_app
            seen_pol.add(pol_)
        ok = ok and seen_pol == {True, False}
    run.check(ok, 'SEL', sp.where, sp.qualname, 'datapackage: if match(resource.name): descriptors.append; iterators.append',
              'descriptor and iterator lists of a loaded data package are not filled under the same selection')
    # tuple branch: for d in <pair descriptor>['resources']: if matcher.match(d['name']): descriptors.append(d)
    dl = [n for n in ast.walk(sp.node) if isinstance(n, ast.For) and isinstance(n.target, ast.Name) and
          match_expr("__DP['resources']", resolve_here(n.iter)) is not None and
          any(match_expr('self.resource_descriptors.append(%s)' % n.target.id, c) is not None for c in ast.walk(n))]
    ok = len(dl) == 1
    pol_d = None
    mname = dpx = None
    if ok:
        dv_ = dl[0].target.id
        dpx = u(resolve_here(dl[0].iter).value)
        seen_pol = set()
        for p_ in _En(where=sp.qualname).body_paths(dl[0]):
            pol_ = None
            for t, pol in p_.guards():
                t, pol = norm_compare(t, pol)
                e_ = match_expr("_m.match(%s['name'])" % dv_, t)
                if e_ is not None:
                    pol_ = pol
                    mname = e_['_m']
                else:
                    ok = False
            apps = [c for c in _pn(p_) if match_expr('self.resource_descriptors.append(%s)' % dv_, c) is not None]
            ok = ok and pol_ is not None and (len(apps) == 1 if pol_ else not apps)
            seen_pol.add(pol_)
        ok = ok and seen_pol == {True, False}
        pol_d = True
    run.check(ok, 'SEL', sp.where, sp.qualname, "pair: descriptors selected by match(descriptor['name'])",
              'descriptors of a (descriptor, iterators) pair are not selected by the matcher')
    # iterators: generator expression or generator function over zip(<pair iterators>, <pair descriptor>['resources'])
    its = [v for v in facts.values_of('self.iterators') if not (isinstance(v, ast.List) and not v.elts)]

    def resolves_to_resources(e_):
        """is e_ (possibly through one local) <pair descriptor>['resources']?"""
        if dpx is None:
            return False
        if match_expr("%s['resources']" % dpx, e_) is not None:
            return True
        if isinstance(e_, ast.Name):
            return any(match_expr("%s['resources']" % dpx, v_) is not None for v_ in facts.values_of(e_.id))
        return False
    tuple_its = []
    for v in its:
        if isinstance(v, ast.GeneratorExp) and isinstance(v.generators[0].iter, ast.Call) and u(v.generators[0].iter.func) == 'zip' \
                and len(v.generators[0].iter.args) == 2 and resolves_to_resources(v.generators[0].iter.args[1]):
            tuple_its.append(v)
        elif isinstance(v, ast.Call) and len(v.args) == 3 and resolves_to_resources(v.args[1]) and pseudo(v.args[2]) == mname:
            tuple_its.append(v)
    if len(tuple_its) != 1:
        raise AnalysisError('load: iterator selection for the (descriptor, iterators) pair not found')
    v = tuple_its[0]
    drained = False
    sel_ok = False
    if isinstance(v, ast.GeneratorExp):
        g = v.generators[0]
        sel_ok = isinstance(g.iter, ast.Call) and u(g.iter.func) == 'zip' and len(g.ifs) == 1 and isinstance(g.target, ast.Tuple) and \
            match_expr("%s.match(%s['name'])" % (mname, g.target.elts[1].id), g.ifs[0]) is not None and pseudo(v.elt) == g.target.elts[0].id
        drained = False      # a filtering generator expression cannot consume what it skips
        where_ = where(repo, v)
        construct = u(v)
    elif isinstance(v, ast.Call):
        tg = [t for t in res.resolve_call(v) if isinstance(t, FuncInfo)]
        if len(tg) != 1:
            raise AnalysisError('load: iterator selector %s not resolved' % u(v.func))
        f = tg[0]
        from sa.model import is_drain_loop as _idl
        lp = [n for n in own_nodes(f.node) if isinstance(n, ast.For) and not _idl(n)]
        sel_ok = len(lp) == 1 and isinstance(lp[0].iter, ast.Call) and u(lp[0].iter.func) == 'zip'
        if sel_ok:
            rv, dv = [t.id for t in lp[0].target.elts]
            ffacts = Facts(f, include_nested=False)
            for p in Enumerator(where=f.qualname).body_paths(lp[0]):
                from sa.model import norm_compare as _nc
                from sa.pathvals import PathValues as _PVs
                m = [pol for t, pol in [_nc(t_, pol_) for t_, pol_ in _PVs(p).guards] if '.match(' in u(t) and "%s['name']" % dv in u(t)]
                if len(m) != 1:
                    sel_ok = False
                    continue
                ys = [y for y in path_nodes(p) if isinstance(y, ast.Yield)]
                dr = [c for c in path_nodes(p) if isinstance(c, ast.Call) and is_drain_call(res, c) and pseudo(c.args[0]) == rv] + \
                    [it_.node for it_ in p.items if it_.kind == 'loop' and _idl(it_.node, rv)]
                if m[0]:
                    sel_ok = sel_ok and len(ys) == 1 and pseudo(ys[0].value) == rv and not dr and p.term in (FALL, 'continue')
                else:
                    sel_ok = sel_ok and not ys and p.term in (FALL, 'continue')
                    drained = bool(dr)
        where_ = f.where
        construct = 'selector ' + f.qualname
    else:
        raise AnalysisError('load: unrecognised iterator selection %s' % u(v))
    run.check(sel_ok, 'SEL', where_, sp.qualname, 'pair: iterators selected by the same matcher, same polarity, same order',
              'iterators of a (descriptor, iterators) pair are not selected like their descriptors')
    run.check(drained, 'R6a', where_, sp.qualname, construct,
              'an unselected iterator of a (descriptor, iterators) pair is skipped without being consumed: with a sequential source '
              '(unstream, a piped package) the selected resource then receives the skipped resource\'s rows')
    # new resources appended after the existing ones (R26 covers the stream phase)
    from rules.stream import once_bound as _obx
    ext = [c for c in own_nodes(sp.node) if isinstance(c, ast.Call) and isinstance(c.func, ast.Attribute) and c.func.attr == 'extend'
           and "setdefault('resources', [])" in u(_obx(sp.node, c.func.value))]
    run.check(len(ext) == 1 and pseudo(ext[0].args[0]) == 'self.resource_descriptors', 'SEL', sp.where, sp.qualname,
              "dp.descriptor.setdefault('resources', []).extend(self.resource_descriptors)", 'loaded descriptors are not appended')


def check(ctx):
    run = ctx.run
    ld = ctx.repo.cls(LOAD)
    wrappers(ctx, ld)
    headers_and_tables(ctx, ld)      # the strategy tables first: they name the row wrappers the next clause looks at
    row_wrappers(ctx, ld)
    selection(ctx, ld)
    # the formats load reads through a parser of its own: the four tabulator has no (or no sufficient) reader for.  A format tabulator
    # reads line by line (csv, tsv, ndjson ...) that is re-routed through another parser changes what a data line is
    ctx.run.rule('PRS', "CUSTOM-PARSERS: load.get_custom_parsers registers no parser for a format tabulator reads itself (csv, tsv, json, "
                        "ndjson, xls, xlsx, ods, html, gsheet, inline, datapackage), 'sql' excepted (a subclass of tabulator's own)")
    gcp = ld.methods.get('get_custom_parsers')
    if gcp is None:
        raise AnalysisError('load.get_custom_parsers not found')
    gcn = ctx.N(gcp)
    # every (format, parser class) pair the method mentions, however it registers them: setdefault(k, P) - also through a bound
    # method -, a table of pairs, a dict display, a keyword
    keys_ = set()

    def _is_parser(e_):
        return isinstance(e_, ast.Name) and e_.id.endswith('Parser')
    for c_ in ast.walk(gcn.node):
        if isinstance(c_, ast.Call) and len(c_.args) == 2 and isinstance(c_.args[0], ast.Constant) and isinstance(c_.args[0].value, str) \
                and _is_parser(c_.args[1]):
            keys_.add(c_.args[0].value)
        if isinstance(c_, ast.Call):
            keys_ |= {k_.arg for k_ in c_.keywords if k_.arg and _is_parser(k_.value)}
        if isinstance(c_, ast.Tuple) and len(c_.elts) == 2 and isinstance(c_.elts[0], ast.Constant) and isinstance(c_.elts[0].value, str) \
                and _is_parser(c_.elts[1]):
            keys_.add(c_.elts[0].value)
        if isinstance(c_, ast.Dict):
            keys_ |= {k_.value for k_, v_ in zip(c_.keys, c_.values) if isinstance(k_, ast.Constant) and _is_parser(v_)}
        if isinstance(c_, ast.Assign) and isinstance(c_.targets[0], ast.Subscript) and isinstance(c_.targets[0].slice, ast.Constant) \
                and _is_parser(c_.value):
            keys_.add(c_.targets[0].slice.value)
    # (library fact LF9: the formats tabulator has a parser of its own for - tabulator.config.PARSERS of the pinned version.  `sql` is
    # the one load has always replaced, with a subclass of tabulator's own SQL parser; a parser for a format tabulator does not know,
    # such as xml / excel-xml / geojson or a new one, takes nothing away from the formats the property speaks of)
    native_ = {'csv', 'datapackage', 'gsheet', 'html', 'inline', 'json', 'jsonl', 'ndjson', 'ods', 'sql', 'tsv', 'xls', 'xlsx'}
    replaced_ = (keys_ & native_) - {'sql'}
    ctx.run.check(bool(keys_) and not replaced_, 'PRS', gcn.where, gcp.qualname, "no custom parser for a format tabulator reads itself (except 'sql')",
                  'load substitutes its own parser for %s: a format that tabulator reads one record per data line is read by other rules '
                  '(quoting, escaping), so data lines are merged, split or altered' % sorted(replaced_))
    # cast_strategy=CAST_WITH_SCHEMA hands the rows to schema_validator: "values of the inferred types, or the offending row handled
    # according to on_error" is its row loop (every checked field of every row is cast; shared clause with C14)
    from checks import C14
    C14.validator_loop(ctx)
    from rules import independence
    independence.r28_functions(ctx, [(LOAD + '.stripper', {}), (LOAD + '.stringer', {}), (LOAD + '.missing_values_extractor', {}),
                                     (LOAD + '.limiter', {'__kinds__': ('COUNTER',)})])
    stream.r26_append_order(ctx)
    run.trusted += ['tabulator Stream yields one keyed row per data line in file order']
    run.not_decided += ['CSV fidelity (tabulator), inference results, header renaming format on concrete names',
                        'exact limit arithmetic beyond the shape init 0 / increment after yield / break on >=']
    return ('Option-guarded wrapper installation per valuation of (extract_missing_values, strip, limit_rows); row-loop shapes of '
            'limiter / stripper / stringer / missing-value extractor; raise-or-rename signature of duplicate headers; strategy '
            'tables; equal selection of descriptors and iterators in both package-loading branches including consumption of '
            'skipped iterators.', [])
