"""C13 load reproduces the source table faithfully (DESIGN §5 C13) — structural clauses."""
import ast

from rules import observers, stream
from sa.deps import Facts, names_in, pseudo
from sa.loader import AnalysisError, FuncInfo, own_nodes
from sa.model import is_drain_call, row_loops, rowloop_signature, u, where
from sa.paths import BREAK, FALL, RAISE, Enumerator, path_nodes
from sa.pattern import find_expr, find_stmt, has_expr, has_stmt, match_expr, match_stmt

LOAD = 'dataflows.processors.load:load'


def wrappers(ctx, ld):
    run, repo = ctx.run, ctx.repo
    run.rule('WRAP', 'WRAPPERS: for every (descriptor, iterator) pair exactly one stream is yielded, after the upstream streams; the '
                     'missing-values, strip and limit wrappers are applied exactly when their option is set, the caster always')
    pr = ld.methods['process_resources']
    loops = [n for n in own_nodes(pr.node) if isinstance(n, ast.For)]
    if len(loops) != 1:
        raise AnalysisError('load.process_resources: pair loop not found')
    lp = loops[0]
    ok = isinstance(lp.iter, ast.Call) and u(lp.iter.func) == 'zip' and \
        [pseudo(a) for a in lp.iter.args] == ['self.resource_descriptors', 'self.iterators']
    run.check(ok, 'WRAP', where(repo, lp), pr.qualname, 'for descriptor, it in zip(self.resource_descriptors, self.iterators)',
              'descriptors and iterators of the loaded resources are not walked in step')
    d, it = [t.id for t in lp.target.elts] if isinstance(lp.target, ast.Tuple) else (None, None)
    opts = {'self.extract_missing_values': 'missing_values_extractor', 'self.strip': 'stripper', 'self.limit_rows': 'limiter'}
    n = 0
    for p in Enumerator(where=pr.qualname).body_paths(lp):
        n += 1
        flags = {}
        for t, pol in p.guards():
            if pseudo(t) in opts:
                flags[pseudo(t)] = pol
        nodes = list(path_nodes(p))
        applied = [c.func.attr for c in nodes if isinstance(c, ast.Call) and isinstance(c.func, ast.Attribute)
                   and isinstance(c._parent, ast.Assign) and pseudo(c._parent.targets[0]) == it and pseudo(c.func.value) == 'self']
        want = [w for o, w in opts.items() if flags.get(o)]
        ys = [y for y in nodes if isinstance(y, ast.Yield)]
        ok = set(flags) == set(opts) and sorted(a for a in applied if a != 'caster') == sorted(want) and \
            applied.count('caster') == 1 and len(ys) == 1 and pseudo(ys[0].value) == it and p.term == FALL
        # each wrapper is applied to the current iterator (chained)
        for c in nodes:
            if isinstance(c, ast.Call) and isinstance(c.func, ast.Attribute) and c.func.attr in list(opts.values()) + ['caster']:
                ok = ok and pseudo(c.args[-1]) == it
        run.check(ok, 'WRAP', where(repo, lp), pr.qualname, ', '.join('%s=%s' % (k.split('.')[1], v) for k, v in sorted(flags.items())),
                  'wrappers applied %s but options say %s' % (applied, want), path=p.describe())
    run.floor('WRAP', n, 2, 'option valuations')
    # order: missing values are extracted before casting (they would fail the cast), stripping after
    order = [c.func.attr for c in ast.walk(lp) if isinstance(c, ast.Call) and isinstance(c.func, ast.Attribute)
             and c.func.attr in list(opts.values()) + ['caster']]
    srt = sorted(order, key=lambda a: [x.lineno for x in ast.walk(lp) if isinstance(x, ast.Call) and isinstance(x.func, ast.Attribute) and x.func.attr == a][0])
    run.check(srt.index('missing_values_extractor') < srt.index('caster'), 'WRAP', where(repo, lp), pr.qualname,
              'missing values extracted before casting', 'missing-value markers reach the caster')


def row_wrappers(ctx, ld):
    run, repo = ctx.run, ctx.repo
    run.rule('R12', 'ROW-LOOP-SHAPE(load): limiter yields the incoming rows and stops after exactly limit_rows of them; stripper yields '
                    'each row once and stores only stripped strings under the same key; stringer yields a fresh row whose every value '
                    'is a str; missing_values_extractor yields each row once and stores only the target field')
    lim = ld.methods['limiter']
    loop, var, _ = observers.single_row_loop(ctx, lim)
    sigs = rowloop_signature(lim, loop, var)
    facts = Facts(lim, include_nested=False)
    ok = all([k for k, _ in s.yields] == ['identity'] and not s.stores for s in sigs) and len(sigs) == 2
    cnt = None
    for s in sigs:
        g = [(t, pol) for t, pol in s.guards if isinstance(t, ast.Compare)]
        if len(g) != 1:
            ok = False
            continue
        t, pol = g[0]
        cnt = pseudo(t.left)
        ok = ok and isinstance(t.ops[0], (ast.GtE, ast.Eq)) and pseudo(t.comparators[0]) == 'self.limit_rows'
        ok = ok and ((s.term == BREAK) == pol)
        # yield < increment < test on the path
        seq = []
        for n in path_nodes(s.path):
            if isinstance(n, ast.Yield):
                seq.append('Y')
            elif isinstance(n, ast.AugAssign) and pseudo(n.target) == cnt and isinstance(n.op, ast.Add) and \
                    isinstance(n.value, ast.Constant) and n.value.value == 1:
                seq.append('I')
            elif n is t:
                seq.append('T')
        ok = ok and seq == ['Y', 'I', 'T']
    init = [n.value for n in own_nodes(lim.node) if isinstance(n, ast.Assign) and pseudo(n.targets[0]) == cnt
            and isinstance(n.value, ast.Constant)]
    ok = ok and len(init) == 1 and init[0].value == 0
    run.check(ok, 'R12', lim.where, lim.qualname, 'count = 0; for row: yield row; count += 1; if count >= limit: break',
              'the limiter does not deliver exactly the first limit_rows rows')
    # the limiter is only installed for a truthy limit (limit 0/None = no limit), checked in WRAP
    stp = ld.methods['stripper']
    loop, var, _ = observers.single_row_loop(ctx, stp)
    sigs = rowloop_signature(stp, loop, var)
    ok = all([k for k, _ in s.yields] == ['identity'] and s.term == FALL for s in sigs)
    stores = [n for n in ast.walk(loop) if isinstance(n, ast.Assign) and isinstance(n.targets[0], ast.Subscript)
              and pseudo(n.targets[0].value) == var]
    why = 'rows are not yielded once each' if not ok else ''
    if ok and len(stores) != 1:
        ok, why = False, 'expected exactly one store into the row'
    if ok:
        st = stores[0]
        inner = st
        while not isinstance(inner, ast.For) and inner is not loop:
            inner = inner._parent
        facts = Facts(stp, include_nested=False)
        # the cells visited are the cells of *this* row: the inner loop iterates the current row, nothing carried over
        if inner is loop or var not in names_in(inner.iter) or (names_in(inner.iter) - {var}):
            ok, why = False, 'the cells considered for stripping are not taken from the current row alone (%s)' % u(inner.iter)
        else:
            key = u(st.targets[0].slice)
            val = st.value
            stripped = isinstance(val, ast.Call) and isinstance(val.func, ast.Attribute) and val.func.attr == 'strip' and not val.args
            if not stripped:
                ok, why = False, 'the stored value is not <cell>.strip()'
            else:
                cell = pseudo(val.func.value)
                tnames = [t.id for t in ast.walk(inner.target) if isinstance(t, ast.Name)]
                same_cell = cell in tnames or (cell and any(u(v) in ('%s[%s]' % (var, key), '%s.get(%s)' % (var, key))
                                                             for v in facts.values_of(cell)))
                guard = st._parent
                is_str = isinstance(guard, ast.If) and 'isinstance(%s, str)' % cell in u(guard.test)
                if not (same_cell and key in tnames and is_str):
                    ok, why = False, 'the stripped value is not the string cell stored back under its own key'
    run.check(ok, 'R12', stp.where, stp.qualname, 'for k, v in r.items(): if str: r[k] = v.strip(); yield r',
              'stripping does not treat every string cell of every row: ' + why)
    sg = ld.methods['stringer']
    loop, var, _ = observers.single_row_loop(ctx, sg)
    ys = [y for y in ast.walk(loop) if isinstance(y, ast.Yield)]
    ok = len(ys) == 1 and isinstance(ys[0].value, ast.Call) and u(ys[0].value.func) == 'dict' and \
        isinstance(ys[0].value.args[0], ast.GeneratorExp)
    if ok:
        g = ys[0].value.args[0]
        k, v = [t.id for t in g.generators[0].target.elts]
        e = g.elt
        ok = u(g.generators[0].iter) == '%s.items()' % var and not g.generators[0].ifs and isinstance(e, ast.IfExp)
        if ok:
            is_str_test = u(e.test) in ('not isinstance(%s, str)' % v, 'isinstance(%s, str)' % v)
            neg = u(e.test).startswith('not ')
            conv, keep = (e.body, e.orelse) if neg else (e.orelse, e.body)
            ok = is_str_test and u(conv) == '(%s, str(%s))' % (k, v) and u(keep) == '(%s, %s)' % (k, v)
    run.check(ok, 'R12', sg.where, sg.qualname, 'dict((k, str(v)) if not isinstance(v, str) else (k, v) ...)',
              'the string strategy can emit a value that is not a str')
    mv = ld.methods['missing_values_extractor']
    loop, var, _ = observers.single_row_loop(ctx, mv)
    sigs = rowloop_signature(mv, loop, var)
    ok = all([k for k, _ in s.yields] == ['identity'] and s.term == FALL for s in sigs)
    stores = [n for n in ast.walk(loop) if isinstance(n, ast.Assign) and isinstance(n.targets[0], ast.Subscript)
              and pseudo(n.targets[0].value) == var]
    ok = ok and len(stores) == 1 and pseudo(stores[0].targets[0].slice) == 'target'
    run.check(ok, 'R12', mv.where, mv.qualname, 'row[target] = mapping; yield row', 'the extractor alters other cells or drops rows')


def headers_and_tables(ctx, ld):
    run, repo = ctx.run, ctx.repo
    run.rule('R23', 'MODE-SIGNATURE(load): duplicate headers without deduplicate_headers raise; with it they are renamed; the guesser and '
                    'caster tables have exactly the three documented strategies; on_error reaches the schema caster')
    sp = ld.methods['safe_process_datapackage']
    en = Enumerator(where=sp.qualname, relevant=lambda n: isinstance(n, ast.Raise) or
                    (isinstance(n, ast.Attribute) and n.attr in ('deduplicate_headers',)) or
                    (isinstance(n, ast.Name) and n.id == 'duplication_test') or
                    (isinstance(n, ast.Call) and isinstance(n.func, ast.Attribute) and n.func.attr == 'rename_duplicate_headers'))
    seen = {}
    for p in en.paths(sp.node.body):
        g = {u(t): pol for t, pol in p.guards()}
        dup = g.get('duplication_test')
        if dup is None:
            continue
        ded = g.get('not self.deduplicate_headers')
        if ded is not None:
            ded = not ded
        elif 'self.deduplicate_headers' in g:
            ded = g['self.deduplicate_headers']
        renames = any(isinstance(n, ast.Call) and isinstance(n.func, ast.Attribute) and n.func.attr == 'rename_duplicate_headers'
                      for n in path_nodes(p))
        key = (dup, ded)
        if dup and ded is False:
            seen[key] = p.term == RAISE and not renames
        elif dup and ded:
            seen[key] = renames and p.term != RAISE
        elif not dup:
            seen[(False, None)] = seen.get((False, None), True) and not renames
    run.check(seen.get((True, False)) is True, 'R23', sp.where, sp.qualname, 'duplicates & not deduplicate_headers -> raise',
              'duplicate headers are accepted silently although de-duplication was not requested')
    run.check(seen.get((True, True)) is True, 'R23', sp.where, sp.qualname, 'duplicates & deduplicate_headers -> renamed',
              'duplicate headers are not renamed although requested')
    run.check(seen.get((False, None)) is True, 'R23', sp.where, sp.qualname, 'no duplicates -> headers untouched',
              'unique headers are renamed')
    # duplication test compares len(headers) with len(set(headers)) (case-insensitively when asked)
    ok = has_stmt('duplication_test = len(_s.headers) != len(set(_s.headers))', sp.node) and \
        has_stmt('_lh = [_h.lower() for _h in _s.headers]', sp.node) and \
        has_stmt('duplication_test = len(_lh) != len(set(_lh))', sp.node)
    run.check(ok, 'R23', sp.where, sp.qualname, 'duplicates = len(h) != len(set(h)) (lower-cased when case-insensitive)',
              'the duplicate-header test is not a uniqueness test of the header names')
    init = ld.methods['__init__']
    for attr, keys in (('self.guesser', ['self.INFER_FULL', 'self.INFER_PYTHON_TYPES', 'self.INFER_STRINGS']),
                       ('self.caster', ['self.CAST_DO_NOTHING', 'self.CAST_WITH_SCHEMA', 'self.CAST_TO_STRINGS'])):
        vals = [n.value for n in own_nodes(init.node) if isinstance(n, ast.Assign) and pseudo(n.targets[0]) == attr]
        ok = len(vals) == 1 and isinstance(vals[0], ast.Subscript) and isinstance(vals[0].value, ast.Dict) and \
            sorted(u(k) for k in vals[0].value.keys) == sorted(keys)
        run.check(ok, 'R23', init.where, init.qualname, '%s table keys %s' % (attr, keys), 'strategy table of %s changed' % attr)
        if ok and attr == 'self.caster':
            tab = {u(k): v for k, v in zip(vals[0].value.keys, vals[0].value.values)}
            a = tab['self.CAST_DO_NOTHING']
            run.check(isinstance(a, ast.Lambda) and u(a.body) == a.args.args[1].arg, 'R23', init.where, init.qualname,
                      'CAST_DO_NOTHING: identity', 'the do-nothing cast strategy alters the stream')
            b = tab['self.CAST_WITH_SCHEMA']
            run.check(isinstance(b, ast.Lambda) and u(b.body) == 'schema_validator(%s, %s, on_error=on_error)' %
                      (b.args.args[0].arg, b.args.args[1].arg), 'R23', init.where, init.qualname,
                      'CAST_WITH_SCHEMA: schema_validator(res, it, on_error=on_error)', 'schema casting ignores on_error')
            c = tab['self.CAST_TO_STRINGS']
            run.check(isinstance(c, ast.Lambda) and u(c.body) == 'self.stringer(%s)' % c.args.args[1].arg, 'R23', init.where,
                      init.qualname, 'CAST_TO_STRINGS: self.stringer(it)', 'the strings strategy does not stringify')
    # limit_rows etc. stored
    for a in ('strip', 'limit_rows', 'resources', 'name'):
        run.check(has_stmt('self.%s = %s' % (a, a), init.node), 'R23', init.where, init.qualname, 'self.%s = %s' % (a, a), 'option %s lost' % a)


def selection(ctx, ld):
    run, repo, res = ctx.run, ctx.repo, ctx.res
    run.rule('SEL', 'SELECTION: when loading from a data package or from a (descriptor, iterators) pair, descriptors and iterators are '
                    'selected by the same matcher with the same polarity, in the same order; an unselected iterator of a pair is '
                    'still consumed (the pair\'s iterators may share one sequential source)')
    sp = ld.methods['safe_process_datapackage']
    facts = Facts(sp, include_nested=True)
    # datapackage branch: one loop, both appends under the same match
    loops = [n for n in ast.walk(sp.node) if isinstance(n, ast.For) and u(n.iter) == 'self.load_dp.resources']
    ok = len(loops) == 1
    if ok:
        lp = loops[0]
        conds = [n for n in lp.body if isinstance(n, ast.If)]
        ok = len(lp.body) == 1 and len(conds) == 1 and u(conds[0].test) == 'resource_matcher.match(%s.name)' % lp.target.id
        if ok:
            apps = [u(s.value) for s in conds[0].body if isinstance(s, ast.Expr)]
            ok = any(a.startswith('self.resource_descriptors.append(%s.descriptor)' % lp.target.id) for a in apps) and \
                any(a.startswith('self.iterators.append(%s.iter(' % lp.target.id) for a in apps) and not conds[0].orelse
    run.check(ok, 'SEL', sp.where, sp.qualname, 'datapackage: if match(resource.name): descriptors.append; iterators.append',
              'descriptor and iterator lists of a loaded data package are not filled under the same selection')
    # tuple branch
    dl = [n for n in ast.walk(sp.node) if isinstance(n, ast.For) and u(n.iter) == "datapackage_descriptor['resources']"]
    ok = len(dl) == 1
    pol_d = None
    if ok:
        conds = [n for n in dl[0].body if isinstance(n, ast.If)]
        ok = len(conds) == 1 and u(conds[0].test) == "resource_matcher.match(%s['name'])" % dl[0].target.id and \
            u(conds[0].body[0].value) == 'self.resource_descriptors.append(%s)' % dl[0].target.id
        pol_d = True
    run.check(ok, 'SEL', sp.where, sp.qualname, "pair: descriptors selected by match(descriptor['name'])",
              'descriptors of a (descriptor, iterators) pair are not selected by the matcher')
    # iterators: generator expression or generator function over zip(resource_iterator, resources)
    its = [v for v in facts.values_of('self.iterators') if not (isinstance(v, ast.List) and not v.elts)]
    tuple_its = [v for v in its if 'resource_iterator' in u(v)]
    if len(tuple_its) != 1:
        raise AnalysisError('load: iterator selection for the (descriptor, iterators) pair not found')
    v = tuple_its[0]
    drained = False
    sel_ok = False
    if isinstance(v, ast.GeneratorExp):
        g = v.generators[0]
        sel_ok = isinstance(g.iter, ast.Call) and u(g.iter.func) == 'zip' and \
            [pseudo(a) for a in g.iter.args] == ['resource_iterator', 'resources'] and len(g.ifs) == 1 and \
            u(g.ifs[0]) == "resource_matcher.match(%s['name'])" % g.target.elts[1].id and pseudo(v.elt) == g.target.elts[0].id
        drained = False      # a filtering generator expression cannot consume what it skips
        where_ = where(repo, v)
        construct = u(v)
    elif isinstance(v, ast.Call):
        tg = [t for t in res.resolve_call(v) if isinstance(t, FuncInfo)]
        if len(tg) != 1:
            raise AnalysisError('load: iterator selector %s not resolved' % u(v.func))
        f = tg[0]
        lp = [n for n in own_nodes(f.node) if isinstance(n, ast.For)]
        sel_ok = len(lp) == 1 and isinstance(lp[0].iter, ast.Call) and u(lp[0].iter.func) == 'zip'
        if sel_ok:
            rv, dv = [t.id for t in lp[0].target.elts]
            ffacts = Facts(f, include_nested=False)
            for p in Enumerator(where=f.qualname).body_paths(lp[0]):
                m = [pol for t, pol in p.guards() if '.match(' in u(t) and "%s['name']" % dv in u(t)]
                if len(m) != 1:
                    sel_ok = False
                    continue
                ys = [y for y in path_nodes(p) if isinstance(y, ast.Yield)]
                dr = [c for c in path_nodes(p) if isinstance(c, ast.Call) and is_drain_call(res, c) and pseudo(c.args[0]) == rv]
                if m[0]:
                    sel_ok = sel_ok and len(ys) == 1 and pseudo(ys[0].value) == rv and not dr
                else:
                    sel_ok = sel_ok and not ys
                    drained = bool(dr)
        where_ = f.where
        construct = 'selector ' + f.qualname
    else:
        raise AnalysisError('load: unrecognised iterator selection %s' % u(v))
    run.check(sel_ok, 'SEL', where_, sp.qualname, 'pair: iterators selected by the same matcher, same polarity, same order',
              'iterators of a (descriptor, iterators) pair are not selected like their descriptors')
    run.check(drained, 'R6a', where_, sp.qualname, construct,
              'an unselected iterator of a (descriptor, iterators) pair is skipped without being consumed: with a sequential source '
              '(unstream, a piped package) the selected resource then receives the skipped resource\'s rows')
    # new resources appended after the existing ones (R26 covers the stream phase)
    ext = [c for c in own_nodes(sp.node) if isinstance(c, ast.Call) and isinstance(c.func, ast.Attribute) and c.func.attr == 'extend'
           and "setdefault('resources', [])" in u(c.func.value)]
    run.check(len(ext) == 1 and pseudo(ext[0].args[0]) == 'self.resource_descriptors', 'SEL', sp.where, sp.qualname,
              "dp.descriptor.setdefault('resources', []).extend(self.resource_descriptors)", 'loaded descriptors are not appended')


def check(ctx):
    run = ctx.run
    ld = ctx.repo.cls(LOAD)
    wrappers(ctx, ld)
    row_wrappers(ctx, ld)
    headers_and_tables(ctx, ld)
    selection(ctx, ld)
    from rules import independence
    independence.r28_functions(ctx, [(LOAD + '.stripper', {}), (LOAD + '.stringer', {}), (LOAD + '.missing_values_extractor', {}),
                                     (LOAD + '.limiter', {'__kinds__': ('COUNTER',)})])
    stream.r26_append_order(ctx)
    run.trusted += ['tabulator Stream yields one keyed row per data line in file order']
    run.not_decided += ['CSV fidelity (tabulator), inference results, header renaming format on concrete names',
                        'exact limit arithmetic beyond the shape init 0 / increment after yield / break on >=']
    return ('Option-guarded wrapper installation per valuation of (extract_missing_values, strip, limit_rows); row-loop shapes of '
            'limiter / stripper / stringer / missing-value extractor; raise-or-rename signature of duplicate headers; strategy '
            'tables; equal selection of descriptors and iterators in both package-loading branches including consumption of '
            'skipped iterators.', [])
