"""C14 set_type and validate cast valid values and apply the error policy exactly (DESIGN §5 C14)."""
import ast

from rules import matchers, observers, stream
from sa.deps import Facts, names_in, pseudo
from sa.loader import AnalysisError, FuncInfo, own_nodes
from sa.model import find_resloops, resloop_signature, row_loops, rowloop_signature, stmts_after, u, where
from sa.paths import CONTINUE, FALL, RAISE, Enumerator, path_nodes
from sa.pattern import find_expr, find_stmt, has_expr, has_stmt, match_expr, match_stmt
from sa.normalize import resolve_here

SV = 'dataflows.base.schema_validator'


def validator_loop(ctx):
    run, repo = ctx.run, ctx.repo
    run.rule('VAL', 'VALIDATOR-LOOP: per row the keep-flag starts true; for every checked field the cast value is stored under the '
                    'field\'s own name; only a CastError whose handler call on_error(name, row, index, error, field) answers false '
                    'clears the flag; the row object is yielded exactly when the flag still holds')
    sv = ctx.N(repo.func(SV + ':schema_validator'))
    it_param = sv.params[1]
    outer = [n for n in own_nodes(sv.node) if isinstance(n, ast.For) and
             match_expr('enumerate(%s)' % it_param, n.iter) is not None and isinstance(n.target, ast.Tuple) and len(n.target.elts) == 2]
    if len(outer) != 1:
        raise AnalysisError('schema_validator: row loop `for i, row in enumerate(iterator)` not found')
    outer = outer[0]
    idx, row = [t.id for t in outer.target.elts]
    inner = [n for n in ast.walk(outer) if isinstance(n, ast.For) and n is not outer]
    trys = [n for n in ast.walk(outer) if isinstance(n, ast.Try)]
    ok = len(inner) == 1 and len(trys) == 1 and trys[0] in inner[0].body and isinstance(inner[0].target, ast.Name)
    run.check(ok, 'VAL', where(repo, outer), sv.qualname, 'for field in <checked fields>: try: cast except CastError',
              'the per-field cast loop is not inside the per-row loop')
    if not ok:
        return
    fld = inner[0].target.id
    t = trys[0]
    env = {'_row': row, '_f': fld}
    ok = len(t.body) == 1 and isinstance(t.body[0], ast.Assign) and isinstance(t.body[0].targets[0], ast.Subscript)
    if ok:
        # locals of the loop body (name = field.name) stand for what they were bound to
        tgt_ = ast.Subscript(value=t.body[0].targets[0].value, slice=resolve_here(t.body[0].targets[0].slice), ctx=ast.Load())
        val_ = resolve_here(t.body[0].value)
        for _ in range(2):
            val_ = resolve_here(val_)
        ok = match_expr('_row[_f.name]', tgt_, env) is not None and \
            (match_expr('_f.cast_value(_row.get(_f.name))', val_, env) is not None or
             match_expr('_f.cast_value(_row[_f.name])', val_, env) is not None)
    run.check(ok, 'VAL', where(repo, t), sv.qualname, 'row[field.name] = field.cast_value(row.get(field.name))',
              'the cast value is not stored under the name of the field it was read from')
    ok = len(t.handlers) == 1 and t.handlers[0].type is not None and u(t.handlers[0].type) == 'CastError' and t.handlers[0].name \
        and not t.orelse and not t.finalbody
    run.check(ok, 'VAL', where(repo, t), sv.qualname, 'except CastError as e', 'errors other than CastError are intercepted (or none)')
    if not ok:
        return
    hd = t.handlers[0]
    e = hd.name
    # the flag: a name bound to a boolean constant before the field loop, changed (to the other constant) in the handler exactly when
    # the policy answers false, and tested after the field loop: the row is yielded exactly when the flag still has its first value.
    # Decided on the paths of the two loop bodies, so the polarity of the flag and the spelling of the tests do not matter.
    from sa.model import norm_guard as _ngv
    from sa.pathvals import PathValues as _PVv
    pos_inner = outer.body.index(inner[0]) if inner[0] in outer.body else -1
    inits = {}
    for st_ in outer.body[:max(pos_inner, 0)]:
        if isinstance(st_, ast.Assign) and len(st_.targets) == 1 and isinstance(st_.targets[0], ast.Name) and \
                isinstance(st_.value, ast.Constant) and isinstance(st_.value.value, bool):
            inits[st_.targets[0].id] = st_.value.value
    changed = {pseudo(a_.targets[0]) for a_ in ast.walk(hd) if isinstance(a_, ast.Assign)} & set(inits)
    flag = changed.pop() if len(changed) == 1 else None
    ok = flag is not None and pos_inner >= 0
    hname = None
    okh = ok
    if ok:
        first = inits[flag]
        # (1) the field loop: the flag changes only in the handler, only when the policy's answer is false
        asked = 0
        for p_ in Enumerator(where=sv.qualname).body_paths(inner[0]):
            pv_ = _PVv(p_)
            in_handler = any(it_.kind == 'handler' for it_ in p_.items)
            stores_ = [ev_[2] for ev_ in pv_.events if ev_[0] == 'assign' and ev_[1] == flag]
            okh = okh and p_.term in (FALL, CONTINUE)
            if not in_handler:
                okh = okh and not stores_
                continue
            ans = []
            for t_, pol_ in pv_.guards:
                t_, pol_ = _ngv(t_, pol_)
                b_ = match_expr('_h(__NAME, _row, _i, _e, _f)', t_, {'_row': row, '_i': idx, '_e': e, '_f': fld})
                if b_ is not None and "['name']" in u(b_['__NAME']):
                    ans.append((b_['_h'], pol_))
            if len(ans) != 1:
                okh = False
                continue
            asked += 1
            hname = ans[0][0]
            if ans[0][1]:
                okh = okh and not stores_
            else:
                okh = okh and len(stores_) == 1 and isinstance(stores_[0], ast.Constant) and stores_[0].value is (not first)
        okh = okh and asked == 2
        # nothing else leaves the handler
        okh = okh and not [x for x in ast.walk(hd) if isinstance(x, (ast.Break, ast.Return, ast.Raise))]
        # (2) the row loop: after the field loop the flag is tested; yield row exactly when it still has its first value
        seen_ = set()
        for p_ in Enumerator(where=sv.qualname).body_paths(outer):
            items_ = p_.items
            li_ = [i_ for i_, it_ in enumerate(items_) if it_.kind == 'loop' and it_.node is inner[0]]
            if len(li_) != 1 or p_.term not in (FALL, CONTINUE):
                ok = False
                continue
            before_ = [y_ for it_ in items_[:li_[0]] if isinstance(it_.node, ast.AST) and it_.kind != 'guard' for y_ in ast.walk(it_.node)
                       if isinstance(y_, (ast.Yield, ast.YieldFrom))]
            after_ = items_[li_[0] + 1:]
            tests_ = [(t_, pol_) for t_, pol_ in [_ngv(it_.node, it_.pol) for it_ in after_ if it_.kind == 'guard'] if pseudo(t_) == flag]
            ys_ = [y_ for it_ in after_ if it_.kind not in ('guard', 'loop') and isinstance(it_.node, ast.AST) for y_ in ast.walk(it_.node)
                   if isinstance(y_, (ast.Yield, ast.YieldFrom))]
            later_flag = [it_ for it_ in after_ if it_.kind == 'stmt' and isinstance(it_.node, ast.Assign) and pseudo(it_.node.targets[0]) == flag]
            if before_ or len(tests_) != 1 or later_flag or any(it_.kind == 'loop' for it_ in after_):
                ok = False
                continue
            holds = tests_[0][1] == first          # the flag still has its first value on this path
            seen_.add(holds)
            if holds:
                ok = ok and len(ys_) == 1 and isinstance(ys_[0], ast.Yield) and pseudo(ys_[0].value) == row
            else:
                ok = ok and not ys_
        ok = ok and seen_ == {True, False}
    run.check(ok, 'VAL', where(repo, outer), sv.qualname, 'if <flag>: yield row (after all fields)',
              'rows are dropped / emitted on a condition other than "no handler said drop"')
    run.check(okh, 'VAL', where(repo, hd), sv.qualname, 'if not on_error(resource[name], row, i, e, field): <flag> = False',
              'the row is rejected (or kept) on a condition other than the handler\'s answer, or the handler does not receive '
              '(name, row, index, error, field)')
    exits = [n for n in ast.walk(outer) if isinstance(n, (ast.Break, ast.Return))] + \
        [n for n in ast.walk(inner[0]) if isinstance(n, ast.Continue) and n is not inner[0].body[-1]]
    run.check(not exits, 'VAL', where(repo, outer), sv.qualname, 'no break / return in the validator loop, no continue in the field loop',
              'the validator leaves a row or the stream early')
    fn = find_stmt('if _fn is None:\n    _fn = [_x.name for _x in _s.fields]', sv.node)
    sf = find_stmt('_sf = [_x for _x in _s.fields if _x.name in _fn]', sv.node)
    ok = len(fn) == 1 and len(sf) == 1 and sf[0][1]['_fn'] == fn[0][1]['_fn'] and pseudo(inner[0].iter) == sf[0][1]['_sf'] and \
        fn[0][1]['_fn'] == sv.params[2]
    run.check(ok, 'VAL', sv.where, sv.qualname, 'checked fields = schema fields whose name is requested (default: all)',
              'the set of checked fields is not exactly the requested fields')
    # the handler that is asked: wrap_handler(<the on_error argument, raise_exception when it is None>), bound before the loop
    pol_p = sv.params[3] if len(sv.params) > 3 else 'on_error'
    ok = hname == pol_p and has_stmt('if %s is None:\n    %s = raise_exception' % (pol_p, pol_p), sv.node) and \
        has_stmt('%s = wrap_handler(%s)' % (pol_p, pol_p), sv.node)
    if not ok and hname:
        binds_ = [a_.value for a_ in own_nodes(sv.node) if isinstance(a_, ast.Assign) and pseudo(a_.targets[0]) == hname]
        if len(binds_) == 1:
            b_ = match_expr('wrap_handler(__H)', binds_[0])
            h_ = b_['__H'] if b_ is not None else None
            if isinstance(h_, ast.IfExp):
                from sa.model import norm_compare as _ncv
                t_, p_ = _ncv(h_.test, True)
                if match_expr('%s is None' % pol_p, t_) is not None:
                    dflt_, given_ = (h_.body, h_.orelse) if p_ else (h_.orelse, h_.body)
                    ok = u(dflt_) == 'raise_exception' and u(given_) == pol_p
            elif h_ is not None and u(h_) == pol_p:
                ok = has_stmt('if %s is None:\n    %s = raise_exception' % (pol_p, pol_p), sv.node)
    run.check(ok, 'VAL', sv.where, sv.qualname, 'default policy raise; handler wrapped', 'the default policy is not raise')


def policy_table(ctx):
    run, repo = ctx.run, ctx.repo
    run.rule('POL', 'POLICY-TABLE: raise -> ValidationError(name, row, index, error) keeping row and index; ignore -> True; drop -> False; '
                    'clear -> null exactly the offending field then True (False without a field); handlers with fewer than five '
                    'parameters are adapted, others passed through')
    def only_return(fn, value):
        f = repo.func(SV + ':' + fn)
        body = [s for s in f.node.body if not (isinstance(s, ast.Expr) and isinstance(s.value, ast.Constant))]
        ok = len(body) == 1 and isinstance(body[0], ast.Return) and isinstance(body[0].value, ast.Constant) and body[0].value.value is value
        run.check(ok, 'POL', f.where, f.qualname, 'return %s' % value, '%s does not answer %s' % (fn, value))
    only_return('ignore', True)
    only_return('drop', False)
    f = repo.func(SV + ':raise_exception')
    body = f.node.body
    ok = len(body) == 1 and isinstance(body[0], ast.Raise) and isinstance(body[0].exc, ast.Call) and \
        u(body[0].exc.func) == 'ValidationError' and [pseudo(a) for a in body[0].exc.args] == f.params[:4] and len(f.params) == 4
    run.check(ok, 'POL', f.where, f.qualname, 'raise ValidationError(res_name, row, i, e)',
              'the raise policy does not raise ValidationError carrying (name, row, index, error)')
    ve = repo.cls(SV + ':ValidationError')
    init = ve.methods['__init__']
    ps = init.params
    want = {'self.resource_name': ps[1], 'self.row': ps[2], 'self.index': ps[3], 'self.cast_error': ps[4]}
    got = {pseudo(n.targets[0]): pseudo(n.value) for n in own_nodes(init.node) if isinstance(n, ast.Assign)}
    run.check(all(got.get(k) == v for k, v in want.items()), 'POL', init.where, init.qualname, 'row -> .row, index -> .index',
              'ValidationError does not keep the offending row and its index')
    c = repo.func(SV + ':clear')
    paths = Enumerator(where=c.qualname).paths(c.node.body)
    okc = len(paths) == 2
    for p in paths:
        g = p.guards()
        rets = [it.node for it in p.items if it.kind == 'return']
        notnone = g and ((g[0][1] and u(g[0][0]) == 'field is not None') or (not g[0][1] and u(g[0][0]) == 'field is None'))
        stores = [n for n in path_nodes(p) if isinstance(n, ast.Assign)]
        if notnone:
            okc = okc and len(stores) == 1 and u(stores[0].targets[0]) == 'row[field.name]' and \
                isinstance(stores[0].value, ast.Constant) and stores[0].value.value is None and \
                len(rets) == 1 and isinstance(rets[0].value, ast.Constant) and rets[0].value.value is True
        else:
            okc = okc and not stores and len(rets) == 1 and isinstance(rets[0].value, ast.Constant) and rets[0].value.value is False
    run.check(okc, 'POL', c.where, c.qualname, 'field given: row[field.name] = None; True / no field: False',
              'clear does not null exactly the offending field')
    w = repo.func(SV + ':wrap_handler')
    inner = [f for f in repo.functions.values() if f.parent is w and not isinstance(f.node, ast.Lambda)]
    ok = len(inner) == 1 and len(inner[0].params) == 5
    if ok:
        # decided on the paths through wrap_handler: what is returned where the handler has more than four parameters, and where not
        from sa.pathvals import PathValues as _PVw
        from sa.paths import Enumerator as _Enw
        from sa.model import norm_compare as _ncw
        pats = ['len(list(signature(_h).parameters)) > 4', 'len(signature(_h).parameters) > 4',
                'len(list(signature(_h).parameters)) >= 5', 'len(signature(_h).parameters) >= 5']
        seen_w = set()
        for p_ in _Enw(where=w.qualname).paths(ctx.N(w).node.body):
            if p_.term == 'raise':
                continue
            pv_ = _PVw(p_)
            many = None
            for t_, pol_ in pv_.guards:
                t_, pol_ = _ncw(t_, pol_)
                if any(match_expr(x_, t_, {'_h': w.params[0]}) is not None for x_ in pats):
                    many = pol_
                elif any(match_expr(x_.replace('> 4', '<= 4').replace('>= 5', '< 5'), t_, {'_h': w.params[0]}) is not None for x_ in pats):
                    many = not pol_
            if many is None or len(pv_.returns) != 1:
                ok = False
                continue
            seen_w.add(many)
            ok = ok and pseudo(pv_.returns[0]) == (w.params[0] if many else inner[0].name)
        ok = ok and seen_w == {True, False}
        r = [n for n in own_nodes(inner[0].node) if isinstance(n, ast.Return)]
        ok = ok and len(r) == 1 and isinstance(r[0].value, ast.Call) and pseudo(r[0].value.func) == w.params[0] and \
            [pseudo(a) for a in r[0].value.args] == inner[0].params[:4]
    run.check(ok, 'POL', w.where, w.qualname, '5-parameter handlers passed through, shorter ones adapted in order',
              'custom handlers do not receive their arguments in the documented order')


def set_type_validate(ctx):
    run, repo, res = ctx.run, ctx.repo, ctx.res
    run.rule('R20', 'OPTION-FLOW: set_type hands on_error and exactly the matched field names to the validator, merges its options into '
                    'exactly the fields its anchored pattern matches in selected resources, and transforms before casting; validate '
                    'uses the one wrapped handler for both validator kinds')
    st = repo.cls('dataflows.processors.set_type:set_type')
    pr = st.methods['process_resources']
    pd = st.methods['process_datapackage']
    from sa.pathvals import PathValues
    from sa.model import norm_compare
    from sa.paths import Enumerator as _En
    prn = ctx.N(pr)
    rloops = [l for l in own_nodes(prn.node) if isinstance(l, ast.For) and pseudo(l.iter) == prn.params[1] and isinstance(l.target, ast.Name)]
    if len(rloops) != 1:
        raise AnalysisError('set_type.process_resources: resource loop not found')
    rv = rloops[0].target.id
    ok_pol = ok_names = ok_tr = True
    seen_tr = set()
    n_val = 0
    from sa.model import infeasible_by_values
    for p_ in _En(where=prn.qualname).body_paths(rloops[0]):
        if infeasible_by_values(p_):
            continue        # names = [] ... if names: - a path that cannot be taken
        pv = PathValues(p_)
        ys = []
        for it_ in p_.items:
            if it_.kind == 'stmt' and isinstance(it_.node, ast.Expr) and isinstance(it_.node.value, ast.Yield):
                ys.append(it_.node.value)
        # the yielded value with the values known on this path
        from sa.pathvals import subst
        vals = [subst(y.value, pv.env) for y in ys]
        for v in vals:
            if not (isinstance(v, ast.Call) and u(v.func) == 'schema_validator'):
                continue
            n_val += 1
            kw = {k.arg: k.value for k in v.keywords}
            fn = kw.get('field_names')
            ok_pol = ok_pol and kw.get('on_error') is not None and u(kw['on_error']) == 'self.on_error' and len(v.args) == 2 and \
                match_expr('%s.res' % rv, v.args[0]) is not None
            ok_names = ok_names and fn is not None and (match_expr('self.field_names.get(%s.res.name, [])' % rv, fn) is not None or
                                                        match_expr('self.field_names[%s.res.name]' % rv, fn) is not None)
            has_tr = None
            for t, pol in pv.guards:
                t, pol = norm_compare(t, pol)
                if match_expr('self.transform is None', t) is not None:
                    has_tr = not pol
                elif pseudo(t) == 'self.transform':
                    has_tr = pol
            rows_ = v.args[1] if len(v.args) > 1 else None
            if has_tr is None or rows_ is None:
                ok_tr = False
            elif has_tr:
                e_ = match_expr('self.transformer(%s, __FN)' % rv, rows_)
                ok_tr = ok_tr and e_ is not None and fn is not None and u(e_['__FN']) == u(fn)
            else:
                ok_tr = ok_tr and u(rows_) == rv
            seen_tr.add(has_tr)
    run.check(n_val >= 1 and ok_pol, 'R20', pr.where, pr.qualname, 'schema_validator(res.res, it, field_names=field_names, on_error=self.on_error)',
              'the validator does not get the configured policy and the matched field names')
    run.check(n_val >= 1 and ok_names, 'R20', pr.where,
              pr.qualname, 'field_names = self.field_names.get(<this resource>)', 'field names of another resource are checked')
    # transform precedes cast: the iterator handed to the validator is the transformer's output when a transform exists
    run.check(n_val >= 1 and ok_tr and seen_tr == {True, False}, 'R20', pr.where, pr.qualname,
              'if self.transform is not None: it = self.transformer(it, field_names)',
              'the transform is not applied to the rows before they are cast')
    tf = st.methods['transformer']
    loop, var, _ = observers.single_row_loop(ctx, tf, 'rows')
    ok = False
    for st_ in ast.walk(loop):
        if isinstance(st_, ast.Assign) and isinstance(st_.targets[0], ast.Subscript) and pseudo(st_.targets[0].value) == var:
            val_ = resolve_here(st_.value)
            key_ = pseudo(st_.targets[0].slice)
            if key_ and (match_expr('self.transform(%s.get(%s), field_name=%s, row=%s)' % (var, key_, key_, var), val_) is not None or
                         match_expr('self.transform(%s[%s], field_name=%s, row=%s)' % (var, key_, key_, var), val_) is not None):
                ok = True
    sig = rowloop_signature(tf, loop, var)
    ok = ok and all([k for k, _ in s.yields] == ['identity'] and s.term == FALL for s in sig)
    run.check(ok, 'R20', tf.where, tf.qualname, 'row[f] = transform(row.get(f), field_name=f, row=row); yield row',
              'the transformer does not replace exactly the selected fields of each row')
    # package phase: options merged under MATCH and name pattern; field name recorded for that resource
    pdn = ctx.N(pd)
    ok = False
    outer_l = [l for l in ast.walk(pdn.node) if isinstance(l, ast.For) and isinstance(l.target, ast.Name) and "['resources']" in u(l.iter)]
    if len(outer_l) == 1:
        rvar = outer_l[0].target.id
        inner_l = [l for l in ast.walk(outer_l[0]) if isinstance(l, ast.For) and l is not outer_l[0] and isinstance(l.target, ast.Name)
                   and match_expr("%s['schema']['fields']" % rvar, l.iter) is not None]
        if len(inner_l) == 1:
            fvar = inner_l[0].target.id
            ok = True
            seen = set()
            for p_ in _En(where=pdn.qualname).body_paths(inner_l[0]):
                hit = None
                for t, pol in p_.guards():
                    t, pol = norm_compare(t, pol)
                    if match_expr("self.name.match(%s['name'])" % fvar, t) is not None:
                        hit = pol
                nodes = list(path_nodes(p_))
                upd = [c for c in nodes if match_expr('%s.update(self.options)' % fvar, c) is not None]
                def _rh2(e_):
                    return stream.subst_once(pdn.node, e_)
                rec = [c for c in nodes if isinstance(c, ast.Call) and isinstance(c.func, ast.Attribute) and c.func.attr == 'append' and
                       match_expr("self.field_names.setdefault(%s['name'], []).append(%s['name'])" % (rvar, fvar), _rh2(c)) is not None]
                other_upd = [c for c in nodes if isinstance(c, ast.Call) and isinstance(c.func, ast.Attribute) and c.func.attr == 'update'
                             and c not in upd]
                if hit is None:
                    ok = False
                elif hit:
                    ok = ok and len(upd) == 1 and len(rec) == 1 and not other_upd
                else:
                    ok = ok and not upd and not rec and not other_upd
                seen.add(hit)
            ok = ok and seen == {True, False}
            # the field loop runs only for selected resources
            sel = False
            for p_ in _En(where=pdn.qualname).body_paths(outer_l[0]):
                reaches = any(it_.kind == 'loop' and it_.node is inner_l[0] for it_ in p_.items)
                from sa.pathvals import PathValues as _PVm
                m_ = [pol for t, pol in [norm_compare(t_, pol_) for t_, pol_ in _PVm(p_).guards]
                      if match_expr("self.matcher.match(%s['name'])" % rvar, t) is not None]
                if reaches:
                    sel = bool(m_) and all(m_)
                    ok = ok and sel
            ok = ok and sel
    run.check(ok, 'R20', pd.where, pd.qualname, "if self.name.match(field['name']): field.update(options); record name for this resource",
              'options are merged into fields other than those whose name the pattern matches, or the names handed to the validator differ')
    init0 = st.methods['__init__']
    init = ctx.N(init0)             # (the pattern may be built by a helper)
    from rules.matchers import _parts, anchored, ungrouped_regex_parts
    from sa.deps import Facts as _Facts
    comp_ = [a_.value for a_ in ast.walk(init.node) if isinstance(a_, ast.Assign) and pseudo(a_.targets[0]) == 'self.name'
             and isinstance(a_.value, ast.Call) and u(a_.value.func) == 're.compile' and a_.value.args]
    full_ = False
    if len(comp_) == 1 and len(comp_[0].args) == 1 and not comp_[0].keywords:
        parts_ = _parts(ctx, comp_[0].args[0], init, _Facts(init, include_nested=False))
        full_ = anchored(parts_) and not ungrouped_regex_parts(parts_)
    # what goes between the anchors: the name as given when regex is on, re.escape(name) when it is off - decided on the paths through
    # the constructor, on the value self.name has at the end of each
    from sa.pathvals import PathValues as _PVi
    from sa.model import norm_guard as _ngi
    namep = init.params[1] if len(init.params) > 1 else 'name'
    esc_ok, seen_rx = True, set()
    for p_ in _En(where=init0.qualname).paths(init.node.body):
        if p_.term == 'raise':
            continue
        pv_ = _PVi(p_)
        rx = [pol_ for t_, pol_ in [_ngi(t0_, p0_) for t0_, p0_ in pv_.guards] if pseudo(t_) == 'regex']
        val_ = pv_.env.get('self.name')
        if val_ is None or not rx or len(set(rx)) != 1:
            esc_ok = False
            continue
        seen_rx.add(rx[0])
        txt_ = u(val_)
        escaped = 're.escape(%s)' % namep in txt_
        raw = namep in {n_.id for n_ in ast.walk(val_) if isinstance(n_, ast.Name)} and not escaped
        esc_ok = esc_ok and (raw if rx[0] else escaped)
    esc_ok = esc_ok and seen_rx == {True, False}
    run.check(full_ and esc_ok,
              'R20', init.where, init.qualname, 'anchored pattern; re.escape when regex is off', 'the field-name pattern is not a full-string pattern')
    run.check(has_stmt('self.on_error = on_error', init.node) and has_stmt('self.options = options', init.node), 'R20', init.where, init.qualname,
              'on_error / options stored', 'set_type loses its on_error or options')
    # validate
    va = repo.cls('dataflows.processors.validate:validate')
    vi = va.methods['__init__']
    # on every path self.on_error = wrap_handler(<raise_exception where on_error is None, on_error otherwise>), whatever the spelling
    from sa.pathvals import PathValues as _PVv
    vin = ctx.N(vi)
    okv, kinds_v = True, set()
    for p_ in Enumerator(where=vi.qualname).paths(vin.node.body):
        pv_ = _PVv(p_)
        sets_ = [c_ for o_, c_ in pv_.stmts if isinstance(c_, ast.Assign) and pseudo(o_.targets[0]) == 'self.on_error']
        sets_ += [ast.Assign(targets=[ast.Name(id='_', ctx=ast.Store())], value=pv_.env['self.on_error'])] if 'self.on_error' in pv_.env else []
        if len(sets_) != 1:
            okv = False
            continue
        v_ = sets_[0].value
        b_ = match_expr('wrap_handler(__H)', v_)
        if b_ is None:
            okv = False
            continue
        none_ = None
        for t_, pol_ in pv_.guards:
            t_, pol_ = norm_compare(t_, pol_)
            if match_expr('on_error is None', t_) is not None:
                none_ = pol_
        h_ = b_['__H']
        cases_ = [(none_, h_)]
        if isinstance(h_, ast.IfExp):
            t_, pol_ = norm_compare(h_.test, True)
            if match_expr('on_error is None', t_) is not None:
                cases_ = [(pol_, h_.body), (not pol_, h_.orelse)]
        for is_none, e_ in cases_:
            if is_none is True:
                okv = okv and u(e_) == 'raise_exception'
            elif is_none is False:
                okv = okv and u(e_) == 'on_error'
            else:
                okv = False
            kinds_v.add(is_none)
    run.check(okv and kinds_v == {True, False}, 'R20', vi.where, vi.qualname, 'default raise, wrapped once',
              'validate does not default to raise / wrap the handler')
    va_cls = repo.cls('dataflows.processors.validate:validate')
    rv_outer = va_cls.methods['rows_validator']
    rvs = [f for f in repo.functions.values() if f.parent is rv_outer and f.is_generator]
    if len(rvs) != 1:
        raise AnalysisError('validate.rows_validator: inner generator not found')
    rv = ctx.N(rvs[0])
    loops = [n for n in own_nodes(rv.node) if isinstance(n, ast.For) and isinstance(n.target, ast.Tuple) and len(n.target.elts) == 2]
    if len(loops) != 1:
        raise AnalysisError('validate.rows_validator: row loop not found')
    loop = loops[0]
    idx, var = [t.id for t in loop.target.elts]
    sigs = rowloop_signature(rv, loop, var)
    from sa.model import truth_table

    def atom(t):
        if isinstance(t, ast.Call) and pseudo(t.func) == rv_outer.params[1] and [pseudo(a) for a in t.args] == [var]:
            return 'VALID'
        if isinstance(t, ast.Call) and pseudo(t.func) == 'self.on_error':
            return 'KEEP'
        return None
    names, tt = truth_table(sigs, atom, lambda s_: tuple(k for k, _ in s_.yields))
    want = {(True, True): ('identity',), (True, False): ('identity',), (False, True): ('identity',), (False, False): ()}
    okv = set(names) == {'VALID', 'KEEP'}
    for val, outs in tt.items():
        d_ = dict(val)
        okv = okv and outs == {want[(d_.get('VALID'), d_.get('KEEP'))]}
    okv = okv and len(tt) == 4
    # the handler gets (resource name, row, index, None, None) and is only consulted for invalid rows
    hc = [c for c in ast.walk(loop) if isinstance(c, ast.Call) and pseudo(c.func) == 'self.on_error']
    okv = okv and len(hc) == 1 and len(hc[0].args) == 5 and [u(a) for a in hc[0].args[1:]] == [var, idx, 'None', 'None'] and \
        'name' in u(resolve_here(hc[0].args[0])) + u(hc[0].args[0])
    run.check(okv, 'R20', rv.where, rv.qualname,
              'valid -> yield; invalid -> yield iff on_error(res_name, row, i, None, None)',
              'custom validators do not keep valid rows and route invalid ones through the policy', detail=str(sorted(tt.items())))
    vs_outer = va_cls.methods['validate_with_schema']
    vss = [f for f in repo.functions.values() if f.parent is vs_outer and f.is_generator]
    okvs = len(vss) == 1
    if okvs:
        from sa.normalize import call_idioms as _ci14
        vs = _ci14(ctx, ctx.N(vss[0]))          # (keyword arguments collected in a dict and passed with **)
        yf = [y for y in ast.walk(vs.node) if isinstance(y, ast.YieldFrom)]
        okvs = len(yf) == 1 and match_expr('schema_validator(_r.res, _r, on_error=self.on_error)', resolve_here(yf[0].value),
                                           {'_r': vs.params[0]}) is not None
    run.check(okvs, 'R20', vs_outer.where, vs_outer.qualname,
              'yield from schema_validator(res.res, res, on_error=self.on_error)', 'schema validation does not use the configured policy')
    # what row_validator hands out: a function of the row that applies the field validator to that row's value of the field -
    # a closure, or functools.partial over a module-level function
    rvm = va_cls.methods['row_validator']
    fpar, vpar = rvm.params[1], rvm.params[2]
    rets_ = [r_.value for r_ in own_nodes(rvm.node) if isinstance(r_, ast.Return) and r_.value is not None]
    okrv = len(rets_) == 1
    if okrv:
        rv_ = rets_[0]
        lam = None
        if isinstance(rv_, ast.Name):
            inner_ = [f for f in repo.functions.values() if f.parent is rvm and not isinstance(f.node, ast.Lambda) and f.node.name == rv_.id]
            if len(inner_) == 1 and len(inner_[0].params) == 1:
                from sa.pathvals import returned_values as _rvs
                vals_ = _rvs(inner_[0].node, inner_[0].qualname)          # (temporaries read through)
                if len(vals_) == 1:
                    lam = (inner_[0].params[0], vals_[0])
        else:
            from rules import tables as _tables
            lam = _tables.as_lambda(ctx, rvm.module.name, rv_)
        okrv = lam is not None and (match_expr('%s(%s.get(%s))' % (vpar, lam[0], fpar), lam[1]) is not None or
                                    match_expr('%s(%s[%s])' % (vpar, lam[0], fpar), lam[1]) is not None)
    run.check(okrv, 'R20', rvm.where, rvm.qualname, 'field validator applied to row.get(field)',
              'the field validator is applied to another value')


def check(ctx):
    run = ctx.run
    validator_loop(ctx)
    policy_table(ctx)
    set_type_validate(ctx)
    from rules import independence
    independence.r28_functions(ctx, [(SV + ':schema_validator', {}), ('dataflows.processors.set_type:set_type.transformer', {}),
                                     ] + [(f.qualname, {}) for f in ctx.repo.functions.values()
                                          if f.parent is ctx.repo.cls('dataflows.processors.validate:validate').methods['rows_validator'] and f.is_generator])
    matchers.r9_anchored(ctx, {'dataflows.processors.set_type'}, floor=1)
    funcs = [ctx.repo.cls('dataflows.processors.set_type:set_type').methods['process_datapackage']]
    stream.r7_guard_dominance(ctx, funcs)
    va = ctx.repo.cls('dataflows.processors.validate:validate').methods['process_resource']
    stream.r6_identity_rows(ctx, [(va, va.params[1])])
    matchers.r10_arity(ctx, {'dataflows.processors.validate', 'dataflows.processors.set_type', 'dataflows.base.schema_validator'})
    run.trusted += ['LF8 tableschema Field.cast_value raises CastError for uncastable values and returns the native value otherwise']
    run.not_decided += ['that Table Schema\'s cast is what it should be', 'user transform / handler / validator callables']
    return ('The validator loop is checked for the exact control dependence of the yield on the handler\'s answers and for the '
            'field-name consistency of the cast store; the four predefined policies and the arity adapter are checked against '
            'their definitions; option flow of set_type and validate into the validator is checked by def-use.', ['LF8'])
