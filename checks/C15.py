"""C15 Field-level processors change schema and rows in lockstep (DESIGN §5 C15).

All shape clauses work on normalised functions (module-local helpers inlined, canonical spellings) and compare expressions after
resolving local temporaries, so that renaming, extracting a helper, introducing a temporary or flipping an if/else is not reported."""
import ast

from rules import abstypes, coupling, matchers, observers, stream
from sa.deps import Facts, base_name, names_in, pseudo
from sa.loader import AnalysisError, FuncInfo, own_nodes
from sa.model import block_of, matcher_names, row_loops, rowloop_signature, u, where
from sa.normalize import resolve_here
from sa.paths import FALL, RAISE, Enumerator, path_nodes
from sa.pattern import find_expr, find_stmt, has_expr, has_stmt, match_expr, match_stmt

STEPS = ['select_fields', 'delete_fields', 'rename_fields', 'add_computed_field', 'find_replace']
P = 'dataflows.processors.'


def factory(ctx, name):
    return ctx.repo.func('%s%s:%s' % (P, name, name))


def step_of(ctx, name):
    """The package step returned by the factory `name` (found by role: the nested generator taking `package`)."""
    fac = factory(ctx, name)
    cands = [f for f in ctx.repo.functions.values() if f.parent is fac and f.all_params == ['package'] and f.is_generator]
    if len(cands) != 1:
        raise AnalysisError('%s: package step not found' % fac.qualname)
    return cands[0]


def wrapper_of(ctx, name):
    """The row wrapper a step hands its matched resources to (found by role: the callee of the wrap-yield on the MATCH path)."""
    from sa.model import find_resloops, resloop_signature
    st = step_of(ctx, name)
    for rl in find_resloops(ctx.repo, ctx.res, st, ['package']):
        if rl.kind != 'for':
            continue
        sigs, _ = resloop_signature(ctx.repo, ctx.res, rl)
        for s in sigs:
            if s.atoms.get(('MATCH',)) is True:
                for k, y in s.yields:
                    if k == 'wrap' and isinstance(y.value, ast.Call):
                        tg = [t for t in ctx.res.resolve_call(y.value) if isinstance(t, FuncInfo)]
                        if len(tg) == 1:
                            idx = [i for i, a in enumerate(y.value.args) if pseudo(a) == rl.var]
                            return tg[0], (idx[0] if idx else 0)
    raise AnalysisError('%s: row wrapper not found' % st.qualname)


def yielded_row_expr(ctx, w, idx=0):
    """(loop, row var, resolved expression of what the wrapper yields per row) on the normalised wrapper."""
    nw = ctx.N(w)
    rls = row_loops(nw, streams=[nw.params[idx]])
    if len(rls) != 1:
        raise AnalysisError('%s: expected exactly one row loop' % w.qualname)
    loop, var, src = rls[0]
    ys = [y for y in ast.walk(loop) if isinstance(y, ast.Yield)]
    if len(ys) != 1 or ys[0].value is None:
        return nw, loop, var, None
    return nw, loop, var, resolve_here(ys[0].value)


def row_rebuilds(ctx):
    run, repo = ctx.run, ctx.repo
    run.rule('ROWS', 'ROW-REBUILD: select/delete keep exactly the (key, value) pairs of the incoming row whose key is in the configured '
                     'name set, values untouched; rename maps each key through the rename map, defaulting to the key itself, values '
                     'untouched; every row is yielded exactly once')
    for name in ('select_fields', 'delete_fields'):
        w, i_ = wrapper_of(ctx, name)
        nw, loop, var, e = yielded_row_expr(ctx, w, i_)
        ok = e is not None and (match_expr('{_k: _v for (_k, _v) in _row.items() if _k in __CFG}', e) is not None)
        if ok:
            b = match_expr('{_k: _v for (_k, _v) in _row.items() if _k in __CFG}', e)
            ok = b['_row'] == var
        run.check(ok, 'ROWS', w.where, w.qualname, 'yield {k: v for k, v in row.items() if k in <configured names>}',
                  'the rebuilt row does not carry exactly the kept (key, value) pairs of the incoming row: found %s'
                  % (u(e) if e is not None else 'no single yield'))
    w, i_ = wrapper_of(ctx, 'rename_fields')
    nw, loop, var, e = yielded_row_expr(ctx, w, i_)
    b = match_expr('{__M.get(_k, _k): _v for (_k, _v) in _row.items()}', e) if e is not None else None
    run.check(b is not None and b['_row'] == var, 'ROWS', w.where, w.qualname, 'yield {renames.get(k, k): v for k, v in row.items()}',
              'the renamed row is not built by mapping every key through the rename map (default: the key itself) with the value '
              'untouched: found %s' % (u(e) if e is not None else 'no single yield'))


def field_order(ctx):
    run, repo = ctx.run, ctx.repo
    run.rule('ORD', 'FIELD-ORDER: select_fields fills the new field list with the user selection as the outer loop (selection order) and '
                    'takes each schema field at most once; delete_fields keeps the surviving fields in schema order; rename_fields '
                    'renames the schema field in place with the same (old, new) pair it records for the rows; add_computed_field appends')
    # --- select_fields
    st = ctx.N(step_of(ctx, 'select_fields'))
    fac = factory(ctx, 'select_fields')
    user_sel = fac.params[0]
    stores = [n for n in ast.walk(st.node) if isinstance(n, ast.Assign) and isinstance(n.targets[0], ast.Subscript)
              and u(n.targets[0]).endswith("['fields']") and isinstance(n.value, ast.Name)]
    if len(stores) != 1:
        raise AnalysisError('select_fields: store of the new field list not found')
    lst = stores[0].value.id
    apps = [c for c in ast.walk(st.node) if isinstance(c, ast.Call) and isinstance(c.func, ast.Attribute)
            and c.func.attr in ('append', 'extend', 'insert') and pseudo(c.func.value) == lst]
    ok = len(apps) == 1 and apps[0].func.attr == 'append'
    once = False
    if ok:
        a = apps[0]
        fors = []
        p = a
        while getattr(p, '_parent', None) is not None and p is not st.node:
            p = p._parent
            if isinstance(p, ast.For):
                fors.append(p)
        # innermost first: some loop over the user's selection encloses a loop over the schema's fields
        sel_idx = [i for i, l in enumerate(fors) if pseudo(l.iter) == user_sel]
        ok = bool(sel_idx) and sel_idx[0] >= 1
        # at most once: the appended field is removed from the candidate pool, or guarded by a not-yet-taken test
        arg = resolve_here(a.args[0])
        blk = block_of(a._parent) or []
        txt = ' '.join(u(s) for s in blk)
        once = (isinstance(arg, ast.Call) and isinstance(arg.func, ast.Attribute) and arg.func.attr == 'pop') or \
            '.remove(' in txt or 'del ' in txt or any(isinstance(x, ast.Compare) and isinstance(x.ops[0], ast.NotIn)
                                                      for l in fors[:1] for x in ast.walk(l))
    run.check(ok, 'ORD', st.where, st.qualname, 'for selected in <selection>: for name in <schema names>: new_fields.append(...)',
              'select_fields does not emit the fields in selection order')
    run.check(once, 'ORD', st.where, st.qualname, 'a selected field leaves the candidate pool (pop / remove / not-in guard)',
              'a field matched by two selection patterns is put into the schema twice while each row carries it once')
    # --- delete_fields
    st = ctx.N(step_of(ctx, 'delete_fields'))
    stores = [n for n in ast.walk(st.node) if isinstance(n, ast.Assign) and isinstance(n.targets[0], ast.Subscript)
              and u(n.targets[0]).endswith("['fields']") and isinstance(n.value, ast.Name)]
    if len(stores) != 1:
        raise AnalysisError('delete_fields: store of the new field list not found')
    lst = stores[0].value.id
    apps = [c for c in ast.walk(st.node) if isinstance(c, ast.Call) and isinstance(c.func, ast.Attribute)
            and c.func.attr in ('append', 'extend', 'insert') and pseudo(c.func.value) == lst]
    comp = [n.value for n in ast.walk(st.node) if isinstance(n, ast.Assign) and pseudo(n.targets[0]) == lst
            and isinstance(n.value, ast.ListComp)]
    ok = False
    if len(apps) == 1 and apps[0].func.attr == 'append':
        a = apps[0]
        p = a
        first_for = None
        fors = []
        while getattr(p, '_parent', None) is not None and p is not st.node:
            p = p._parent
            if isinstance(p, ast.For):
                fors.append(p)
        # the appended object is the loop variable of a loop over the schema's own field list
        for l in fors:
            if isinstance(l.target, ast.Name) and pseudo(a.args[0]) == l.target.id:
                src = resolve_here(l.iter)
                ok = "'fields'" in u(src) and not (isinstance(src, ast.Call) and u(src.func) in ('sorted', 'reversed'))
    elif len(comp) == 1 and len(comp[0].generators) == 1:
        g = comp[0].generators[0]
        src = resolve_here(g.iter)
        ok = pseudo(comp[0].elt) == pseudo(g.target) and "'fields'" in u(src)
    run.check(ok, 'ORD', st.where, st.qualname, 'surviving fields are appended while walking the schema field list in order',
              'delete_fields does not keep the surviving fields in schema order')
    # --- rename_fields
    st = ctx.N(step_of(ctx, 'rename_fields'))
    ren = find_stmt("_sf['name'] = _new", st.node)
    ok = len(ren) == 1
    if ok:
        node, b = ren[0]
        blk = block_of(node)
        new = b['_new']
        maps = [m for s_ in blk for m in [match_stmt('__MAP[_old] = _new', s_, {'_new': new})] if m is not None]
        ok = len(maps) == 1
        if ok:
            old = maps[0]['_old']
            oldv = None
            for n in ast.walk(st.node):
                if isinstance(n, ast.Assign) and pseudo(n.targets[0]) == old:
                    oldv = n.value
            newv = None
            for n in ast.walk(st.node):
                if isinstance(n, ast.Assign) and pseudo(n.targets[0]) == new:
                    newv = n.value
            ok = oldv is not None and match_expr("_sf['name']", oldv, {'_sf': b['_sf']}) is not None and newv is not None and \
                match_expr('_pat.sub(__TGT, _old)', newv, {'_old': old}) is not None
            # the rename happens under "this pattern matches the old name", first match wins
            from sa.model import dominating_atoms as _da15
            ok = ok and any(pol_ and match_expr('_pat.match(_old)', t_, {'_old': old}) is not None for t_, pol_ in _da15(node, st.node)) and \
                isinstance(blk[-1], ast.Break)
    run.check(ok, 'ORD', st.where, st.qualname,
              "if pat.match(old): new = pat.sub(tgt, old); <row map>[old] = new; field['name'] = new; break",
              'rename_fields does not rename the schema field in place with the same (old name, new name) pair it records for the rows')
    # --- add_computed_field appends
    st = ctx.N(step_of(ctx, 'add_computed_field'))
    ext = [c for c in ast.walk(st.node) if isinstance(c, ast.Call) and isinstance(c.func, ast.Attribute)
           and c.func.attr in ('extend', 'append', 'insert') and "['fields']" in u(c.func.value)]
    slices = [n for n in ast.walk(st.node) if isinstance(n, ast.Assign) and isinstance(n.targets[0], ast.Subscript)
              and isinstance(n.targets[0].slice, ast.Slice) and "['fields']" in u(n.targets[0].value)]
    run.check(len(ext) >= 1 and all(c.func.attr in ('extend', 'append') for c in ext) and not slices, 'ORD', st.where, st.qualname,
              "resource['schema']['fields'].extend(new_fields)", 'new fields are not appended after the existing ones')


def computed_and_replace(ctx):
    computed_field_clause(ctx)
    computed_field_schema_clause(ctx)
    find_replace_clause(ctx)


def computed_field_clause(ctx):
    run, repo = ctx.run, ctx.repo
    run.rule('CMP', 'COMPUTED/REPLACE: add_computed_field applies the operation named by the field spec to exactly the non-null source '
                    'values of that row and stores the result only under the target name, yielding the same row; find_replace reads '
                    'and writes the same listed field, substituting pattern after pattern; both yield each row exactly once')
    w, i_ = wrapper_of(ctx, 'add_computed_field')
    pr = ctx.N(w)
    loop, var, src = observers.single_row_loop(ctx, pr, pr.params[i_])
    sigs = rowloop_signature(pr, loop, var)
    run.check(all([k for k, _ in s.yields] == ['identity'] and s.term == FALL for s in sigs), 'CMP', where(repo, loop), w.qualname,
              'yield row once per row', 'add_computed_field does not yield each row exactly once')
    stores = [n for n in ast.walk(loop) if isinstance(n, ast.Assign) and isinstance(n.targets[0], ast.Subscript)
              and pseudo(n.targets[0].value) == var]
    ok = bool(stores)
    fieldvar = None
    for st in stores:
        key = resolve_here(st.targets[0].slice)
        b = match_expr("_f['target']['name']", key)
        ok = ok and b is not None
        fieldvar = b['_f'] if b else fieldvar
    run.check(ok, 'CMP', where(repo, loop), w.qualname, "row[field['target']['name']] = ...",
              'a computed value is stored under a key other than the target field name')
    agg = [st for st in stores if match_expr('AGGREGATORS[__OP].func(__VALS, __W, _row)', resolve_here(st.value), {'_row': var}) is not None]
    ok = len(agg) == 1
    if ok:
        b = match_expr('AGGREGATORS[__OP].func(__VALS, __W, _row)', resolve_here(agg[0].value), {'_row': var})
        ok = match_expr("_f['operation']", b['__OP'], {'_f': fieldvar}) is not None
        vals = b['__VALS']
        if isinstance(vals, ast.List) and not vals.elts and isinstance(agg[0].value, ast.Call) and agg[0].value.args and \
                isinstance(agg[0].value.args[0], ast.Name):
            vals = agg[0].value.args[0]         # the name, not its initial value: the list is filled by a loop
        if isinstance(vals, ast.Name):
            # the list built by an explicit loop: v = []; for c in S: if C: v.append(E)   is   [E for c in S if C]
            vn = vals.id
            inits = [a_ for a_ in ast.walk(loop) if isinstance(a_, ast.Assign) and pseudo(a_.targets[0]) == vn]
            fills = [l_ for l_ in ast.walk(loop) if isinstance(l_, ast.For) and l_ is not loop and any(
                isinstance(c_, ast.Call) and isinstance(c_.func, ast.Attribute) and c_.func.attr == 'append' and pseudo(c_.func.value) == vn
                for c_ in ast.walk(l_))]
            fills = [l_ for l_ in fills if not any(o_ is not l_ and o_ in list(ast.walk(l_)) for o_ in fills)]     # the innermost
            if len(inits) == 1 and isinstance(inits[0].value, ast.List) and not inits[0].value.elts and len(fills) == 1:
                fl_ = fills[0]
                body_ = fl_.body
                conds_ = []
                while len(body_) == 1 and isinstance(body_[0], ast.If) and not body_[0].orelse:
                    conds_.append(body_[0].test)
                    body_ = body_[0].body
                if len(body_) == 1 and isinstance(body_[0], ast.Expr) and isinstance(body_[0].value, ast.Call) and \
                        isinstance(body_[0].value.func, ast.Attribute) and body_[0].value.func.attr == 'append' and len(body_[0].value.args) == 1:
                    vals = ast.ListComp(elt=body_[0].value.args[0], generators=[ast.comprehension(target=fl_.target, iter=fl_.iter, ifs=conds_,
                                                                                                  is_async=0)])
                    ast.fix_missing_locations(vals)
        okv = match_expr("[_row.get(_c) for _c in _f.get('source', []) if _row.get(_c) is not None]", vals,
                         {'_row': var, '_f': fieldvar}) is not None or \
            match_expr("[_row[_c] for _c in _f.get('source', []) if _row.get(_c) is not None]", vals, {'_row': var, '_f': fieldvar}) is not None
        run.check(okv, 'CMP', where(repo, loop), w.qualname,
                  "values = [row.get(c) for c in field.get('source', []) if row.get(c) is not None]",
                  'the operation is not applied to exactly the non-null source values of the row (found %s)' % u(vals))
    run.check(ok, 'CMP', where(repo, loop), w.qualname, "AGGREGATORS[field['operation']].func(values, with_, row)",
              'the operation named by the field spec is not the one applied')
    # operation table: documented definitions (parameter names free)
    m, table = abstypes.table_entries(ctx, P + 'add_computed_field', 'AGGREGATORS')
    expect = {'sum': ['lambda _v, _f, _r: sum(_v)'], 'max': ['lambda _v, _f, _r: max(_v)'], 'min': ['lambda _v, _f, _r: min(_v)'],
              'avg': ['lambda _v, _f, _r: sum(_v) / len(_v)', 'lambda _v, _f, _r: statistics.mean(_v)'],
              'constant': ['lambda _v, _f, _r: _f'], 'format': ['lambda _v, _f, _r: _f.format(**_r)'],
              'multiply': ['lambda _v, _f, _r: functools.reduce(lambda _x, _y: _x * _y, _v)', 'lambda _v, _f, _r: math.prod(_v)',
                           'lambda _v, _f, _r: functools.reduce(operator.mul, _v)'],
              'join': ['lambda _v, _f, _r: _f.join([str(_x) for _x in _v])', 'lambda _v, _f, _r: _f.join((str(_x) for _x in _v))',
                       'lambda _v, _f, _r: _f.join(map(str, _v))', 'lambda _v, _f, _r: _f.join(list(map(str, _v)))']}
    for k, pats in expect.items():
        lam = table[k].args[0] if k in table and isinstance(table[k], ast.Call) and table[k].args else None
        run.check(lam is not None and any(match_expr(p_, lam) is not None for p_ in pats), 'CMP',
                  where(repo, table[k]) if k in table else m.relpath, m.name + ':<module>', 'AGGREGATORS[%r] = %s' % (k, pats[0]),
                  'operation %r does not compute its documented definition (found %s)' % (k, u(lam) if lam is not None else None))


def computed_field_schema_clause(ctx):
    """NEW-FIELDS: the package phase declares one field per computed-field spec - the spec's own target descriptor (a copy) when it is
    one, else {name: <target>, type: get_type(<fields of the resource>, <source names>, <operation>)} - and nothing else."""
    run, repo = ctx.run, ctx.repo
    from sa.paths import Enumerator as _En, RAISE as _RAISE, path_nodes as _pn
    g0 = repo.func(P + 'add_computed_field:get_new_fields', None)
    if g0 is None:
        raise AnalysisError('add_computed_field: get_new_fields not found')
    g = ctx.N(g0)
    rets = [r for r in own_nodes(g.node) if isinstance(r, ast.Return) and r.value is not None]
    loops = [l for l in own_nodes(g.node) if isinstance(l, ast.For) and pseudo(l.iter) == g.params[1] and isinstance(l.target, ast.Name)]
    if len(rets) != 1 or not pseudo(rets[0].value) or len(loops) != 1:
        raise AnalysisError('get_new_fields: `for f in fields` / returned list not found')
    lst, f = pseudo(rets[0].value), loops[0].target.id
    n = 0
    for p in _En(where=g.qualname).body_paths(loops[0]):
        if p.term == _RAISE:
            continue
        import builtins as _b
        if any(isinstance(t, ast.Name) and callable(getattr(_b, t.id, None)) and not pol for t, pol in p.guards()):
            continue        # `elif isinstance:` - a builtin function is never false; the branch is an `else`
        n += 1
        from sa.pathvals import PathValues as _PV
        pv = _PV(p)
        apps = [c.value for o_, c in pv.stmts if isinstance(c, ast.Expr) and isinstance(c.value, ast.Call)
                and isinstance(c.value.func, ast.Attribute) and c.value.func.attr == 'append' and pseudo(c.value.func.value) == lst
                and len(c.value.args) == 1]
        ok = len(apps) == 1
        if ok:
            v = apps[0].args[0]
            kv = {}
            if isinstance(v, ast.Call) and u(v.func) == 'dict' and not v.args:
                kv = {k.arg: k.value for k in v.keywords if k.arg}
            elif isinstance(v, ast.Dict):
                kv = {k.value: x for k, x in zip(v.keys, v.values) if isinstance(k, ast.Constant)}
            named = set(kv) == {'name', 'type'} and u(kv['name']) == "%s['target']" % f and \
                match_expr("get_type(%s['schema']['fields'], %s.get('source', []), %s['operation'])" % (g.params[0], f, f), kv['type']) is not None
            copied = match_expr("copy.deepcopy(%s['target'])" % f, v) is not None
            is_str = None
            for t, pol in pv.guards:
                if match_expr("isinstance(%s['target'], str)" % f, t) is not None:
                    is_str = pol
            ok = (named and is_str is True) or (copied and is_str is not True)
        run.check(ok, 'CMP', where(repo, loops[0]), g.qualname,
                  'one new field per spec: {name, type=get_type(...)} for a target name, a copy of the target descriptor otherwise',
                  'the package phase does not declare exactly one field per computed-field spec (named by its target, typed by '
                  'get_type): the rows carry a field the schema does not declare, or under another type', path=p.describe())
    run.floor('CMP', n, 2, 'paths of get_new_fields')


def _ancestors_until(node, stop):
    n = getattr(node, '_parent', None)
    while n is not None and n is not stop:
        yield n
        n = getattr(n, '_parent', None)


def find_replace_clause(ctx):
    run, repo = ctx.run, ctx.repo
    w, i_ = wrapper_of(ctx, 'find_replace')
    fr = ctx.N(w)
    loop, var, src = observers.single_row_loop(ctx, fr, fr.params[i_])
    sigs = rowloop_signature(fr, loop, var)
    run.check(all([k for k, _ in s.yields] == ['identity'] and s.term == FALL for s in sigs), 'CMP', where(repo, loop), w.qualname,
              'yield row once per row', 'find_replace does not yield each row exactly once')
    stores = [n for n in ast.walk(loop) if isinstance(n, ast.Assign) and isinstance(n.targets[0], ast.Subscript)
              and pseudo(n.targets[0].value) == var]
    ok = len(stores) == 1
    if ok:
        st = stores[0]
        key = resolve_here(st.targets[0].slice)
        val = resolve_here(st.value)
        b = match_expr('re.sub(__FIND, __REPL, __CUR)', val)
        ok = b is not None and match_expr("_f['name']", key) is not None
        if ok:
            cur = b['__CUR']
            ok = u(cur) in ('str(%s[%s])' % (var, u(key)), '%s[%s]' % (var, u(key))) and \
                match_expr("str(_p['find'])", b['__FIND']) is not None and match_expr("str(_p['replace'])", b['__REPL']) is not None
        fors = []
        p = st
        while p is not loop:
            p = p._parent
            if isinstance(p, ast.For) and p is not loop:
                fors.append(p)
        ok = ok and len(fors) == 2 and "'patterns'" in u(resolve_here(fors[0].iter))
    # every listed field of every row is treated: the loops over the fields and over their patterns are not left early (a `break`
    # on one field - a null value, say - would skip the fields listed after it)
    exits_ = [x for x in ast.walk(loop) if isinstance(x, (ast.Break, ast.Return)) or
              (isinstance(x, ast.Continue) and not any(isinstance(p_, ast.For) and p_ is not loop for p_ in _ancestors_until(x, loop)))]
    run.check(not exits_, 'CMP', where(repo, exits_[0]) if exits_ else where(repo, loop), w.qualname,
              'no break / return inside the per-row work of find_replace',
              'the loop over the listed fields (or over their patterns) is left early: fields listed after the one that triggers the exit '
              'are not treated in that row')
    run.check(ok, 'CMP', where(repo, loop), w.qualname, "row[f] = re.sub(str(find), str(replace), str(row[f])) for each pattern of each field",
              'find_replace does not substitute sequentially within the listed field')


def add_field_shape(ctx):
    run = ctx.run
    af = ctx.N(ctx.repo.func(P + 'add_field:add_field'))
    from sa.pathvals import PathValues
    from sa.model import norm_compare
    from sa.paths import Enumerator as _En
    ok = True
    n_ret = 0
    seen = set()
    for p_ in _En(where=af.qualname).paths(af.node.body):
        pv = PathValues(p_)
        for v in pv.returns:
            if not (isinstance(v, ast.Call) and u(v.func) == 'add_computed_field'):
                ok = False
                continue
            n_ret += 1
            kws = {k.arg: k.value for k in v.keywords}
            t = kws.get('target')
            ok = ok and t is not None and match_expr('dict(name=name, type=type, **options)', t) is not None and \
                pseudo(kws.get('resources')) == 'resources' and 'operation' in kws
            op = kws.get('operation')
            if op is None:
                continue
            # either the conditional expression, or one arm per path under the callable(default) test
            if match_expr('default if callable(default) else (lambda _r: default)', op) is not None:
                seen |= {True, False}
                continue
            is_callable = None
            for g, pol in pv.guards:
                g, pol = norm_compare(g, pol)
                if match_expr('callable(default)', g) is not None:
                    is_callable = pol
            if is_callable is True:
                ok = ok and pseudo(op) == 'default'
            elif is_callable is False:
                ok = ok and match_expr('lambda _r: default', op) is not None
            else:
                ok = False
            seen.add(is_callable)
    ok = ok and n_ret >= 1 and seen == {True, False}
    run.check(ok, 'CMP', af.where, af.qualname, 'add_computed_field(target=dict(name=, type=, **options), resources=, operation=default or constant)',
              'add_field does not add the named, typed field with the default as its value')


def check(ctx):
    run = ctx.run
    steps = [step_of(ctx, n) for n in STEPS]
    coupling.r11_function_steps(ctx, [s for s in steps if 'find_replace' not in s.qualname])
    mods = {P + n for n in STEPS}
    matchers.r9_anchored(ctx, mods, floor=3)
    n = matchers.r9_escape_when_no_regex(ctx, mods)
    run.floor('R9e', n, 3, 'regex-switch sites')
    stream.r7_guard_dominance(ctx, steps)
    stream.r6_identity(ctx, steps)
    stream.r6_count_agreement(ctx, steps)
    n29 = stream.r29_no_shared_fields(ctx, stream.package_phase_functions(ctx))
    run.floor('R29', n29, 8, 'schema field stores')
    row_rebuilds(ctx)
    field_order(ctx)
    computed_and_replace(ctx)
    from rules import independence
    specs = []
    for nme in ('delete_fields', 'select_fields', 'rename_fields', 'add_computed_field', 'find_replace'):
        w, _ = wrapper_of(ctx, nme)
        specs.append((w.qualname, {}))
    independence.r28_functions(ctx, specs)
    abstypes.r18_computed_field(ctx)
    add_field_shape(ctx)
    run.not_decided += ['computed values themselves (arithmetic, string formatting) beyond the shape of the operation table',
                        'regex substitution semantics of rename_fields / find_replace on concrete names']
    return ('Def-use coupling between schema edits and row-wrapper configuration, anchoring and regex-switch rules for every '
            'pattern built from a field name, guard dominance and identity of unselected resources, shape of the row rebuild '
            '(values untouched, rename defaults to the key), field-order rules, and the operation table of add_computed_field '
            'against its definitions and declared types; shapes are compared on normalised functions with temporaries resolved.', [])


# kept for C02, which reuses the row-rebuild clause
def select_delete_rename(ctx):
    row_rebuilds(ctx)
