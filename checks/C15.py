"""C15 Field-level processors change schema and rows in lockstep (DESIGN §5 C15)."""
import ast

from rules import abstypes, coupling, matchers, observers, stream
from sa.deps import Facts, base_name, names_in, pseudo
from sa.loader import AnalysisError, FuncInfo, own_nodes
from sa.model import matcher_names, row_loops, rowloop_signature, u, where
from sa.paths import FALL, RAISE, Enumerator, path_nodes

STEPS = ['select_fields', 'delete_fields', 'rename_fields', 'add_computed_field', 'find_replace']


def dict_rebuild(ctx, rule, fi, key_rule):
    """Row wrappers that rebuild the row: yield dict((K, v) for k, v in row.items() [if k in cfg]) — value untouched."""
    run, repo = ctx.run, ctx.repo
    loop, var, src = observers.single_row_loop(ctx, fi)
    sigs = rowloop_signature(fi, loop, var)
    facts = Facts(fi, include_nested=False)
    for s in sigs:
        ok = len(s.yields) == 1 and s.term == FALL
        gen = None
        if ok:
            v = s.yields[0][1].value
            cands = [v] + list(facts.values_of(pseudo(v) or ''))
            for c in cands:
                if isinstance(c, ast.Call) and u(c.func) == 'dict' and c.args and isinstance(c.args[0], ast.GeneratorExp):
                    gen = c.args[0]
                if isinstance(c, ast.DictComp):
                    gen = c
        ok = ok and gen is not None and len(gen.generators) == 1
        if ok:
            g = gen.generators[0]
            ok = isinstance(g.iter, ast.Call) and u(g.iter.func) == '%s.items' % var and isinstance(g.target, ast.Tuple)
            if ok:
                k, v_ = [t.id for t in g.target.elts]
                if isinstance(gen, ast.DictComp):
                    kexpr, vexpr = gen.key, gen.value
                else:
                    kexpr, vexpr = gen.elt.elts if isinstance(gen.elt, ast.Tuple) and len(gen.elt.elts) == 2 else (None, None)
                ok = vexpr is not None and isinstance(vexpr, ast.Name) and vexpr.id == v_ and key_rule(kexpr, k, g)
        run.check(ok, rule, where(repo, loop), fi.qualname, 'yield dict((key(k), v) for k, v in row.items() ...)',
                  'the rebuilt row does not carry every kept value unchanged under the expected key')


def select_delete_rename(ctx):
    run, repo = ctx.run, ctx.repo
    run.rule('ROWS', 'ROW-REBUILD: select/delete keep (k, v) pairs whose key is in the configured name set, values untouched; rename '
                     'maps the key through the rename map defaulting to the key itself, values untouched')
    for mod in ('select_fields', 'delete_fields'):
        fi = repo.func('dataflows.processors.%s:process_resource' % mod)

        def rule_keep(kexpr, k, g, fi=fi):
            if not (isinstance(kexpr, ast.Name) and kexpr.id == k):
                return False
            if len(g.ifs) != 1:
                return False
            t = g.ifs[0]
            return isinstance(t, ast.Compare) and isinstance(t.ops[0], ast.In) and pseudo(t.left) == k
        dict_rebuild(ctx, 'ROWS', fi, rule_keep)
    fi = repo.func('dataflows.processors.rename_fields:process_resource')

    def rule_rename(kexpr, k, g):
        return isinstance(kexpr, ast.Call) and isinstance(kexpr.func, ast.Attribute) and kexpr.func.attr == 'get' and \
            [pseudo(a) for a in kexpr.args] == [k, k] and not g.ifs
    dict_rebuild(ctx, 'ROWS', fi, rule_rename)

    run.rule('ORD', 'FIELD-ORDER: select_fields builds the new field list with the user selection as the outer loop (selection order); '
                    'delete_fields keeps the schema order; rename_fields renames in place; add_computed_field appends')
    sf = repo.func('dataflows.processors.select_fields:select_fields.func')
    apps = [c for c in ast.walk(sf.node) if isinstance(c, ast.Call) and isinstance(c.func, ast.Attribute)
            and c.func.attr == 'append' and pseudo(c.func.value) == 'new_fields']
    ok = False
    for a in apps:
        chain = []
        p = a
        while getattr(p, '_parent', None) is not None and p is not sf.node:
            p = p._parent
            if isinstance(p, ast.For):
                chain.append(p)
        # innermost first; the loop directly over the user's `fields` must enclose the loop over schema names
        iters = [u(l.iter) for l in chain]
        if len(chain) >= 2 and pseudo(chain[1].iter) == 'fields' and 'dp_fields' in iters[0]:
            ok = True
    run.check(ok and len(apps) == 1, 'ORD', sf.where, sf.qualname, 'for selected in fields: for name in schema names: append',
              'select_fields does not emit fields in selection order')
    # each schema field can be selected at most once (popped when matched)
    pops = [c for c in ast.walk(sf.node) if isinstance(c, ast.Call) and isinstance(c.func, ast.Attribute) and c.func.attr == 'pop'
            and pseudo(c.func.value) == 'dp_fields']
    run.check(len(pops) == 1 and apps and pops[0] in list(ast.walk(apps[0])), 'ORD', sf.where, sf.qualname,
              'new_fields.append(dp_fields.pop(name))', 'a field matched by two selections would be emitted twice')
    df = repo.func('dataflows.processors.delete_fields:delete_fields.func')
    apps = [c for c in ast.walk(df.node) if isinstance(c, ast.Call) and isinstance(c.func, ast.Attribute)
            and c.func.attr == 'append' and pseudo(c.func.value) == 'new_fields']
    ok = False
    for a in apps:
        p = a
        fors = []
        while getattr(p, '_parent', None) is not None and p is not df.node:
            p = p._parent
            if isinstance(p, ast.For):
                fors.append(p)
        if fors and pseudo(fors[0].iter) == 'schema_fields' and pseudo(a.args[0]) == fors[0].target.id:
            # guarded by `not skip`
            ok = isinstance(a._parent._parent, ast.If) and 'skip' in u(a._parent._parent.test)
    run.check(ok and len(apps) == 1, 'ORD', df.where, df.qualname, 'for sf in schema_fields: if not skip: new_fields.append(sf)',
              'delete_fields does not keep the surviving fields in schema order')
    # skip is set exactly when some pattern matches the field name
    skips = [n for n in ast.walk(df.node) if isinstance(n, ast.Assign) and pseudo(n.targets[0]) == 'skip']
    tr = [n for n in skips if isinstance(n.value, ast.Constant) and n.value.value is True]
    run.check(len(tr) == 1 and isinstance(tr[0]._parent, ast.If) and '.match(' in u(tr[0]._parent.test) and
              "['name']" in u(tr[0]._parent.test), 'ORD', df.where, df.qualname, "if f.match(sf['name']): skip = True",
              'a field is dropped although no pattern matches its name (or kept although one does)')
    rf = repo.func('dataflows.processors.rename_fields:rename_fields.func')
    stores = [n for n in ast.walk(rf.node) if isinstance(n, ast.Assign) and u(n.targets[0]) == "sf['name']"]
    ok = len(stores) == 1
    if ok:
        st = stores[0]
        cond = st._parent
        ok = isinstance(cond, ast.If) and '.match(sf_name)' in u(cond.test)
        facts = Facts(rf, include_nested=False)
        tn = pseudo(st.value)
        vals = facts.values_of(tn)
        ok = ok and len(vals) == 1 and isinstance(vals[0], ast.Call) and isinstance(vals[0].func, ast.Attribute) and \
            vals[0].func.attr == 'sub' and [pseudo(a) for a in vals[0].args] == ['tgt', 'sf_name']
        # the row map gets old -> new for exactly that field, first matching pattern wins (break)
        maps = [n for n in cond.body if isinstance(n, ast.Assign) and u(n.targets[0]) == 'renames[res_name][sf_name]'
                and pseudo(n.value) == tn]
        ok = ok and len(maps) == 1 and isinstance(cond.body[-1], ast.Break)
    run.check(ok, 'ORD', rf.where, rf.qualname, "if src.match(name): target = src.sub(tgt, name); renames[res][name] = target; sf['name'] = target; break",
              'rename_fields does not rename schema and row map with the same (old, new) pair in place')


def computed_and_replace(ctx):
    run, repo = ctx.run, ctx.repo
    run.rule('CMP', 'COMPUTED/REPLACE: add_computed_field computes from the non-null source values of that row alone and stores only '
                    'under the target name, yielding the same row; find_replace reads and writes the same listed field, applying the '
                    'patterns sequentially; both yield each row exactly once')
    pr = repo.func('dataflows.processors.add_computed_field:process_resource')
    loop, var, src = observers.single_row_loop(ctx, pr, 'rows')
    sigs = rowloop_signature(pr, loop, var)
    for s in sigs:
        run.check([k for k, _ in s.yields] == ['identity'] and s.term == FALL, 'CMP', where(repo, loop), pr.qualname,
                  s.describe()[:150], 'add_computed_field does not yield each row exactly once')
    stores = [n for n in ast.walk(loop) if isinstance(n, ast.Assign) and isinstance(n.targets[0], ast.Subscript)
              and pseudo(n.targets[0].value) == var]
    facts = Facts(pr, include_nested=False)
    ok = bool(stores)
    for st in stores:
        key = pseudo(st.targets[0].slice)
        kv = facts.values_of(key or '')
        ok = ok and len(kv) == 1 and u(kv[0]) == "field['target']['name']"
    run.check(ok, 'CMP', where(repo, loop), pr.qualname, "row[field['target']['name']] = ...",
              'a computed value is stored under a key other than the target field name')
    # values: non-null source values of this row
    vals = [v for v in facts.values_of('values') if isinstance(v, ast.ListComp)]
    ok = len(vals) == 1
    if ok:
        lc = vals[0]
        g = lc.generators[0]
        ok = u(lc.elt) in ('%s.get(%s)' % (var, g.target.id), '%s[%s]' % (var, g.target.id)) and \
            "field.get('source'" in u(g.iter) and len(g.ifs) == 1 and 'is not None' in u(g.ifs[0]) and var in names_in(g.ifs[0])
    run.check(ok, 'CMP', where(repo, loop), pr.qualname, "values = [row.get(c) for c in field.get('source', []) if row.get(c) is not None]",
              'the operation is not applied to exactly the non-null source values of the row')
    calls = [c for c in ast.walk(loop) if isinstance(c, ast.Call) and isinstance(c.func, ast.Attribute) and c.func.attr == 'func'
             and 'AGGREGATORS[' in u(c.func)]
    run.check(len(calls) == 1 and u(calls[0].func.value) == 'AGGREGATORS[op]' and pseudo(calls[0].args[0]) == 'values'
              and pseudo(calls[0].args[2]) == var, 'CMP', where(repo, loop), pr.qualname, 'AGGREGATORS[op].func(values, with_, row)',
              'the operation named by the field spec is not the one applied')
    # operation table name/builtin agreement
    m, table = abstypes.table_entries(ctx, 'dataflows.processors.add_computed_field', 'AGGREGATORS')
    expect = {'sum': 'sum(values)', 'max': 'max(values)', 'min': 'min(values)', 'avg': 'sum(values) / len(values)',
              'constant': 'fstr', 'format': 'fstr.format(**row)'}
    for k, body in expect.items():
        lam = table[k].args[0] if k in table and isinstance(table[k], ast.Call) and table[k].args else None
        run.check(isinstance(lam, ast.Lambda) and u(lam.body) == body and [a.arg for a in lam.args.args] == ['values', 'fstr', 'row'],
                  'CMP', where(repo, table[k]) if k in table else m.relpath, m.name + ':<module>', 'AGGREGATORS[%r] = %s' % (k, body),
                  'operation %r does not compute its documented definition' % k)
    lam = table['multiply'].args[0]
    run.check('reduce' in u(lam.body) and 'x * y' in u(lam.body) and u(lam.body).endswith('values)'), 'CMP', where(repo, table['multiply']),
              m.name + ':<module>', "AGGREGATORS['multiply'] = reduce(x*y, values)", 'multiply is not the product of the values')
    lam = table['join'].args[0]
    run.check(u(lam.body) == 'fstr.join([str(x) for x in values])', 'CMP', where(repo, table['join']), m.name + ':<module>',
              "AGGREGATORS['join'] = fstr.join(str(x) for x in values)", 'join is not the separator-joined string of the values')
    # new fields appended, under MATCH (R7 covers the guard)
    func = repo.func('dataflows.processors.add_computed_field:add_computed_field.func')
    ext = [c for c in ast.walk(func.node) if isinstance(c, ast.Call) and isinstance(c.func, ast.Attribute)
           and c.func.attr in ('extend', 'append', 'insert') and "['fields']" in u(c.func.value)]
    run.check(len(ext) == 1 and ext[0].func.attr == 'extend', 'CMP', func.where, func.qualname,
              "resource['schema']['fields'].extend(new_fields)", 'new fields are not appended after the existing ones')
    # find_replace
    fr = repo.func('dataflows.processors.find_replace:_find_replace')
    loop, var, src = observers.single_row_loop(ctx, fr, 'rows')
    sigs = rowloop_signature(fr, loop, var)
    for s in sigs:
        run.check([k for k, _ in s.yields] == ['identity'] and s.term == FALL, 'CMP', where(repo, loop), fr.qualname,
                  s.describe()[:150], 'find_replace does not yield each row exactly once')
    stores = [n for n in ast.walk(loop) if isinstance(n, ast.Assign) and isinstance(n.targets[0], ast.Subscript)
              and pseudo(n.targets[0].value) == var]
    ok = len(stores) == 1
    if ok:
        st = stores[0]
        key = u(st.targets[0].slice)
        c = st.value
        ok = isinstance(c, ast.Call) and ctx.res.external_name(c) == 're.sub' and len(c.args) == 3 and \
            u(c.args[2]) in ('str(%s[%s])' % (var, key), '%s[%s]' % (var, key)) and "['find']" in u(c.args[0]) and \
            "['replace']" in u(c.args[1]) and key == "field['name']"
        # nesting: patterns loop inside fields loop
        fors = []
        p = st
        while p is not loop:
            p = p._parent
            if isinstance(p, ast.For) and p is not loop:
                fors.append(p)
        ok = ok and len(fors) == 2 and "patterns" in u(fors[0].iter) and pseudo(fors[1].iter) == fr.params[1]
    run.check(ok, 'CMP', where(repo, loop), fr.qualname, "row[f] = re.sub(find, replace, str(row[f])) for each pattern of each field",
              'find_replace does not substitute sequentially within the listed field')


def check(ctx):
    run = ctx.run
    steps = [ctx.repo.func('dataflows.processors.%s:%s.func' % (n, n)) for n in STEPS]
    coupling.r11_function_steps(ctx, [s for s in steps if 'find_replace' not in s.qualname])
    mods = {'dataflows.processors.%s' % n for n in STEPS}
    matchers.r9_anchored(ctx, mods, floor=3)
    facs = [ctx.repo.func('dataflows.processors.%s:%s' % (n, n)) for n in ('select_fields', 'delete_fields', 'rename_fields')]
    n = matchers.r9_escape_when_no_regex(ctx, facs)
    run.floor('R9e', n, 3, 'regex-switch sites')
    stream.r7_guard_dominance(ctx, steps)
    stream.r6_identity(ctx, steps)
    stream.r6_count_agreement(ctx, steps)
    n29 = stream.r29_no_shared_fields(ctx, stream.package_phase_functions(ctx))
    run.floor('R29', n29, 8, 'schema field stores')
    select_delete_rename(ctx)
    computed_and_replace(ctx)
    from rules import independence
    independence.r28_functions(ctx, [('dataflows.processors.%s:process_resource' % m, {}) for m in
                                     ('delete_fields', 'select_fields', 'rename_fields', 'add_computed_field')] +
                               [('dataflows.processors.find_replace:_find_replace', {})])
    abstypes.r18_computed_field(ctx)
    # add_field delegates to add_computed_field with the documented shape
    af = ctx.repo.func('dataflows.processors.add_field:add_field')
    calls = [c for c in own_nodes(af.node) if isinstance(c, ast.Call) and u(c.func) == 'add_computed_field']
    ok = len(calls) == 1
    if ok:
        kws = {k.arg: k.value for k in calls[0].keywords}
        ok = 'target' in kws and "name=name" in u(kws['target']) and 'type=type' in u(kws['target']) and \
            pseudo(kws.get('resources')) == 'resources' and 'operation' in kws and 'default' in u(kws['operation'])
    run.check(ok, 'CMP', af.where, af.qualname, 'add_computed_field(target=dict(name=, type=, **options), resources=, operation=default)',
              'add_field does not add the named, typed field with the default as its value')
    run.not_decided += ['computed values themselves (arithmetic, string formatting) beyond the shape of the operation table',
                        'regex substitution semantics of rename_fields / find_replace on concrete names']
    return ('Def-use coupling between schema edits and row-wrapper configuration, anchoring and regex-switch rules for every '
            'pattern built from a field name, guard dominance and identity of unselected resources, shape of the row rebuild '
            '(values untouched, rename defaults to the key), field-order rules, and the operation table of add_computed_field '
            'against its definitions and declared types.', [])
