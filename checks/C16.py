"""C16 Resource-level restructuring conserves rows (DESIGN §5 C16)."""
import ast

from rules import observers, stream
from sa.deps import Facts, base_name, names_in, pseudo
from sa.loader import AnalysisError, FuncInfo, own_nodes
from sa.model import (Atomizer, find_resloops, resloop_signature, row_loops, rowloop_signature, u, where)
from sa.paths import FALL, RAISE, Enumerator, path_nodes

STEPS = ['delete_resource', 'duplicate', 'concatenate', 'update_resource']


def duplicate_clauses(ctx):
    run, repo, res = ctx.run, ctx.repo, ctx.res
    run.rule('DUP', 'DUPLICATE: the saver stores each row under a key derived from its enumerate index (unique, order preserving) '
                    'and re-yields every stored row; the loader yields every stored value; the copy is read from the very store '
                    'the saver filled; the saver is yielded before the loader; the copy descriptor is a deep copy with only name '
                    'and path changed, emitted right after the original or at the end')
    saver0 = repo.func('dataflows.processors.duplicate:saver')
    saver = ctx.N(saver0)
    loader = repo.func('dataflows.processors.duplicate:loader')
    func = repo.func('dataflows.processors.duplicate:duplicate.func')
    # saver: insert_generator over enumerate(resource); key depends on idx; yields every row of gen
    ig = [c for c in own_nodes(saver.node) if isinstance(c, ast.Call) and isinstance(c.func, ast.Attribute)
          and c.func.attr in ('insert_generator',)]
    ok = False
    if len(ig) == 1 and ig[0].args and isinstance(ig[0].args[0], ast.GeneratorExp):
        g = ig[0].args[0]
        gen0 = g.generators[0]
        is_enum = isinstance(gen0.iter, ast.Call) and u(gen0.iter.func) == 'enumerate' and gen0.iter.args and \
            pseudo(gen0.iter.args[0]) == saver.params[0] and not gen0.ifs and len(g.generators) == 1
        if is_enum and isinstance(g.elt, ast.Tuple) and len(g.elt.elts) == 2 and isinstance(gen0.target, ast.Tuple):
            idx, row = [t.id for t in gen0.target.elts]
            key, val = g.elt.elts
            fixed = isinstance(key, ast.Call) and isinstance(key.func, ast.Attribute) and key.func.attr == 'format' and \
                isinstance(key.func.value, ast.Constant) and key.func.value.value.startswith('{:0') and \
                [a.id for a in key.args if isinstance(a, ast.Name)] == [idx]
            ok = fixed and isinstance(val, ast.Name) and val.id == row
    run.check(ok, 'DUP', saver.where, saver.qualname, "insert_generator((('{:08x}'.format(idx), row) for idx, row in enumerate(resource)))",
              'the saver does not store every row under a fixed-width key of its position (rows lost, reordered or overwritten)')
    # LF9: KVFile.insert_generator yields each (key, value) pair *before* it serialises the value.  Rows handed downstream from it
    # can therefore be edited in place by a later step before they are stored, and the copy is no longer the resource as it was
    # at the position of duplicate.
    if ig:
        gen_names = {pseudo(n.targets[0]) for n in own_nodes(saver.node) if isinstance(n, ast.Assign) and n.value is ig[0]}
        late = [n for n in own_nodes(saver.node) if isinstance(n, ast.For) and (pseudo(n.iter) in gen_names or n.iter is ig[0])
                and any(isinstance(y, ast.Yield) for y in ast.walk(n))]
        run.check(not late, 'DUP', saver.where, saver.qualname, 'rows yielded from insert_generator before they are serialised',
                  'the saver hands each row downstream before it is serialised into the store (insert_generator yields first): a '
                  'later step that edits rows of the original in place also changes the copy')
    for f, what in ((saver, 'saver'), (loader, 'loader')):
        loops = [n for n in own_nodes(f.node) if isinstance(n, ast.For)]
        ok = len(loops) == 1 and isinstance(loops[0].target, ast.Tuple) and len(loops[0].target.elts) == 2
        if ok:
            v = loops[0].target.elts[1].id
            paths = Enumerator(where=f.qualname).body_paths(loops[0])
            ok = all(p.term == FALL and [u(y) for y in path_nodes(p) if isinstance(y, ast.Yield)] == ['(yield %s)' % v]
                     for p in paths)
        run.check(ok, 'DUP', f.where, f.qualname, 'for _, row in <store>: yield row',
                  'the %s does not yield every stored row exactly once' % what)
    it = [n for n in own_nodes(loader.node) if isinstance(n, ast.For)]
    run.check(bool(it) and isinstance(it[0].iter, ast.Call) and isinstance(it[0].iter.func, ast.Attribute)
              and it[0].iter.func.attr == 'items' and pseudo(it[0].iter.func.value) == loader.params[0]
              and not it[0].iter.args and not it[0].iter.keywords,
              'DUP', loader.where, loader.qualname, 'db.items()', 'the loader does not iterate the store in key order')
    # func: same db for saver and loader; saver before loader on each path
    rls = [rl for rl in find_resloops(repo, res, func, ['package']) if rl.kind == 'for']
    if len(rls) != 1:
        raise AnalysisError('duplicate.func: resource loop not found')
    sigs, at = resloop_signature(repo, res, rls[0])
    for s in sigs:
        ys = [y for _, y in s.yields]
        calls = [y.value for y in ys if isinstance(y.value, ast.Call)]
        sv = [c for c in calls if any(isinstance(t, FuncInfo) and t is saver0 for t in res.resolve_call(c))]
        ld = [c for c in calls if any(isinstance(t, FuncInfo) and t is loader for t in res.resolve_call(c))]
        if not sv and not ld:
            continue
        ok = len(sv) == 1 and sv[0].args and pseudo(sv[0].args[0]) == rls[0].var
        dbn = pseudo(sv[0].args[1]) if sv and len(sv[0].args) > 1 else None
        if ld:
            ok = ok and len(ld) == 1 and pseudo(ld[0].args[0]) == dbn and \
                [c for c in calls if c in sv + ld] == [sv[0], ld[0]]
        else:
            ok = ok and len(s.defers) == 1 and pseudo(s.defers[0].args[0]) == dbn
        run.check(ok, 'DUP', where(repo, rls[0].node), func.qualname, stream.fmt_atoms(s.atoms),
                  'the copy is not replayed from the store the saver of this very resource filled, or is yielded before it',
                  detail=s.describe())
    # flush loop yields loader(<element>)
    flushed = [n for n in own_nodes(func.node) if isinstance(n, ast.For) and n is not rls[0].node
               and any(isinstance(y, ast.Yield) for y in ast.walk(n))]
    for fl in flushed:
        ys = [y for y in ast.walk(fl) if isinstance(y, ast.Yield)]
        ok = len(ys) == 1 and isinstance(ys[0].value, ast.Call) and pseudo(ys[0].value.args[0]) == fl.target.id and \
            any(isinstance(t, FuncInfo) and t is loader for t in res.resolve_call(ys[0].value))
        run.check(ok, 'DUP', where(repo, fl), func.qualname, u(fl).split('\n')[0], 'deferred copies are not replayed through the loader')
    # descriptor copy
    # the generator that rebuilds the descriptor list (nested in the step or at module level), found through the rebuild statement
    ds_ = stream.descr_signature(ctx, func)
    if ds_[0] != 'sig' or not ds_[3].is_generator:
        raise AnalysisError('duplicate: the generator that rebuilds the resource list was not found (%s)' % (ds_[1] if len(ds_) > 1 else ds_[0],))
    tr = ctx.N(ds_[3])
    lp = [n for n in own_nodes(tr.node) if isinstance(n, ast.For) and pseudo(n.iter) == tr.params[0]][0]
    var = lp.target.id
    at2 = Atomizer(repo, res, tr, var, 'descr', scope_node=lp)
    for p in Enumerator(where=tr.qualname).body_paths(lp):
        val = at2.path_atoms(p)
        if val is None:
            continue
        nodes = list(path_nodes(p))
        first_yield = next((n for n in nodes if isinstance(n, ast.Yield)), None)
        run.check(first_yield is not None and isinstance(first_yield.value, ast.Name) and first_yield.value.id == var and
                  not any(isinstance(n, ast.Assign) and nodes.index(n) < nodes.index(first_yield) for n in nodes
                          if isinstance(n, ast.Assign)),
                  'DUP', where(repo, lp), tr.qualname, stream.fmt_atoms(val) + ': original first',
                  'the original descriptor is not emitted first and untouched')
        if val.get(('EQ', 'source_')) is not True and not any(a[0] == 'EQ' and v for a, v in val.items()):
            # no name comparison holds on this path: nothing but the original may be emitted.  (The source of duplicate() is a
            # resource NAME: choosing it through a pattern matcher makes 'report (1)' miss itself and 'prices.2020' also pick
            # 'prices-2020'.)
            extra = [n for n in nodes if (isinstance(n, ast.Yield) or (isinstance(n, ast.Call) and isinstance(n.func, ast.Attribute)
                                                                      and n.func.attr == 'append')) and n is not first_yield]
            run.check(not extra, 'DUP', where(repo, lp), tr.qualname, stream.fmt_atoms(val) + ': copy only under name equality',
                      'a copy is emitted for a resource that was not chosen by comparing its name with the source name for equality '
                      '(a pattern match reads the name as a regular expression: it can miss the resource itself and pick others)')
            continue
        # the copy: what is emitted (yielded / deferred) after the original on the matching path
        emitted = [n for n in nodes if isinstance(n, ast.Yield) or
                   (isinstance(n, ast.Call) and isinstance(n.func, ast.Attribute) and n.func.attr == 'append')]
        second = emitted[1] if len(emitted) > 1 else None
        if second is None:
            run.fail('DUP', where(repo, lp), tr.qualname, stream.fmt_atoms(val) + ': copy emitted', 'no copy descriptor is emitted')
            continue
        cexpr = second.value if isinstance(second, ast.Yield) else second.args[0]
        assigns = [n for n in nodes if isinstance(n, ast.Assign) and nodes.index(n) > nodes.index(first_yield)
                   and nodes.index(n) < nodes.index(second)]
        same_ = {var}        # names that hold the original through plain copies (a helper's parameter bound to it)
        for n in assigns:
            if isinstance(n.value, ast.Name) and n.value.id in same_ and isinstance(n.targets[0], ast.Name):
                same_.add(n.targets[0].id)
        deep = [n for n in assigns if any(isinstance(c, ast.Call) and (res.external_name(c) == 'copy.deepcopy' or u(c.func) == 'copy.deepcopy')
                                          and c.args and same_ & names_in(c.args[0]) for c in ast.walk(n.value))]
        changed = set()
        for n in assigns:
            t = n.targets[0]
            if isinstance(t, ast.Subscript) and isinstance(t.slice, ast.Constant):
                changed.add(t.slice.value)
            for c in ast.walk(n.value):
                if isinstance(c, ast.Call) and u(c.func) == 'dict':
                    changed |= {k.arg for k in c.keywords if k.arg}
        run.check(bool(deep) and changed == {'name', 'path'} and pseudo(cexpr) is not None, 'DUP', where(repo, second), tr.qualname,
                  stream.fmt_atoms(val) + ': copy = deepcopy(original) with ' + str(sorted(changed)) + ' replaced',
                  'the copy descriptor is not a deep copy of the original with exactly name and path replaced: a shallow copy '
                  'shares schema / field objects with the original, so a later step that edits the copy\'s schema silently edits '
                  'the original\'s too (or the copy differs from the original in more than name and path)')


def concatenate_clauses(ctx):
    run, repo, res = ctx.run, ctx.repo, ctx.res
    run.rule('CAT', 'CONCATENATE (structure only): every row of every chained resource yields exactly one fresh row built from all '
                    'target fields (null default) plus the mapped non-null values; selected descriptors are dropped and counted, '
                    'unselected ones kept; the target is placed once (first gap or end); the stream phase chains the current '
                    'resource with the next count-1 resources of the same iterator')
    cat = ctx.N(repo.func('dataflows.processors.concatenate:concatenator'))
    cat0 = repo.func('dataflows.processors.concatenate:concatenator')
    func = repo.func('dataflows.processors.concatenate:concatenate.func')
    all_loops = [n for n in own_nodes(cat.node) if isinstance(n, ast.For)]
    outer_ = [l_ for l_ in all_loops if pseudo(l_.iter) == cat.params[0] and isinstance(l_.target, ast.Name)]
    rowl_ = [l_ for l_ in all_loops if outer_ and pseudo(l_.iter) == outer_[0].target.id and any(l_ is x for x in ast.walk(outer_[0]))]
    loops = outer_[:1] + rowl_[:1]
    # (further loops are allowed inside the row loop only: they build the row)
    ok = len(outer_) == 1 and len(rowl_) == 1 and all(l_ in loops or any(l_ is x for x in ast.walk(rowl_[0])) for l_ in all_loops)
    run.check(ok, 'CAT', cat.where, cat.qualname, 'for resource in resources: for row in resource',
              'the concatenator does not iterate every row of every chained resource')
    if ok:
        inner = loops[1]
        rowv = inner.target.id
        facts = Facts(cat, include_nested=True)
        # every chained resource goes through the row loop: no path of the loop over the resources hands a resource's rows on as
        # they are (they carry the source's field names and the columns the target does not declare) or skips the resource
        okr = True
        for p in Enumerator(where=cat.qualname).body_paths(loops[0]):
            if p.term == RAISE:
                continue
            through = [it_ for it_ in p.items if it_.kind == 'loop' and it_.node is inner]
            other_y = [y for it_ in p.items if it_.kind not in ('loop', 'guard') and isinstance(it_.node, ast.AST) for y in ast.walk(it_.node)
                       if isinstance(y, (ast.Yield, ast.YieldFrom))]
            okr = okr and len(through) == 1 and not other_y and not any(it_.kind == 'loop_exit' for it_ in p.items)
        run.check(okr, 'CAT', where(repo, loops[0]), cat.qualname, 'every resource of the run is rebuilt row by row',
                  'a resource of the concatenated run is passed through as it is (or skipped): its rows keep the source field names and '
                  'the columns the target schema does not declare')
        for p in Enumerator(where=cat.qualname).body_paths(inner):
            if p.term == RAISE:
                continue
            ys = [y for y in path_nodes(p) if isinstance(y, ast.Yield)]
            good = len(ys) == 1 and p.term == FALL and isinstance(ys[0].value, ast.Name) and ys[0].value.id != rowv
            if good:
                r = facts.roots(ys[0].value)
                good = {rowv, cat.params[1], cat.params[2]} <= r
                # null default for every target field
                from sa.pattern import match_expr as _me
                init = [v for v in facts.assigns.get(ys[0].value.id, [])]
                good = good and any(_me('{_k: None for _k in %s}' % cat.params[1], v) is not None or
                                    _me('dict.fromkeys(%s)' % cat.params[1], v) is not None or
                                    _me('dict.fromkeys(%s, None)' % cat.params[1], v) is not None for v in init)
            run.check(good, 'CAT', where(repo, inner), cat.qualname, 'one fresh row per input row',
                      'a concatenated row is lost, duplicated, or not built from (all target fields -> None) + mapped values',
                      path=p.describe())
    # package phase state machine
    ds = stream.descr_signature(ctx, ctx.N(func))
    if ds[0] != 'sig':
        raise AnalysisError('concatenate: descriptor rebuild not recognised: %s' % (ds[1],))
    f, assign = ds[3], ds[4]
    lst = assign.value.id
    loop = [x for x in own_nodes(f.node) if isinstance(x, ast.For) and
            any(isinstance(c, ast.Call) and isinstance(c.func, ast.Attribute) and c.func.attr == 'append'
                and pseudo(c.func.value) == lst for c in ast.walk(x))][0]
    var = loop.target.id
    at = Atomizer(repo, res, f, var, 'descr', scope_node=loop)
    counter = None
    # scan state: locals that are assigned constants (or names of module constants) before and inside the loop
    from sa.model import norm_compare as _ncmp

    def const_like(e_):
        return isinstance(e_, ast.Constant) or (isinstance(e_, ast.Name) and e_.id.isupper())
    in_loop_sets = {pseudo(n.targets[0]) for n in ast.walk(loop) if isinstance(n, ast.Assign) and pseudo(n.targets[0]) and const_like(n.value)}
    pre = loop._parent.body[:loop._parent.body.index(loop)]
    initial_state = {(pseudo(n.targets[0]), u(n.value)) for st_ in pre for n in ast.walk(st_) if isinstance(n, ast.Assign)
                     and pseudo(n.targets[0]) in in_loop_sets and const_like(n.value)}
    state_vars = {v_ for v_, _ in initial_state}
    after_state = set()

    def cond_atoms(t, pol):
        """(state variable, value text, polarity) atoms of a guard: `flag` -> (flag, 'True', pol); `state == C` -> (state, C, pol)"""
        t, pol = _ncmp(t, pol)
        if isinstance(t, ast.Name) and t.id in state_vars:
            return [(t.id, 'True', pol), (t.id, 'False', not pol)]
        if isinstance(t, ast.Compare) and len(t.ops) == 1 and isinstance(t.ops[0], ast.Eq) and pseudo(t.left) in state_vars:
            return [(pseudo(t.left), u(t.comparators[0]), pol)]
        return []

    def state_conds(p_):
        out = []
        for t, pol in p_.guards():
            out += cond_atoms(t, pol)
        return out
    seen_paths = []
    for p in Enumerator(where=f.qualname).body_paths(loop):
        val = at.path_atoms(p)
        if val is None or p.term == RAISE:
            continue
        nodes = list(path_nodes(p))
        apps = [c for c in nodes if isinstance(c, ast.Call) and isinstance(c.func, ast.Attribute) and c.func.attr == 'append'
                and pseudo(c.func.value) == lst]
        own = [c for c in apps if pseudo(c.args[0]) == var]
        tgt = [c for c in apps if pseudo(c.args[0]) != var]
        incs = [n for n in nodes if isinstance(n, ast.AugAssign) and isinstance(n.op, ast.Add)
                and isinstance(n.value, ast.Constant) and n.value.value == 1]
        m = val.get(('MATCH',))
        if m is None:
            # the `elif suffix: assert not match` branch
            m = False if any(it.kind == 'assert' and 'not' in u(it.node.test) for it in p.items) else None
        seen_paths.append((state_conds(p), m))
        if m is True:
            run.check(not own and not tgt and len(incs) == 1, 'CAT', where(repo, loop), f.qualname,
                      stream.fmt_atoms(val), 'a selected resource must lose its descriptor and be counted exactly once')
            if incs:
                counter = pseudo(incs[0].target)
        elif m is False:
            run.check(len(own) == 1 and not incs, 'CAT', where(repo, loop), f.qualname, stream.fmt_atoms(val),
                      'an unselected resource must keep its descriptor exactly once and not be counted')
            if tgt:
                # the run has ended: the target is placed once, before this resource, and the scan state moves to "after the run"
                # (whatever the encoding: two booleans, one state variable): the path records a new state value, was neither in
                # the initial state nor already in that new state
                sets_after = {(pseudo(n.targets[0]), u(n.value)) for n in nodes if isinstance(n, ast.Assign) and pseudo(n.targets[0])
                              and isinstance(n.value, (ast.Constant, ast.Name)) and pseudo(n.targets[0]) in state_vars}
                conds = state_conds(p)
                not_after = all((v_, c_, False) in conds for v_, c_ in sets_after)
                not_initial = any((v_, c_, False) in conds for v_, c_ in initial_state)
                after_state.update(sets_after)
                run.check(len(tgt) == 1 and nodes.index(tgt[0]) < nodes.index(own[0]) and bool(sets_after) and not_after and not_initial,
                          'CAT', where(repo, tgt[0]), f.qualname, stream.fmt_atoms({a: v for a, v in val.items() if a[0] == 'MATCH'}) + ' places target',
                          'the target descriptor is not placed exactly once, before the first unselected resource that '
                          'follows the selected run')
    # once the scan is "after the run", a further selected resource is refused (assert / raise): the selected resources must be
    # consecutive, because the stream phase takes num_concatenated consecutive streams for the one target - a selected resource
    # after a gap would keep its descriptor but be emitted as a second, undeclared concatenation
    late = [m_ for conds_, m_ in seen_paths if any((v_, c_, True) in conds_ for v_, c_ in after_state)]
    run.check(bool(after_state) and bool(late) and all(m_ is False for m_ in late), 'CAT', where(repo, loop), f.qualname,
              'after the run: assert not match',
              'a selected resource that follows unselected ones is not refused: its descriptor stays in the package while its rows are '
              'emitted as a second concatenated stream - descriptors and streams no longer agree')
    # post-loop placement: exactly when the scan never reached the "after the run" state
    body = loop._parent.body
    post = [st for st in body[body.index(loop) + 1:] if any(
        isinstance(c, ast.Call) and isinstance(c.func, ast.Attribute) and c.func.attr == 'append' and pseudo(c.func.value) == lst
        for c in ast.walk(st))]
    okp = len(post) == 1 and isinstance(post[0], ast.If) and not post[0].orelse and bool(after_state)
    okq = okp
    if okp:
        t_ = post[0].test
        # the atoms the test establishes: `A and B` gives A, B; `not (A or B)` gives not A, not B
        conj_p = []

        def split_(e_, pol_):
            if isinstance(e_, ast.UnaryOp) and isinstance(e_.op, ast.Not):
                split_(e_.operand, not pol_)
            elif isinstance(e_, ast.BoolOp) and ((isinstance(e_.op, ast.And) and pol_) or (isinstance(e_.op, ast.Or) and not pol_)):
                for v_ in e_.values:
                    split_(v_, pol_)
            else:
                conj_p.append((e_, pol_))
        split_(t_, True)
        conj = [c_ for c_, _ in conj_p]
        pc = [a_ for c_, pol_ in conj_p for a_ in cond_atoms(c_, pol_)]
        def excluded(v_, c_):
            # the condition rules the state value out: `v != c`, or `v == <another value>` of the same state variable
            return (v_, c_, False) in pc or any(a_[0] == v_ and a_[2] and a_[1] != c_ and a_[1] not in ('True', 'False') for a_ in pc)
        okp = bool(pc) and any(excluded(v_, c_) for v_, c_ in after_state)
        # ... and only when a run was started at all: with no selected resource there is no stream for the target, so its
        # descriptor must not be added (the scan is still in its initial state: that state is excluded too)
        okq = any(excluded(v_, c_) for v_, c_ in initial_state) or \
            any(isinstance(c_, ast.Compare) and counter is not None and pseudo(c_.left) == counter for c_ in conj)
    run.check(okp, 'CAT', where(repo, post[0]) if post else f.where, f.qualname, 'if not <after the run>: append(target)',
              'the target descriptor is not appended at the end exactly when no gap followed the selected run')
    run.check(okq, 'CAT', where(repo, post[0]) if post else f.where, f.qualname, 'target appended at the end only if a run was started',
              'with a selector that matches no resource the target descriptor is still appended although no stream is emitted for it: '
              'descriptors and streams no longer pair up (the run fails when the results are read)')
    # stream phase
    rls = [rl for rl in find_resloops(repo, res, func, ['package']) if rl.kind == 'for']
    sigs, _ = resloop_signature(repo, res, rls[0])
    itname = pseudo(rls[0].node.iter)
    for s in sigs:
        if s.atoms.get(('MATCH',)) is True:
            facts = Facts(func, include_nested=False)
            y = s.yields[0][1].value if s.yields else None
            good = isinstance(y, ast.Call) and any(isinstance(t, FuncInfo) and t is cat0 for t in res.resolve_call(y))
            if good:
                from sa.normalize import resolve_here
                from sa.pattern import match_expr as _me
                v = resolve_here(y.args[0], 0)
                for _ in range(3):
                    v = resolve_here(v, 0) if v is not None else v
                pats = ['itertools.chain([%s], itertools.islice(%s, %s - 1))' % (rls[0].var, itname, counter),
                        'chain([%s], islice(%s, %s - 1))' % (rls[0].var, itname, counter)]
                good = counter is not None and any(_me(pt, v) is not None for pt in pats)
            run.check(good, 'CAT', where(repo, rls[0].node), func.qualname,
                      'chain([resource], islice(it, %s - 1))' % counter,
                      'the stream phase does not chain exactly the selected run (current resource + the next count-1 '
                      'resources of the iterator being looped)')


def concatenate_target_schema(ctx):
    """TARGET-SCHEMA: the target resource declares exactly the requested fields, each once, and the row phase builds its rows over the
    same names.  Invariant carried through the package phase: names(target fields) and `needed` partition the keys of `fields`.
    * needed starts as the keys of `fields`;
    * in the loop over the fields of a selected resource a path either touches neither, or - under `mapped name in needed` - appends
      the field to the target schema, names it with the mapped name and removes that name from needed (all three or none);
    * after the selected resources, every name still needed is appended as a new field;
    * the stream phase hands the row builder the keys of `fields` again (not what is left of `needed`) and the same mapping."""
    run, repo = ctx.run, ctx.repo
    from sa.pathvals import PathValues
    from sa.pattern import match_expr as _me
    from sa.normalize import resolve_here
    run.rule('CATS', 'TARGET-SCHEMA (concatenate): names(target fields) and the still-needed names partition the keys of `fields` on every '
                     'path of the package phase; every name left is added as a field at the end; the row builder is given all keys of '
                     '`fields` and the mapping the schema was built with')
    func0 = repo.func('dataflows.processors.concatenate:concatenate.func')
    func = ctx.N(func0)
    fields_p = func0.parent.params[0] if func0.parent is not None else 'fields'

    once_ = {}
    for a_ in ast.walk(func.node):
        if isinstance(a_, ast.Assign) and len(a_.targets) == 1 and isinstance(a_.targets[0], ast.Name):
            once_.setdefault(a_.targets[0].id, []).append(a_.value)

    def local_(e, depth=0):
        # a local bound once to a part of the target descriptor (target_fields = target['schema']['fields']) stands for that part
        if depth < 4 and isinstance(e, ast.Name) and len(once_.get(e.id, [])) == 1:
            return local_(once_[e.id][0], depth + 1)
        if depth < 4 and isinstance(e, ast.Subscript) and isinstance(e.value, ast.Name) and len(once_.get(e.value.id, [])) == 1:
            return ast.Subscript(value=local_(e.value, depth + 1), slice=e.slice, ctx=ast.Load())
        return e

    def is_target_fields(e):
        e = local_(e)
        return isinstance(e, ast.Subscript) and isinstance(e.slice, ast.Constant) and e.slice.value == 'fields' and \
            isinstance(e.value, ast.Subscript) and isinstance(e.value.slice, ast.Constant) and e.value.slice.value == 'schema'

    def keys_of_fields(e):
        return e is not None and any(_me(pt % fields_p, e) is not None for pt in ('list(%s.keys())', 'list(%s)', '[_k for _k in %s]',
                                                                                  '[_k for _k in %s.keys()]', 'sorted(%s)'))
    # the field loop: a For whose body appends its own loop variable to the target's field list
    cands = []
    for lp in ast.walk(func.node):
        if isinstance(lp, ast.For) and isinstance(lp.target, ast.Name):
            inner_loops = [x for x in ast.walk(lp) if isinstance(x, ast.For) and x is not lp]
            for c in ast.walk(lp):
                if any(c in list(ast.walk(x)) for x in inner_loops):
                    continue
                # any of the three effects of moving a field into the target schema marks the loop
                hit = isinstance(c, ast.Call) and isinstance(c.func, ast.Attribute) and c.func.attr == 'append' and \
                    is_target_fields(c.func.value) and c.args and pseudo(c.args[0]) == lp.target.id
                hit = hit or (isinstance(c, ast.Assign) and isinstance(c.targets[0], ast.Subscript) and
                              pseudo(c.targets[0].value) == lp.target.id and isinstance(c.targets[0].slice, ast.Constant)
                              and c.targets[0].slice.value == 'name')
                if hit:
                    cands.append(lp)
    cands = list(dict.fromkeys(cands))
    if len(cands) != 1:
        raise AnalysisError('concatenate: the loop that adds the fields of a selected resource to the target schema was not found')
    fl = cands[0]
    fv = fl.target.id
    needed = None
    n_paths = 0
    mapping = None
    for p in Enumerator(where=func.qualname).body_paths(fl):
        if p.term == RAISE:
            continue
        n_paths += 1
        pv = PathValues(p)
        calls = [c for o_, c in pv.stmts if isinstance(c, ast.Expr) and isinstance(c.value, ast.Call)]
        apps = [c.value for c in calls if isinstance(c.value.func, ast.Attribute) and c.value.func.attr == 'append'
                and is_target_fields(c.value.func.value)]
        rems = [c.value for c in calls if isinstance(c.value.func, ast.Attribute) and c.value.func.attr in ('remove', 'discard')
                and isinstance(c.value.func.value, ast.Name)]
        rens = [c for o_, c in pv.stmts if isinstance(c, ast.Assign) and isinstance(c.targets[0], ast.Subscript)
                and pseudo(c.targets[0].value) == fv and isinstance(c.targets[0].slice, ast.Constant) and c.targets[0].slice.value == 'name']
        if not apps and not rems and not rens:
            continue
        ok = len(apps) == 1 and len(rems) == 1 and len(rens) == 1 and pseudo(apps[0].args[0]) == fv
        if ok:
            nm = rems[0].args[0]
            b = _me("_m[%s['name']]" % fv, nm)
            ok = b is not None and u(rens[0].value) == u(nm)
            if ok:
                mapping = b['_m']
                needed = rems[0].func.value.id
                # admitted only while the mapped name is still needed (no field twice)
                gs = [(u(t), pol) for t, pol in pv.guards]
                ok = ('%s in %s' % (u(nm), needed), True) in gs or ('%s not in %s' % (u(nm), needed), False) in gs
        run.check(ok, 'CATS', where(repo, fl), func.qualname, 'append(field); field[name] = mapped; needed.remove(mapped) under `mapped in needed`',
                  'a path of the schema loop does not move exactly the mapped name from the needed names into the target schema: a '
                  'requested field is declared twice, never, or under another name than the rows carry', path=p.describe())
    run.floor('CATS', n_paths, 2, 'paths of the schema loop')
    if needed is None:
        raise AnalysisError('concatenate: the list of still-needed field names was not found')
    # initial value of needed, before the loop
    body = func.node.body
    top_of = {}
    for i, st_ in enumerate(body):
        for x in ast.walk(st_):
            top_of[id(x)] = i
    at_loop = top_of[id(fl)]
    inits = [a for a in own_nodes(func.node) if isinstance(a, ast.Assign) and pseudo(a.targets[0]) == needed]
    before = [a for a in inits if top_of[id(a)] < at_loop]
    run.check(len(before) == 1 and keys_of_fields(before[0].value), 'CATS', where(repo, before[0]) if before else func.where, func.qualname,
              '%s = list(%s.keys())' % (needed, fields_p), 'the needed names do not start as the keys of `fields`')
    # remaining names added after the selected resources
    rest = [lp for lp in own_nodes(func.node) if isinstance(lp, ast.For) and pseudo(lp.iter) == needed and top_of[id(lp)] > at_loop
            and isinstance(lp.target, ast.Name)]
    ok = len(rest) == 1 and len(rest[0].body) == 1 and isinstance(rest[0].body[0], ast.Expr)
    if ok:
        c = rest[0].body[0].value
        ok = isinstance(c, ast.Call) and isinstance(c.func, ast.Attribute) and c.func.attr == 'append' and is_target_fields(c.func.value) \
            and len(c.args) == 1
        if ok:
            d = c.args[0]
            nmv = None
            if isinstance(d, ast.Call) and u(d.func) == 'dict':
                nmv = [k.value for k in d.keywords if k.arg == 'name']
            elif isinstance(d, ast.Dict):
                nmv = [v for k, v in zip(d.keys, d.values) if isinstance(k, ast.Constant) and k.value == 'name']
            ok = bool(nmv) and pseudo(nmv[0]) == rest[0].target.id
    run.check(ok, 'CATS', where(repo, rest[0]) if rest else func.where, func.qualname, 'for name in needed: fields.append(dict(name=name, ...))',
              'a requested field that no selected resource has is not declared in the target schema (its rows still carry it, as null)')
    # the row builder gets all keys of `fields` and the same mapping
    cat0 = repo.func('dataflows.processors.concatenate:concatenator')
    calls = []
    for c in own_nodes(func.node):
        if not isinstance(c, ast.Call):
            continue
        try:
            eff = ctx.res.effective_call(c, func.module, func)      # arguments pre-bound by functools.partial merged in
        except Exception:
            eff = c
        if isinstance(eff.func, ast.Name) and eff.func.id == cat0.node.name:
            bound_ = dict(zip(cat0.params, eff.args))
            bound_.update({k.arg: k.value for k in eff.keywords if k.arg})
            calls.append((c, bound_))
    okc = len(calls) == 1 and set(calls[0][1]) == set(cat0.params[:3])
    if okc:
        call_, bound_ = calls[0]
        a1 = bound_[cat0.params[1]]
        if isinstance(a1, ast.Name):
            # the value the name has when the stream loop starts: its last assignment before the call's statement
            defs = [a for a in own_nodes(func.node) if isinstance(a, ast.Assign) and pseudo(a.targets[0]) == a1.id
                    and top_of[id(a)] < top_of[id(call_)]]
            defs.sort(key=lambda a: top_of[id(a)])
            last = defs[-1] if defs else None
            okc = bool(rest) and last is not None and keys_of_fields(last.value) and top_of[id(last)] > top_of[id(rest[0])]
        else:
            okc = keys_of_fields(a1)
        okc = okc and mapping is not None and u(bound_[cat0.params[2]]) == mapping
    calls = [c for c, _b in calls]
    run.check(okc, 'CATS', where(repo, calls[0]) if calls else func.where, func.qualname,
              'concatenator(chain, list(%s.keys()), <the mapping the schema was built with>)' % fields_p,
              'the row builder is not given all keys of `fields` (what is left of the needed names after the schema was built lacks the '
              'fields the resources have) or not the mapping the schema was built with: rows and target schema disagree')


def sources_clause(ctx):
    """sources(): the streams of the sub-flows are appended as they come, in order.  A sub-flow resource is yielded as the very
    object the sub-flow produced, or re-paired with a descriptor picked by its *position*; it is never looked up by its name -
    every in-memory source is called res_1 inside its own sub-flow, so names repeat across sub-flows and a table keyed by name
    pairs several streams with one descriptor."""
    import ast
    from sa.deps import names_in, pseudo
    from sa.model import find_resloops, resloop_signature, u, where
    run, repo, res = ctx.run, ctx.repo, ctx.res
    run.rule('SRC', 'SOURCES-PAIRING: every resource of a sub-flow is yielded once, in sub-flow order, as itself or re-wrapped with a '
                    'descriptor chosen by position - never through a lookup keyed by the resource name (names repeat across sub-flows)')
    sc = repo.cls('dataflows.processors.sources:sources')
    pr = ctx.N(sc.methods['process_resources'])
    inner = [n for n in ast.walk(pr.node) if isinstance(n, ast.For) and any(isinstance(y, ast.Yield) for y in ast.walk(n))
             and not any(isinstance(x, ast.For) and x is not n for x in ast.walk(n))]
    ok = len(inner) == 1
    if ok:
        lp = inner[0]
        var = lp.target.id if isinstance(lp.target, ast.Name) else None
        ys = [y for y in ast.walk(lp) if isinstance(y, ast.Yield)]
        for y in ys:
            if pseudo(y.value) == var:
                continue
        # any lookup keyed by the name of the resource being streamed
        keyed = []
        for n in ast.walk(lp):
            key = None
            if isinstance(n, ast.Subscript):
                key = n.slice
            elif isinstance(n, ast.Call) and isinstance(n.func, ast.Attribute) and n.func.attr in ('get', 'get_resource', 'pop', 'setdefault') and n.args:
                key = n.args[0]
            if key is not None and var in names_in(key) and ('name' in u(key)):
                keyed.append(n)
        names_held = {pseudo(a.targets[0]) for a in ast.walk(lp) if isinstance(a, ast.Assign) and len(a.targets) == 1
                      and any(k is a.value or k in list(ast.walk(a.value)) for k in keyed)}
        for n in ast.walk(lp):
            if isinstance(n, ast.Call) and isinstance(n.func, ast.Attribute) and n.func.attr in ('get', 'get_resource') and n.args and \
                    pseudo(n.args[0]) in names_held:
                keyed.append(n)
        ok = not keyed and bool(ys)
        run.check(ok, 'SRC', where(repo, lp), pr.qualname, 'for res in source.res_iter: yield res',
                  'a sub-flow resource is re-paired through a lookup keyed by its name (%s): sub-flow names are not unique, so several '
                  'streams end up under one descriptor' % (u(keyed[0])[:60] if keyed else 'no yield'))
        # ... and the sub-flow's resource iterator is driven to its end: it is iterated as it is (or numbered / padded), not zipped
        # with something shorter - what a step of the sub-flow does after its last resource (a finalizer, an error raised at the
        # end of a package step) happens, and surfaces, only when the iterator is asked once more
        from rules.stream import subst_once as _so16
        from sa.pattern import match_expr as _me16
        it_ = _so16(pr.node, lp.iter)
        if isinstance(it_, ast.Call) and isinstance(it_.func, ast.Name):
            # the loops moved into a generator helper of the module: the loop that yields the sub-flow resources is in there
            g_ = repo.func('%s:%s' % (sc.module.name, it_.func.id), None)
            if g_ is not None and not isinstance(g_.node, ast.Lambda) and g_.is_generator:
                gl_ = [n for n in ast.walk(g_.node) if isinstance(n, ast.For) and any(isinstance(y, ast.Yield) for y in ast.walk(n))
                       and not any(isinstance(x, ast.For) and x is not n for x in ast.walk(n))]
                if len(gl_) == 1 and isinstance(gl_[0].target, ast.Name) and \
                        all(pseudo(y.value) == gl_[0].target.id for y in ast.walk(gl_[0]) if isinstance(y, ast.Yield)):
                    it_ = _so16(g_.node, gl_[0].iter)
        direct = isinstance(it_, ast.Attribute) and it_.attr == 'res_iter'
        direct = direct or (isinstance(it_, ast.Call) and u(it_.func) == 'enumerate' and it_.args and isinstance(it_.args[0], ast.Attribute)
                            and it_.args[0].attr == 'res_iter')
        direct = direct or (isinstance(it_, ast.Call) and u(it_.func) in ('itertools.zip_longest', 'zip_longest') and
                            any(isinstance(a_, ast.Attribute) and a_.attr == 'res_iter' for a_ in it_.args))
        run.check(direct, 'SRC', where(repo, lp), pr.qualname, 'the resource iterator of the sub-flow is iterated to its end',
                  'the resources of a sub-flow are taken through %s: the sub-flow\'s iterator is not asked past its last resource, so a '
                  'step of the sub-flow that fails (or finalises) at the end of its stream never does - the run succeeds' % u(lp.iter)[:60])
    else:
        run.fail('SRC', pr.where, pr.qualname, 'loop over the sub-flow resources', 'the sub-flow resources are not streamed one by one')


def check(ctx):
    run = ctx.run
    steps = [ctx.repo.func('dataflows.processors.%s:%s.func' % (n, n)) for n in STEPS]
    stream.r6_consumption(ctx, steps)
    stream.r6_identity(ctx, steps)
    stream.r6_count_agreement(ctx, steps)
    stream.r26_append_order(ctx)
    duplicate_clauses(ctx)
    concatenate_clauses(ctx)
    concatenate_target_schema(ctx)
    sources_clause(ctx)
    from rules import rows as _rows16
    _rows16.sample_rechained(ctx)       # iterables: every row read ahead for the schema is handed on
    from rules import independence
    independence.r28_functions(ctx, [('dataflows.processors.concatenate:concatenator', {}),
                                     ('dataflows.processors.duplicate:saver', {}), ('dataflows.processors.duplicate:loader', {})])
    run.trusted += ['LF5 KVFile: items() iterates in ascending key order; equal keys overwrite', 'LF9 KVFile.insert_generator yields each pair before serialising it (read in the installed kvfile/base.py)',
                    'itertools.chain / islice']
    run.not_decided += ["concatenate's run detection beyond the structural typestate checked here; field mapping on values",
                        'that the replayed copy equals the original (KVFile serialisation of values)']
    return ('Guarded signatures prove descriptor/stream count agreement, identity pass-through of other resources and consumption '
            'for delete_resource, duplicate, update_resource and (consumption/pass-through) concatenate; appended resources come '
            'after upstream ones in both phases for iterable_loader, load and sources; duplicate\'s save/replay wiring and '
            'concatenate\'s row expansion, counting and target placement are checked structurally on every path.',
            ['LF5'])
