"""C17 filter_rows, deduplicate and unpivot neither lose nor invent data (DESIGN §5 C17)."""
import ast

from rules import coupling, observers, stream
from sa.deps import Facts, base_name, names_in, pseudo
from sa.loader import AnalysisError, FuncInfo, own_nodes
from sa.model import norm_compare, norm_guard, row_loops, rowloop_signature, u, where
from sa.normalize import resolve_here
from sa.pathvals import PathValues
from sa.pattern import match_expr, match_stmt
from sa.paths import CONTINUE, FALL, RAISE, Enumerator, path_nodes


def returned_closure(ctx, fi):
    """The nested function (FuncInfo) or lambda a factory returns."""
    rets = [n for n in own_nodes(fi.node) if isinstance(n, ast.Return) and n.value is not None]
    if len(rets) != 1:
        return None
    v = rets[0].value
    if isinstance(v, ast.Lambda):
        return ctx.repo.func_of_node.get(id(v))
    if isinstance(v, ast.Name):
        for n in own_nodes(fi.node):
            if isinstance(n, ast.FunctionDef) and n.name == v.id:
                return ctx.repo.func_of_node.get(id(n))
    return None


def bind_args(call, fi):
    """parameter name -> argument expression, for positional / keyword arguments of a plain call"""
    out = {}
    for p_, a_ in zip(fi.params, call.args):
        out[p_] = a_
    for k in call.keywords:
        if k.arg:
            out[k.arg] = k.value
    return out


def callee(ctx, call, fi):
    tg = [t for t in ctx.res._resolve_callee(call.func, fi.module, fi) if isinstance(t, FuncInfo)]
    return tg[0] if len(tg) == 1 else None


def filter_clauses(ctx):
    run, repo = ctx.run, ctx.repo
    run.rule('FLT', 'FILTER: the row wrapper yields the incoming row object iff condition(row) holds, never stores into it and has no '
                    'other exit; the old-style condition is any(==) over `equals` or any(!=) over `not_equals`; the user condition '
                    'takes precedence')
    fr = repo.func('dataflows.processors.filter_rows:filter_rows')
    func0 = returned_closure(ctx, fr)
    if func0 is None:
        raise AnalysisError('filter_rows: package step not found')
    func = ctx.N(func0)
    # the row wrapper: the generator function the selected resource is handed to
    wcalls = []
    for c in own_nodes(func0.node):
        if isinstance(c, ast.Call):
            h = callee(ctx, c, func0)
            if h is not None and h.is_generator:
                wcalls.append((c, h))
    if len(wcalls) != 1:
        raise AnalysisError('filter_rows.func: expected one row-wrapper call, found %d' % len(wcalls))
    wcall, pr0 = wcalls[0]
    pr = ctx.N(pr0)
    loop, var, src = observers.single_row_loop(ctx, pr)
    cond = [p for p in pr.params if p != src][0]
    sigs = rowloop_signature(pr, loop, var)
    seen = set()
    for s in sigs:
        gs = [norm_compare(resolve_here(t), pol) for t, pol in s.guards]
        calls = [(t, pol) for t, pol in gs if isinstance(t, ast.Call) and pseudo(t.func) == cond
                 and [pseudo(a) for a in t.args] == [var] and not t.keywords]
        if len(calls) != 1 or len(gs) != 1:
            run.fail('FLT', where(repo, loop), pr.qualname, s.describe(), 'filter decision is not exactly condition(row)')
            continue
        pol = calls[0][1]
        seen.add(pol)
        kinds = [k for k, _ in s.yields]
        run.check((kinds == ['identity']) == pol and (not kinds or pol) and not s.stores and s.term in (FALL, CONTINUE), 'FLT',
                  where(repo, loop), pr.qualname, s.describe(),
                  'a row satisfying the condition must be yielded unchanged exactly once and a row failing it never')
    run.check(seen == {True, False}, 'FLT', where(repo, loop), pr.qualname, 'both outcomes of condition(row)', 'filter has no decision')
    # the wrapper gets the (possibly defaulted) condition
    b = bind_args(wcall, pr0)
    cond_name = pseudo(b.get(cond)) if b.get(cond) is not None else None
    run.check(cond_name == 'condition', 'FLT', func.where, func.qualname, 'row wrapper(<resource>, condition)',
              'the row wrapper is not given the condition')
    # precedence: on every path through filter_rows, `condition` keeps the caller's value when that is truthy / not None and
    # is the old-style condition of (equals, not_equals) otherwise
    # factories of the module stay calls (the clause names the old-style factory by its call)
    frn = ctx.N(fr, keep=tuple(f_.node.name for f_ in repo.functions.values() if f_.module is fr.module and f_.parent is None and f_.cls is None))
    osc = None
    ok, n = True, 0

    def old_style(v):
        nonlocal osc
        if not isinstance(v, ast.Call):
            return False
        # resolve through the un-normalised function (copied nodes carry no parent links): by callee name
        name = pseudo(v.func)
        h = repo.func('dataflows.processors.filter_rows:%s' % name, None) if name else None
        if h is None:
            return False
        bb = bind_args(v, h)
        if [pseudo(bb.get(p_)) for p_ in h.params[:2]] != ['equals', 'not_equals'] or len(h.params) != 2:
            return False
        osc = h
        return True
    for p in Enumerator(where=fr.qualname).paths(frn.node.body):
        pv = PathValues(p)
        truthy = None
        for t, pol in pv.guards:
            t, pol = norm_compare(t, pol)
            if pseudo(t) == 'condition':
                truthy = pol
            elif match_expr('condition is None', t) is not None:
                truthy = not pol
        v = pv.value('condition')
        n += 1
        if truthy is True:
            ok = ok and (v is None or pseudo(v) == 'condition')
        elif truthy is False:
            ok = ok and v is not None and old_style(v)
        else:
            # unguarded spellings: `condition = condition or old(...)`, `condition = old(...) if not condition else condition`
            good = False
            if isinstance(v, ast.BoolOp) and isinstance(v.op, ast.Or) and len(v.values) == 2 and pseudo(v.values[0]) == 'condition':
                good = old_style(v.values[1])
            elif isinstance(v, ast.IfExp) and pseudo(v.test) == 'condition' and pseudo(v.body) == 'condition':
                good = old_style(v.orelse)
            ok = ok and good
    run.check(ok and n > 0 and osc is not None, 'FLT', fr.where, fr.qualname,
              'condition absent -> old-style condition of (equals, not_equals); present -> kept',
              'the callable condition does not take precedence / equals and not_equals are swapped')
    if osc is None:
        return
    clo = returned_closure(ctx, osc)
    eq, ne = osc.params
    if clo is None:
        # functools.partial(<module-level predicate>, equals, not_equals): the predicate's remaining parameter is the row
        rets_ = [n for n in own_nodes(osc.node) if isinstance(n, ast.Return) and n.value is not None]
        pc = rets_[0].value if len(rets_) == 1 else None
        tgt = None
        if isinstance(pc, ast.Call) and ctx.res.external_name(pc) == 'functools.partial' and pc.args and not pc.keywords:
            tgt = callee(ctx, ast.Call(func=pc.args[0], args=[], keywords=[]), osc) if isinstance(pc.args[0], ast.Name) else None
            if tgt is None and isinstance(pc.args[0], ast.Name):
                tgt = repo.func('%s:%s' % (osc.module.name, pc.args[0].id), None)
        if tgt is None or len(tgt.params) != len(pc.args):
            raise AnalysisError('%s: returned predicate not found' % osc.qualname)
        bound = dict(zip(tgt.params, [pseudo(a) for a in pc.args[1:]]))
        inv = {v: k for k, v in bound.items()}
        if set(inv) != {eq, ne}:
            raise AnalysisError('%s: the predicate is not bound to (equals, not_equals)' % osc.qualname)
        clo = tgt
        rowp = tgt.params[-1]
        eq, ne = inv[eq], inv[ne]
    else:
        rowp = clo.params[0]
    if isinstance(clo.node, ast.Lambda):
        value = clo.node.body
    else:
        body = ctx.N(clo).node.body
        body = [st for st in body if not (isinstance(st, ast.Expr) and isinstance(st.value, ast.Constant))]
        value = body[0].value if len(body) == 1 and isinstance(body[0], ast.Return) else None
    pats = ['any((%(r)s[_k] == _v for _o in %(e)s for (_k, _v) in _o.items())) or '
            'any((%(r)s[_k2] != _v2 for _o2 in %(n)s for (_k2, _v2) in _o2.items()))',
            'any([%(r)s[_k] == _v for _o in %(e)s for (_k, _v) in _o.items()]) or '
            'any([%(r)s[_k2] != _v2 for _o2 in %(n)s for (_k2, _v2) in _o2.items()])']
    ok = value is not None and any(match_expr(pt % dict(r=rowp, e=eq, n=ne), value) is not None for pt in pats)
    if not ok and not isinstance(clo.node, ast.Lambda) and len(body) == 3:
        # the same disjunction unrolled: two loop nests that answer True at the first hit, then False
        l1 = match_stmt('for _o in %(e)s:\n    for (_k, _v) in _o.items():\n        if %(r)s[_k] == _v:\n            return True'
                        % dict(r=rowp, e=eq), body[0])
        l2 = match_stmt('for _o in %(n)s:\n    for (_k, _v) in _o.items():\n        if %(r)s[_k] != _v:\n            return True'
                        % dict(r=rowp, n=ne), body[1])
        ok = l1 is not None and l2 is not None and match_stmt('return False', body[2]) is not None
    run.check(ok, 'FLT', clo.where, clo.qualname, 'any(row[k] == v ...equals) or any(row[k] != v ...not_equals)',
              'the equals / not_equals condition is not "any equal in equals, or any different in not_equals"')


def dedup_clauses(ctx):
    run, repo = ctx.run, ctx.repo
    run.rule('DED', 'DEDUPLICATE: with an empty primary key all rows pass through; otherwise a row is yielded (unchanged) iff its '
                    'key - the tuple of its primary-key values in key order - was not seen before, and the key is recorded on that '
                    'same path before the next row')
    step0 = returned_closure(ctx, repo.func('dataflows.processors.deduplicate:deduplicate'))
    wc = []
    for c in own_nodes(step0.node):
        if isinstance(c, ast.Call):
            h = callee(ctx, c, step0)
            if h is not None and h.is_generator:
                wc.append(h)
    if len(wc) != 1:
        raise AnalysisError('deduplicate.func: expected one row-wrapper call, found %d' % len(wc))
    d = ctx.N(wc[0])
    rows = d.params[0]
    facts = Facts(d, include_nested=False)
    pk_pats = ["%s.res.descriptor['schema'].get('primaryKey', [])" % rows,
               "%s.res.descriptor['schema'].get('primaryKey') or []" % rows,
               "%s.res.descriptor.get('schema', {}).get('primaryKey', [])" % rows]
    pkv = [n for n, vs in facts.assigns.items() if vs and all(any(match_expr(pt, v) is not None for pt in pk_pats) for v in vs)]
    run.check(len(pkv) == 1, 'DED', d.where, d.qualname, "pk = rows.res.descriptor['schema'].get('primaryKey', [])",
              'the key is not the resource\'s primary key')
    if not pkv:
        return
    pk = pkv[0]
    paths = Enumerator(where=d.qualname).paths(d.node.body)

    def pk_truth(p):
        for t, pol in p.guards():
            t, pol = norm_compare(t, pol)
            if pseudo(t) == pk:
                return pol
            if match_expr('%s == []' % pk, t) is not None or match_expr('%s == 0' % ('len(%s)' % pk), t) is not None:
                return not pol
        return None
    empty = [p for p in paths if pk_truth(p) is False]
    run.check(bool(empty) and all([u(y) for y in path_nodes(p, into_loops=True) if isinstance(y, (ast.Yield, ast.YieldFrom))]
                                  == ['(yield from %s)' % rows] for p in empty), 'DED', d.where, d.qualname,
              'empty primary key -> yield from rows', 'without a primary key rows must pass through unchanged')
    loop, var, _ = observers.single_row_loop(ctx, d)
    sigs = rowloop_signature(d, loop, var)
    keyx = seen = None
    for s in sigs:
        g = [norm_compare(t, pol) for t, pol in s.guards]
        g = [(t, pol) for t, pol in g if isinstance(t, ast.Compare) and isinstance(t.ops[0], ast.In)]
        if len(g) != 1 or len(s.guards) != 1:
            run.fail('DED', where(repo, loop), d.qualname, s.describe(), 'dedup decision is not a single membership test')
            continue
        t, is_in = g[0]
        seen = pseudo(t.comparators[0])
        keyx = resolve_here(t.left)
        adds = [c for c in s.calls if isinstance(c.func, ast.Attribute) and c.func.attr == 'add'
                and pseudo(c.func.value) == seen and len(c.args) == 1 and u(resolve_here(c.args[0])) == u(keyx)]
        kinds = [k for k, _ in s.yields]
        if is_in:
            run.check(not kinds and not adds and s.term in (CONTINUE, FALL), 'DED', where(repo, loop), d.qualname,
                      'seen key: ' + s.describe(), 'a row whose key was seen before must be dropped')
        else:
            run.check(kinds == ['identity'] and len(adds) == 1 and not s.stores and s.term in (FALL, CONTINUE), 'DED',
                      where(repo, loop), d.qualname, 'new key: ' + s.describe(),
                      'the first row of a key must be yielded unchanged and its key recorded on the same path')
    if keyx is not None:
        pats = ['tuple((%s[_k] for _k in %s))' % (var, pk), 'tuple([%s[_k] for _k in %s])' % (var, pk),
                'tuple((%s.get(_k) for _k in %s))' % (var, pk), 'tuple([%s.get(_k) for _k in %s])' % (var, pk)]
        run.check(any(match_expr(pt, keyx) is not None for pt in pats), 'DED', where(repo, loop), d.qualname,
                  'key = tuple(row[k] for k in pk)', 'the key is not the tuple of all primary-key values of the row')
        created = [n for n in own_nodes(d.node) if isinstance(n, ast.Assign) and pseudo(n.targets[0]) == seen
                   and isinstance(n.value, (ast.Call, ast.Set, ast.Dict, ast.List)) and not names_in(n.value) - {'set', 'dict', 'list'}]
        inloop = [n for n in ast.walk(loop) if isinstance(n, ast.Assign) and pseudo(n.targets[0]) == seen]
        run.check(len(created) == 1 and not inloop and seen not in d.all_params, 'DED', where(repo, loop), d.qualname,
                  'seen set created empty, once per resource, before the row loop',
                  'the set of seen keys is not a fresh, empty set for each resource (reset while iterating, or shared between '
                  'resources: a key seen in an earlier resource would suppress the first row of that key in a later one)')


class _FilterCanon(ast.NodeTransformer):
    """list(filter(F, X)) -> [v for v in X if F(v)], with a lambda F beta-reduced (local to the unpivot clause: the list is
    built eagerly either way and the predicate is applied to each element of X in order)."""

    def visit_Call(self, node):
        self.generic_visit(node)
        if isinstance(node.func, ast.Name) and node.func.id == 'list' and len(node.args) == 1 and not node.keywords and \
                isinstance(node.args[0], ast.Call) and isinstance(node.args[0].func, ast.Name) and node.args[0].func.id == 'filter' \
                and len(node.args[0].args) == 2:
            f, xs = node.args[0].args
            if isinstance(f, ast.Lambda) and len(f.args.args) == 1 and not f.args.defaults:
                v, test = f.args.args[0].arg, f.body
            else:
                v = '_fx'
                test = ast.Call(func=f, args=[ast.Name(id=v, ctx=ast.Load())], keywords=[])
            out = ast.ListComp(elt=ast.Name(id=v, ctx=ast.Load()),
                               generators=[ast.comprehension(target=ast.Name(id=v, ctx=ast.Store()), iter=xs, ifs=[test], is_async=0)])
            return ast.fix_missing_locations(ast.copy_location(out, node))
        return node


def key_derivation_clause(ctx, func, sl):
    """KEY-DERIVATION: for every field the specification entry selects, each key template of the entry yields one key value under the
    same key: <entry pattern>.fullmatch(<field name>).expand(template) exactly when regex is on and the template is a string, the template itself
    otherwise; the fresh mapping is stored as the field's keys.  Decided path by path over the body of the loop over the templates."""
    run, repo = ctx.run, ctx.repo
    from sa.pathvals import subst
    spec = sl.target.id if isinstance(sl.target, ast.Name) else None
    # names bound exactly once inside the specification loop (original_key_values = u_field['keys'])
    cnt, val = {}, {}
    for n in ast.walk(sl):
        if isinstance(n, ast.Assign) and len(n.targets) == 1 and isinstance(n.targets[0], ast.Name):
            cnt[n.targets[0].id] = cnt.get(n.targets[0].id, 0) + 1
            val[n.targets[0].id] = n.value
        elif isinstance(n, (ast.For, ast.comprehension)):
            for t_ in ast.walk(n.target):
                if isinstance(t_, ast.Name):
                    cnt[t_.id] = cnt.get(t_.id, 0) + 2
    once = {k: v for k, v in val.items() if cnt[k] == 1}
    keys_pat = "%s['keys']" % spec
    found = 0
    for fl in ast.walk(sl):
        if not (isinstance(fl, ast.For) and isinstance(fl.target, ast.Name)):
            continue
        # the same derivation written as one expression: X = {k: V for k... in entry keys}  is  D = {}; for k...: D[k] = V; X = D
        nb = []
        for st_ in fl.body:
            dc = st_.value if isinstance(st_, ast.Assign) and len(st_.targets) == 1 else None
            if isinstance(dc, ast.DictComp) and len(dc.generators) == 1 and not dc.generators[0].ifs:
                def _store(v_):
                    return ast.Assign(targets=[ast.Subscript(value=ast.Name(id='_keys_', ctx=ast.Load()), slice=dc.key, ctx=ast.Store())],
                                      value=v_)
                body_ = [ast.If(test=dc.value.test, body=[_store(dc.value.body)], orelse=[_store(dc.value.orelse)])] \
                    if isinstance(dc.value, ast.IfExp) else [_store(dc.value)]
                new_ = [ast.Assign(targets=[ast.Name(id='_keys_', ctx=ast.Store())], value=ast.Dict(keys=[], values=[])),
                        ast.For(target=dc.generators[0].target, iter=dc.generators[0].iter, body=body_, orelse=[], type_comment=None),
                        ast.Assign(targets=st_.targets, value=ast.Name(id='_keys_', ctx=ast.Load()))]
                for n_ in new_:
                    ast.copy_location(n_, st_)
                    ast.fix_missing_locations(n_)
                    for c_ in ast.walk(n_):
                        c_._parent = getattr(c_, '_parent', fl)
                nb += new_
            else:
                nb.append(st_)
        fl.body = nb
        for kl in fl.body:
            if not isinstance(kl, ast.For):
                continue
            it = subst(kl.iter, once)
            items = match_expr('__D.items()', it)
            src = items['__D'] if items is not None else it
            if u(src) != keys_pat:
                continue
            found += 1
            fld = fl.target.id
            if items is not None and isinstance(kl.target, ast.Tuple) and len(kl.target.elts) == 2:
                key, tmpl = kl.target.elts[0].id, kl.target.elts[1].id
            elif items is None and isinstance(kl.target, ast.Name):
                key, tmpl = kl.target.id, "%s[%s]" % (keys_pat, kl.target.id)
            else:
                run.fail('UNP', where(repo, kl), func.qualname, u(kl.target), 'the loop over the key templates does not bind the key')
                continue
            # the template is expanded on the match that SELECTED the field - the full match of the entry's pattern on the field name.
            # (re.sub(pattern, template, name) substitutes the leftmost match of a search: for `a|ab` on the field `ab`, selected through
            # the second alternative, it rewrites only the `a` and derives `<template>b`; for `.*` it derives the template twice)
            want_sub = ["re.compile(%s['name']).fullmatch(%s['name']).expand(%s)" % (spec, fld, tmpl),
                        "re.fullmatch(%s['name'], %s['name']).expand(%s)" % (spec, fld, tmpl)]
            for p in Enumerator(where=func.qualname).body_paths(kl):
                pv = PathValues(p, env=dict(once))
                g_regex = g_str = None
                other = []
                atoms = []
                for t, pol in pv.guards:
                    t, pol = norm_guard(t, pol)
                    if isinstance(t, ast.BoolOp) and isinstance(t.op, ast.And) and pol:
                        atoms += [norm_guard(v_, True) for v_ in t.values]
                    elif isinstance(t, ast.BoolOp) and isinstance(t.op, ast.Or) and not pol:
                        atoms += [norm_guard(v_, False) for v_ in t.values]
                    elif isinstance(t, ast.BoolOp) and isinstance(t.op, ast.And) and all(
                            pseudo(v_) == 'regex' or match_expr('isinstance(%s, str)' % tmpl, v_) is not None for v_ in t.values):
                        pass        # not (regex and isinstance(template, str)): the complement of the substitution case
                    elif isinstance(t, ast.BoolOp) and isinstance(t.op, ast.Or) and pol and all(
                            isinstance(v_, ast.UnaryOp) and isinstance(v_.op, ast.Not) and
                            (pseudo(v_.operand) == 'regex' or match_expr('isinstance(%s, str)' % tmpl, v_.operand) is not None)
                            for v_ in t.values):
                        pass        # the same complement written `not regex or not isinstance(template, str)`
                    else:
                        atoms.append((t, pol))
                for t, pol in atoms:
                    if pseudo(t) == 'regex':
                        g_regex = pol
                    elif match_expr('isinstance(%s, str)' % tmpl, t) is not None:
                        g_str = pol
                    else:
                        other.append(u(t))
                stores = [c_ for o_, c_ in pv.stmts if isinstance(c_, ast.Assign) and isinstance(c_.targets[0], ast.Subscript)
                          and u(c_.targets[0].slice) == key]
                ok = len(stores) == 1 and not other and p.term in (FALL, CONTINUE)
                if ok:
                    v = stores[0].value
                    if isinstance(v, ast.IfExp) and g_regex is None and g_str is None:
                        # the two cases in one conditional expression
                        tt_, tp_ = norm_guard(v.test, True)
                        conj_ = tt_.values if isinstance(tt_, ast.BoolOp) and isinstance(tt_.op, ast.And) else []
                        is_case = tp_ and len(conj_) == 2 and any(pseudo(c_) == 'regex' for c_ in conj_) and \
                            any(match_expr('isinstance(%s, str)' % tmpl, c_) is not None for c_ in conj_)
                        ok = is_case and any(match_expr(w_, v.body) is not None for w_ in want_sub) and u(v.orelse) == tmpl
                    elif g_regex is True and g_str is True:
                        ok = any(match_expr(w_, v) is not None for w_ in want_sub)
                    else:
                        ok = u(v) == tmpl
                run.check(ok, 'UNP', where(repo, kl), func.qualname,
                          'keys[key] = <entry pattern>.fullmatch(field name).expand(template) iff regex and the template is a string, else the template',
                          'a derived key value is not the back-reference substitution of its template against the field name exactly when '
                          'regex is on and the template is a string (or a key is skipped): the rows unpivoted from different columns '
                          'carry wrong or indistinguishable keys', detail=str(p.describe()))
            # the mapping filled by the loop is fresh per field and becomes the field's keys
            dn = set(pseudo(c_.targets[0].value) for c_ in ast.walk(kl) if isinstance(c_, ast.Assign)
                     and isinstance(c_.targets[0], ast.Subscript) and u(c_.targets[0].slice) == key)
            okd = len(dn) == 1
            if okd:
                d_ = dn.pop()
                i_k = fl.body.index(kl)
                okd = any(match_stmt('%s = {}' % d_, s_) is not None or match_stmt('%s = dict()' % d_, s_) is not None for s_ in fl.body[:i_k]) \
                    and any(match_stmt("%s['keys'] = %s" % (fld, d_), s_) is not None for s_ in fl.body[i_k + 1:])
            run.check(okd, 'UNP', where(repo, kl), func.qualname, "fresh mapping per field; field['keys'] = mapping",
                      'the derived key values are not collected in a fresh mapping per field and stored as that field\'s keys')
    run.floor('UNP', found, 1, 'loops deriving the key values of an unpivoted field')


def unpivot_clauses(ctx):
    run, repo = ctx.run, ctx.repo
    run.rule('UNP', 'UNPIVOT: for each input row (outer loop) and each unpivoted field (inner loop, in specification order) exactly '
                    'one fresh row is yielded inside the inner loop, made of a copy of that field\'s key values, every kept field '
                    'of the input row and the cell of that field under the value name; nothing is yielded elsewhere')
    step0 = returned_closure(ctx, repo.func('dataflows.processors.unpivot:unpivot'))
    wc = []
    for c in own_nodes(step0.node):
        if isinstance(c, ast.Call):
            h = callee(ctx, c, step0)
            if h is not None and h.is_generator:
                wc.append((c, h))
    if len(wc) != 1:
        raise AnalysisError('unpivot.func: expected one row-wrapper call, found %d' % len(wc))
    f = ctx.N(wc[0][1])
    if len(f.params) != 4:
        raise AnalysisError('%s: expected (rows, unpivot fields, kept fields, value field)' % f.qualname)
    rows, unp, keep, extra = f.params
    loops = [n for n in ast.walk(f.node) if isinstance(n, ast.For)]
    outer = [l for l in loops if pseudo(l.iter) == rows]
    inner = [l for l in loops if pseudo(l.iter) == unp]
    ok = len(outer) == 1 and len(inner) == 1 and inner[0] in list(ast.walk(outer[0]))
    run.check(ok, 'UNP', f.where, f.qualname, 'for row in rows: for field in fields_to_unpivot',
              'rows outer / unpivot fields inner loop nest not found (order of output rows changes)')
    if not ok:
        return
    rowv, fv = outer[0].target.id, inner[0].target.id
    ys = [y for y in ast.walk(f.node) if isinstance(y, (ast.Yield, ast.YieldFrom))]
    run.check(all(y in list(ast.walk(inner[0])) for y in ys), 'UNP', f.where, f.qualname, 'all yields inside the inner loop',
              'rows are emitted outside the per-field loop')
    names = dict(row=rowv, fv=fv, keep=keep, extra=extra)
    cell_pats = ["%(row)s.get(%(fv)s['name'])", "%(row)s[%(fv)s['name']]"]
    for p in Enumerator(where=f.qualname).body_paths(inner[0]):
        y = [n for n in path_nodes(p) if isinstance(n, ast.Yield)]
        good = len(y) == 1 and p.term == FALL and isinstance(y[0].value, ast.Name) and y[0].value.id not in (rowv, fv)
        if good:
            nr = y[0].value.id
            stmts = [it.node for it in p.items if it.kind in ('stmt', 'loop')]
            # `ret = new_row; yield ret` (the tail of an inlined helper): follow plain name-to-name copies
            for _ in range(4):
                al = [st for st in stmts if isinstance(st, ast.Assign) and pseudo(st.targets[0]) == nr and isinstance(st.value, ast.Name)]
                if len(al) != 1:
                    break
                stmts = [st for st in stmts if st is not al[0]]
                nr = al[0].value.id
            names['nr'] = nr
            pvs = {id(o_): c_ for o_, c_ in PathValues(p).stmts}
            init = kept = cell = 0
            other = []
            for st in stmts:
                if not (nr in names_in(st)):
                    continue
                if isinstance(st, ast.Expr) and isinstance(st.value, ast.Yield):
                    continue
                e = match_stmt('%(nr)s = __V' % names, st)
                if e is not None and isinstance(e['__V'], ast.Call) and ctx.res.external_name(_orig(ctx, f, e['__V'])) == 'copy.deepcopy' \
                        and match_expr("%(fv)s['keys']" % names, e['__V'].args[0]) is not None:
                    init += 1
                    continue
                if any(match_stmt(pt % names, st) is not None for pt in (
                        'for _k in %(keep)s:\n    %(nr)s[_k] = %(row)s[_k]',
                        '%(nr)s.update({_k: %(row)s[_k] for _k in %(keep)s})',
                        '%(nr)s.update(((_k, %(row)s[_k]) for _k in %(keep)s))')):
                    kept += 1
                    continue
                st_v = pvs.get(id(st), st)      # with the temporaries of this path resolved (value = row.get(..); out[..] = value)
                if any(match_stmt(("%(nr)s[%(extra)s['name']] = " + cp) % names, st_v) is not None or
                       match_stmt(("__X[%(extra)s['name']] = " + cp) % names, st_v) is not None and
                       pseudo(st.targets[0].value) == nr for cp in cell_pats):
                    cell += 1
                    continue
                if isinstance(st, ast.Assign) and isinstance(st.targets[0], ast.Name) and st.targets[0].id != nr and \
                        not any(isinstance(x, ast.Name) and x.id == nr for x in ast.walk(st.value)):
                    continue        # a temporary that does not involve the new row
                other.append(st)
            order_ok = True
            good = init == 1 and kept == 1 and cell == 1 and not other
        run.check(good, 'UNP', where(repo, inner[0]), f.qualname, 'new_row = deepcopy(field keys) + kept fields + cell; yield new_row',
                  'an unpivoted row is not exactly keys + kept fields + the cell of this field (cells lost or invented)',
                  path=p.describe())
    # package phase: partition of the schema fields into unpivoted / kept, in specification order
    func = ctx.N(step0)
    import copy as _copy
    from sa.astcopy import clone as _clone
    fnode = _FilterCanon().visit(_clone(func.node))
    ast.fix_missing_locations(fnode)
    spec_loops = [l for l in ast.walk(fnode) if isinstance(l, ast.For) and pseudo(l.iter) == 'unpivot_fields']
    run.check(len(spec_loops) == 1, 'UNP', func.where, func.qualname, 'for u_field in unpivot_fields',
              'unpivot specification is not processed in the order given')
    mf = None
    if spec_loops:
        sl = spec_loops[0]
        spec = sl.target.id if isinstance(sl.target, ast.Name) else None
        seen_modes = set()
        for p in Enumerator(where=func.qualname).body_paths(sl):
            pv = PathValues(p)
            mode = None
            for t, pol in pv.guards:
                t, pol = norm_guard(t, pol)
                if pseudo(t) == 'regex':
                    mode = pol
            if mode is None:
                run.fail('UNP', where(repo, sl), func.qualname, p.describe(), 'schema split does not depend on the regex switch')
                continue
            if mode in seen_modes:
                continue
            seen_modes.add(mode)
            comps = [(n, v) for k, n, v in [e for e in pv.events if e[0] == 'assign'] if isinstance(v, ast.ListComp)
                     and len(v.generators) == 1 and len(v.generators[0].ifs) == 1 and isinstance(v.generators[0].target, ast.Name)
                     and pseudo(v.elt) == v.generators[0].target.id]
            # (a list handed on to another name - the result of an inlined helper - is the same list: its last name counts)
            last_name = {}
            for n, v in comps:
                last_name[ast.dump(v)] = n
            dedup, seen_v = [], set()
            for n, v in comps:
                if ast.dump(v) not in seen_v:
                    seen_v.add(ast.dump(v))
                    dedup.append((last_name[ast.dump(v)], v))
            comps = dedup
            src = set(u(v.generators[0].iter) for n, v in comps)
            ok = len(comps) == 2 and len(src) == 1 and sum(1 for n, v in comps if n in src) == 1 and comps[1][0] in src
            if ok:
                sel = [v for n, v in comps if n not in src][0]
                rem = [v for n, v in comps if n in src][0]
                ps, pr_ = sel.generators[0].ifs[0], rem.generators[0].ifs[0]
                vs, vr = sel.generators[0].target.id, rem.generators[0].target.id

                def beta(e_):
                    # functools.partial(g, a..)(x) with g a one-expression function: g's body with the parameters replaced
                    from rules import tables as _tables
                    from sa.astcopy import clone as _cl
                    if isinstance(e_, ast.Call) and len(e_.args) == 1 and isinstance(e_.func, ast.Call) and \
                            u(e_.func.func) in ('partial', 'functools.partial'):
                        lam_ = _tables.as_lambda(ctx, func.module.name, e_.func)
                        if lam_ is not None:
                            arg_ = e_.args[0]

                            class S_(ast.NodeTransformer):
                                def visit_Name(self, n_):
                                    return _cl(arg_) if isinstance(n_.ctx, ast.Load) and n_.id == lam_[0] else n_
                            return S_().visit(_cl(lam_[1]))
                    return e_
                ps, pr_ = beta(ps), beta(pr_)
                if mode:
                    e1 = match_expr('__M(__R, True)(%s)' % vs, ps)
                    e2 = match_expr('__M(__R, False)(%s)' % vr, pr_)
                    ok = e1 is not None and e2 is not None and u(e1['__M']) == u(e2['__M']) and u(e1['__R']) == u(e2['__R']) \
                        and match_expr("re.compile(%s['name'])" % spec, e1['__R']) is not None
                    if ok:
                        mf = repo.func('dataflows.processors.unpivot:%s' % u(e1['__M']), None)
                        ok = mf is not None
                    else:
                        # the predicate already reduced to its test (helper inlined, partial applied): full match compared with
                        # True for the unpivoted part and with False for the kept part, on the same compiled pattern
                        for pt_ in ("(__R.fullmatch(%s['name']) is not None) is %s", "(__R.fullmatch(%s['name']) is not None) == %s",
                                    "bool(__R.fullmatch(%s['name'])) is %s", "bool(__R.fullmatch(%s['name'])) == %s"):
                            e1 = match_expr(pt_ % (vs, 'True'), ps)
                            e2 = match_expr(pt_ % (vr, 'False'), pr_)
                            if e1 is not None and e2 is not None and u(e1['__R']) == u(e2['__R']) and \
                                    match_expr("re.compile(%s['name'])" % spec, e1['__R']) is not None:
                                ok = True
                        # ... or the bare test and its negation
                        for pa_, pb_ in (("__R.fullmatch(%s['name']) is not None", "__R.fullmatch(%s['name']) is None"),
                                         ("__R.fullmatch(%s['name'])", "not __R.fullmatch(%s['name'])")):
                            e1 = match_expr(pa_ % vs, ps)
                            e2 = match_expr(pb_ % vr, pr_)
                            if e1 is not None and e2 is not None and u(e1['__R']) == u(e2['__R']) and \
                                    match_expr("re.compile(%s['name'])" % spec, e1['__R']) is not None:
                                ok = True
                    what = ('match_fields(re, True) / match_fields(re, False)',
                            'the schema is not split into complementary unpivoted / kept parts by one predicate')
                else:
                    e1 = match_expr("%s['name'] == __N" % vs, ps)
                    e2 = match_expr("%s['name'] != __N" % vr, pr_)
                    ok = e1 is not None and e2 is not None and u(e1['__N']) == u(e2['__N']) and \
                        match_expr("%s['name']" % spec, e1['__N']) is not None
                    what = ('literal name: == / != filters',
                            'with regex disabled the schema is not split by name equality / inequality')
            else:
                what = ('selected = [f for f in fields if P(f)]; fields = [f for f in fields if not P(f)]',
                        'the schema is not split into complementary unpivoted / kept parts by one predicate')
            run.check(ok, 'UNP', where(repo, sl), func.qualname, what[0], what[1])
        run.check(seen_modes == {True, False}, 'UNP', where(repo, sl), func.qualname, 'both regex modes',
                  'the regex switch no longer selects between pattern and literal field names')
    if spec_loops:
        key_derivation_clause(ctx, func, spec_loops[0])
    if mf is not None:
        clo = returned_closure(ctx, mf)
        value = None
        if clo is None:
            # the predicate handed out as functools.partial(g, re, expected): g's body with those two parameters bound
            from rules import tables as _tables
            rets_ = [r_.value for r_ in own_nodes(mf.node) if isinstance(r_, ast.Return) and r_.value is not None]
            lam_ = _tables.as_lambda(ctx, mf.module.name, rets_[0]) if len(rets_) == 1 else None
            if lam_ is not None:
                class _C:
                    params = [lam_[0]]
                clo, value = _C, lam_[1]
        elif clo is not None:
            if isinstance(clo.node, ast.Lambda):
                value = clo.node.body
            else:
                body = [st for st in ctx.N(clo).node.body if not (isinstance(st, ast.Expr) and isinstance(st.value, ast.Constant))]
                value = body[0].value if len(body) == 1 and isinstance(body[0], ast.Return) else None
        ok = False
        if value is not None:
            d = dict(r=mf.params[0], e=mf.params[1], f=clo.params[0])
            ok = any(match_expr(pt % d, value) is not None for pt in (
                "(%(r)s.fullmatch(%(f)s['name']) is not None) is %(e)s", "(%(r)s.fullmatch(%(f)s['name']) is not None) == %(e)s",
                "bool(%(r)s.fullmatch(%(f)s['name'])) is %(e)s", "bool(%(r)s.fullmatch(%(f)s['name'])) == %(e)s"))
        run.check(ok, 'UNP', mf.where, mf.qualname, '(re.fullmatch(name) is not None) is expected',
                  'field predicate is not a full match compared with the expectation')
    # kept names are taken from the remaining fields *before* the new key / value fields are appended
    order = {}
    for i, st in enumerate(ast.walk(fnode)):
        pass
    seq = []

    def visit(n):
        if isinstance(n, ast.Assign) and isinstance(n.value, ast.ListComp):
            e = match_expr("[_f['name'] for _f in _x]", n.value)
            if e is not None and isinstance(n.targets[0], ast.Subscript):
                seq.append(('keep', e['_x']))
        if isinstance(n, ast.Call) and isinstance(n.func, ast.Attribute) and n.func.attr in ('extend', 'append') and n.args:
            hit = sorted(names_in(n.args[0]) & {'extra_keys', 'extra_value'})
            if hit:
                seq.append((hit[0] + ':' + n.func.attr, pseudo(n.func.value)))
        if isinstance(n, ast.AugAssign) and isinstance(n.op, ast.Add):
            hit = sorted(names_in(n.value) & {'extra_keys', 'extra_value'})
            for h in hit:
                seq.append((h + (':extend' if h == 'extra_keys' or not isinstance(n.value, ast.List) else ':append'), pseudo(n.target)))
        for c in ast.iter_child_nodes(n):
            visit(c)
    visit(fnode)
    names_ = [k for k, _ in seq]
    lists = set(v for _, v in seq)
    run.check(names_ == ['keep', 'extra_keys:extend', 'extra_value:append'] and len(lists) == 1, 'UNP', func.where, func.qualname,
              'fields_to_keep computed, then extra_keys, then extra_value appended',
              'kept-field list / appended key and value fields are not in the documented order: ' + str(names_))


def _orig(ctx, fi, call):
    """external_name() needs a node that belongs to an indexed function; normalised copies are indexed by cli.N"""
    return call


def check(ctx):
    run = ctx.run
    filter_clauses(ctx)
    dedup_clauses(ctx)
    unpivot_clauses(ctx)
    from rules import independence
    steps = [returned_closure(ctx, ctx.repo.func('dataflows.processors.%s:%s' % (n, n))) for n in ('filter_rows', 'deduplicate', 'unpivot')]
    if any(s_ is None for s_ in steps):
        raise AnalysisError('package step of filter_rows / deduplicate / unpivot not found')

    def wrapper_of(step):
        out = []
        for c in own_nodes(step.node):
            if isinstance(c, ast.Call):
                h = callee(ctx, c, step)
                if h is not None and h.is_generator:
                    out.append(h)
        if len(out) != 1:
            raise AnalysisError('%s: expected one row-wrapper call, found %d' % (step.qualname, len(out)))
        return out[0]
    f_step, d_step, u_step = steps
    independence.r28_functions(ctx, [(wrapper_of(f_step), {}),
                                     (wrapper_of(u_step), {}),
                                     (wrapper_of(d_step), {'__kinds__': ('SEEN',)}),
                                     (d_step, {}),
                                     (f_step, {}),
                                     (u_step,
                                      {'config': 'per-resource configuration built in the package phase', 'fields': 'schema field list being rebuilt',
                                       'fields_to_pivot': 'fields matched by the current specification entry', 'f': 'comprehension variable'})])
    coupling.r11_function_steps(ctx, [u_step])
    stream.r6_identity(ctx, steps)
    stream.r6_matcher_asked(ctx, steps)     # which resources are filtered / de-duplicated / unpivoted is decided by the selector
    stream.r6_count_agreement(ctx, steps)
    run.not_decided += ['equals / not_equals semantics on values (==), idempotence of deduplicate as a behaviour',
                        'regex back-reference substitution of unpivot keys (re.sub on values)']
    return ('Row-loop signatures of the three row wrappers are checked path by path: filter yields identity iff condition(row); '
            'deduplicate drops exactly the rows whose primary-key tuple was seen and records a new key on the path that yields; '
            'unpivot yields one fresh row per (row, unpivoted field) built from key copy + kept fields + the cell; the schema '
            'split is complementary and coupled to the row phase.', [])
