"""C17 filter_rows, deduplicate and unpivot neither lose nor invent data (DESIGN §5 C17)."""
import ast

from rules import coupling, observers, stream
from sa.deps import Facts, base_name, names_in, pseudo
from sa.loader import AnalysisError, FuncInfo, own_nodes
from sa.model import row_loops, rowloop_signature, u, where
from sa.paths import CONTINUE, FALL, RAISE, Enumerator, path_nodes


def filter_clauses(ctx):
    run, repo = ctx.run, ctx.repo
    run.rule('FLT', 'FILTER: the row wrapper yields the incoming row object iff condition(row) holds, never stores into it and has no '
                    'other exit; the old-style condition is any(==) over `equals` or any(!=) over `not_equals`; the user condition '
                    'takes precedence')
    pr = repo.func('dataflows.processors.filter_rows:process_resource')
    loop, var, src = observers.single_row_loop(ctx, pr)
    cond = [p for p in pr.params if p != src][0]
    sigs = rowloop_signature(pr, loop, var)
    seen = set()
    for s in sigs:
        calls = [(t, pol) for t, pol in s.guards if isinstance(t, ast.Call) and pseudo(t.func) == cond
                 and [pseudo(a) for a in t.args] == [var]]
        if len(calls) != 1 or len(s.guards) != 1:
            run.fail('FLT', where(repo, loop), pr.qualname, s.describe(), 'filter decision is not exactly condition(row)')
            continue
        pol = calls[0][1]
        seen.add(pol)
        kinds = [k for k, _ in s.yields]
        run.check((kinds == ['identity']) == pol and (not kinds or pol) and not s.stores and s.term == FALL, 'FLT',
                  where(repo, loop), pr.qualname, s.describe(),
                  'a row satisfying the condition must be yielded unchanged exactly once and a row failing it never')
    run.check(seen == {True, False}, 'FLT', where(repo, loop), pr.qualname, 'both outcomes of condition(row)', 'filter has no decision')
    osc = repo.func('dataflows.processors.filter_rows:old_style_conditions.func')
    ret = [n for n in own_nodes(osc.node) if isinstance(n, ast.Return)]
    ok = False
    if len(ret) == 1 and isinstance(ret[0].value, ast.BoolOp) and isinstance(ret[0].value.op, ast.Or) and len(ret[0].value.values) == 2:
        a, b = ret[0].value.values

        def shape(c, op, over):
            if not (isinstance(c, ast.Call) and u(c.func) == 'any' and isinstance(c.args[0], ast.GeneratorExp)):
                return False
            g = c.args[0]
            cmp_ = g.elt
            if not (isinstance(cmp_, ast.Compare) and isinstance(cmp_.ops[0], op) and len(g.generators) == 2):
                return False
            o, kv = g.generators
            if pseudo(o.iter) != over or o.ifs or kv.ifs:
                return False
            if not (isinstance(kv.iter, ast.Call) and u(kv.iter.func) == '%s.items' % o.target.id):
                return False
            k, v = [t.id for t in kv.target.elts]
            return u(cmp_.left) == '%s[%s]' % (osc.params[0], k) and u(cmp_.comparators[0]) == v
        outer = osc.parent
        ok = shape(a, ast.Eq, outer.params[0]) and shape(b, ast.NotEq, outer.params[1])
    run.check(ok, 'FLT', osc.where, osc.qualname, 'any(row[k] == v ...equals) or any(row[k] != v ...not_equals)',
              'the equals / not_equals condition is not "any equal in equals, or any different in not_equals"')
    fr = repo.func('dataflows.processors.filter_rows:filter_rows')
    # condition precedence: `if not condition: condition = old_style_conditions(equals, not_equals)`
    ok = False
    for n in own_nodes(fr.node):
        if isinstance(n, ast.If) and u(n.test) in ('not condition', 'condition is None') and len(n.body) == 1 and \
                isinstance(n.body[0], ast.Assign) and pseudo(n.body[0].targets[0]) == 'condition' and \
                isinstance(n.body[0].value, ast.Call) and [pseudo(a) for a in n.body[0].value.args] == ['equals', 'not_equals']:
            ok = True
    run.check(ok, 'FLT', fr.where, fr.qualname, 'if not condition: condition = old_style_conditions(equals, not_equals)',
              'the callable condition does not take precedence / equals and not_equals are swapped')
    # the wrapper gets that condition
    func = repo.func('dataflows.processors.filter_rows:filter_rows.func')
    calls = [c for c in own_nodes(func.node) if isinstance(c, ast.Call) and u(c.func) == 'process_resource']
    run.check(len(calls) == 1 and pseudo(calls[0].args[1]) == 'condition', 'FLT', func.where, func.qualname,
              'process_resource(r, condition)', 'the row wrapper is not given the condition')


def dedup_clauses(ctx):
    run, repo = ctx.run, ctx.repo
    run.rule('DED', 'DEDUPLICATE: with an empty primary key all rows pass through; otherwise a row is yielded (unchanged) iff its '
                    'key - the tuple of its primary-key values in key order - was not seen before, and the key is recorded on that '
                    'same path before the next row')
    d = repo.func('dataflows.processors.deduplicate:deduper')
    rows = d.params[0]
    facts = Facts(d, include_nested=False)
    pkv = [n for n, vs in facts.assigns.items() if any('primaryKey' in u(v) for v in vs)]
    run.check(len(pkv) == 1 and all(rows in names_in(v) and 'schema' in u(v) for v in facts.assigns[pkv[0]]), 'DED', d.where,
              d.qualname, "pk = rows.res.descriptor['schema'].get('primaryKey', [])", 'the key is not the resource\'s primary key')
    pk = pkv[0] if pkv else None
    paths = Enumerator(where=d.qualname).paths(d.node.body)
    empty = [p for p in paths if any(pol and 'len(%s) == 0' % pk in u(t) or (not pol and u(t) in (pk, 'len(%s)' % pk))
                                     for t, pol in p.guards())]
    run.check(bool(empty) and all([u(y) for y in path_nodes(p, into_loops=True) if isinstance(y, (ast.Yield, ast.YieldFrom))]
                                  == ['(yield from %s)' % rows] for p in empty), 'DED', d.where, d.qualname,
              'empty primary key -> yield from rows', 'without a primary key rows must pass through unchanged')
    loop, var, _ = observers.single_row_loop(ctx, d)
    sigs = rowloop_signature(d, loop, var)
    keyn = seen = None
    for s in sigs:
        g = [(t, pol) for t, pol in s.guards if isinstance(t, ast.Compare) and isinstance(t.ops[0], (ast.In, ast.NotIn))]
        if len(g) != 1:
            run.fail('DED', where(repo, loop), d.qualname, s.describe(), 'dedup decision is not a single membership test')
            continue
        t, pol = g[0]
        is_in = pol if isinstance(t.ops[0], ast.In) else not pol
        keyn, seen = pseudo(t.left), pseudo(t.comparators[0])
        adds = [c for c in s.calls if isinstance(c.func, ast.Attribute) and c.func.attr == 'add'
                and pseudo(c.func.value) == seen and [pseudo(a) for a in c.args] == [keyn]]
        kinds = [k for k, _ in s.yields]
        if is_in:
            run.check(not kinds and not adds and s.term in (CONTINUE, FALL), 'DED', where(repo, loop), d.qualname,
                      'seen key: ' + s.describe(), 'a row whose key was seen before must be dropped')
        else:
            run.check(kinds == ['identity'] and len(adds) == 1 and not s.stores and s.term == FALL, 'DED', where(repo, loop),
                      d.qualname, 'new key: ' + s.describe(),
                      'the first row of a key must be yielded unchanged and its key recorded on the same path')
    if keyn:
        vals = facts.values_of(keyn)
        ok = len(vals) == 1 and isinstance(vals[0], ast.Call) and u(vals[0].func) == 'tuple' and \
            isinstance(vals[0].args[0], ast.GeneratorExp) and pseudo(vals[0].args[0].generators[0].iter) == pk and \
            not vals[0].args[0].generators[0].ifs and \
            u(vals[0].args[0].elt) in ('%s[%s]' % (var, vals[0].args[0].generators[0].target.id),
                                       '%s.get(%s)' % (var, vals[0].args[0].generators[0].target.id))
        run.check(ok, 'DED', where(repo, loop), d.qualname, 'key = tuple(row[k] for k in pk)',
                  'the key is not the tuple of all primary-key values of the row')
        created = [n for n in own_nodes(d.node) if isinstance(n, ast.Assign) and pseudo(n.targets[0]) == seen
                   and isinstance(n.value, (ast.Call, ast.Set, ast.Dict, ast.List)) and not names_in(n.value) - {'set', 'dict', 'list'}]
        inloop = [n for n in ast.walk(loop) if isinstance(n, ast.Assign) and pseudo(n.targets[0]) == seen]
        run.check(len(created) == 1 and not inloop and seen not in d.all_params, 'DED', where(repo, loop), d.qualname,
                  'seen set created empty, once per resource, before the row loop',
                  'the set of seen keys is not a fresh, empty set for each resource (reset while iterating, or shared between '
                  'resources: a key seen in an earlier resource would suppress the first row of that key in a later one)')


def unpivot_clauses(ctx):
    run, repo = ctx.run, ctx.repo
    run.rule('UNP', 'UNPIVOT: for each input row (outer loop) and each unpivoted field (inner loop, in specification order) exactly '
                    'one fresh row is yielded inside the inner loop, made of a copy of that field\'s key values, every kept field '
                    'of the input row and the cell of that field under the value name; nothing is yielded elsewhere')
    f = repo.func('dataflows.processors.unpivot:unpivot_rows')
    rows, unp, keep, extra = f.params
    loops = [n for n in ast.walk(f.node) if isinstance(n, ast.For)]
    outer = [l for l in loops if pseudo(l.iter) == rows]
    inner = [l for l in loops if pseudo(l.iter) == unp]
    ok = len(outer) == 1 and len(inner) == 1 and inner[0] in list(ast.walk(outer[0]))
    run.check(ok, 'UNP', f.where, f.qualname, 'for row in rows: for field in fields_to_unpivot',
              'rows outer / unpivot fields inner loop nest not found (order of output rows changes)')
    if not ok:
        return
    rowv, fv = outer[0].target.id, inner[0].target.id
    ys = [y for y in ast.walk(f.node) if isinstance(y, (ast.Yield, ast.YieldFrom))]
    run.check(all(y in list(ast.walk(inner[0])) for y in ys), 'UNP', f.where, f.qualname, 'all yields inside the inner loop',
              'rows are emitted outside the per-field loop')
    facts = Facts(f, include_nested=False)
    for p in Enumerator(where=f.qualname).body_paths(inner[0]):
        y = [n for n in path_nodes(p) if isinstance(n, ast.Yield)]
        good = len(y) == 1 and p.term == FALL and isinstance(y[0].value, ast.Name) and y[0].value.id not in (rowv, fv)
        if good:
            nr = y[0].value.id
            init = facts.assigns.get(nr, [])
            good = len(init) == 1 and isinstance(init[0], ast.Call) and ctx.res.external_name(init[0]) == 'copy.deepcopy' \
                and u(init[0].args[0]) == "%s['keys']" % fv
            # kept fields
            kl = [l for l in ast.walk(inner[0]) if isinstance(l, ast.For) and pseudo(l.iter) == keep]
            good = good and len(kl) == 1 and any(
                isinstance(s, ast.Assign) and u(s.targets[0]) == '%s[%s]' % (nr, kl[0].target.id) and
                u(s.value) in ('%s[%s]' % (rowv, kl[0].target.id), '%s.get(%s)' % (rowv, kl[0].target.id)) for s in kl[0].body)
            # the cell
            good = good and any(isinstance(n, ast.Assign) and u(n.targets[0]) == "%s[%s['name']]" % (nr, extra) and
                                u(n.value) in ("%s.get(%s['name'])" % (rowv, fv), "%s[%s['name']]" % (rowv, fv))
                                for n in path_nodes(p))
        run.check(good, 'UNP', where(repo, inner[0]), f.qualname, 'new_row = deepcopy(field keys) + kept fields + cell; yield new_row',
                  'an unpivoted row is not exactly keys + kept fields + the cell of this field (cells lost or invented)',
                  path=p.describe())
    # package phase: partition of the schema fields into unpivoted / kept, in specification order
    func = repo.func('dataflows.processors.unpivot:unpivot.func')
    facts = Facts(func, include_nested=False)
    spec_loops = [l for l in ast.walk(func.node) if isinstance(l, ast.For) and pseudo(l.iter) == 'unpivot_fields']
    run.check(len(spec_loops) == 1, 'UNP', func.where, func.qualname, 'for u_field in unpivot_fields',
              'unpivot specification is not processed in the order given')
    if spec_loops:
        sl = spec_loops[0]
        # complementary filters: the matched list and the remaining list use the same predicate with opposite expectation
        calls = [c for c in ast.walk(sl) if isinstance(c, ast.Call) and u(c.func) == 'match_fields']
        pols = sorted(u(c.args[1]) for c in calls if len(c.args) == 2)
        same = len(set(u(c.args[0]) for c in calls)) == 1 if calls else False
        run.check(pols == ['False', 'True'] and same, 'UNP', where(repo, sl), func.qualname,
                  'match_fields(re, True) / match_fields(re, False)',
                  'the schema is not split into complementary unpivoted / kept parts by one predicate')
        lam = [l for l in ast.walk(sl) if isinstance(l, ast.Lambda)]
        ops = sorted(type(l.body.ops[0]).__name__ for l in lam if isinstance(l.body, ast.Compare))
        run.check(ops == ['Eq', 'NotEq'], 'UNP', where(repo, sl), func.qualname, 'literal name: == / != filters',
                  'with regex disabled the schema is not split by name equality / inequality')
    mf = repo.func('dataflows.processors.unpivot:match_fields._filter')
    r = [n for n in own_nodes(mf.node) if isinstance(n, ast.Return)]
    run.check(len(r) == 1 and 'fullmatch' in u(r[0].value) and u(r[0].value).endswith('is expected'), 'UNP', mf.where, mf.qualname,
              '(re.fullmatch(name) is not None) is expected', 'field predicate is not a full match compared with the expectation')
    # kept names are taken from the remaining fields *before* the new key / value fields are appended
    preds_order = []
    for st in ast.walk(func.node):
        if isinstance(st, ast.Assign) and u(st.targets[0]) == "config['fields_to_keep']":
            preds_order.append(('keep', st.lineno))
        if isinstance(st, ast.Call) and isinstance(st.func, ast.Attribute) and st.func.attr in ('extend', 'append') \
                and pseudo(st.func.value) == 'fields' and st.args and (names_in(st.args[0]) & {'extra_keys', 'extra_value'}):
            preds_order.append((sorted(names_in(st.args[0]) & {'extra_keys', 'extra_value'})[0], st.lineno))
    names = [n for n, _ in sorted(preds_order, key=lambda x: x[1])]
    run.check(names == ['keep', 'extra_keys', 'extra_value'], 'UNP', func.where, func.qualname,
              'fields_to_keep computed, then extra_keys, then extra_value appended',
              'kept-field list / appended key and value fields are not in the documented order: ' + str(names))


def check(ctx):
    run = ctx.run
    filter_clauses(ctx)
    dedup_clauses(ctx)
    unpivot_clauses(ctx)
    from rules import independence
    independence.r28_functions(ctx, [('dataflows.processors.filter_rows:process_resource', {}),
                                     ('dataflows.processors.unpivot:unpivot_rows', {}),
                                     ('dataflows.processors.deduplicate:deduper', {'__kinds__': ('SEEN',)}),
                                     ('dataflows.processors.deduplicate:deduplicate.func', {}),
                                     ('dataflows.processors.filter_rows:filter_rows.func', {}),
                                     ('dataflows.processors.unpivot:unpivot.func',
                                      {'config': 'per-resource configuration built in the package phase', 'fields': 'schema field list being rebuilt',
                                       'fields_to_pivot': 'fields matched by the current specification entry', 'f': 'comprehension variable'})])
    coupling.r11_function_steps(ctx, [ctx.repo.func('dataflows.processors.unpivot:unpivot.func')])
    steps = [ctx.repo.func('dataflows.processors.%s:%s.func' % (n, n)) for n in ('filter_rows', 'deduplicate', 'unpivot')]
    stream.r6_identity(ctx, steps)
    stream.r6_count_agreement(ctx, steps)
    run.not_decided += ['equals / not_equals semantics on values (==), idempotence of deduplicate as a behaviour',
                        'regex back-reference substitution of unpivot keys (re.sub on values)']
    return ('Row-loop signatures of the three row wrappers are checked path by path: filter yields identity iff condition(row); '
            'deduplicate drops exactly the rows whose primary-key tuple was seen and records a new key on the path that yields; '
            'unpivot yields one fresh row per (row, unpivoted field) built from key copy + kept fields + the cell; the schema '
            'split is complementary and coupled to the row phase.', [])
