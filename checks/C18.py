"""C18 parallelize — necessary conditions of the queue protocol only (DESIGN §5 C18). Interleavings are NOT decided."""
import ast

from rules import stream
from sa.deps import Facts, names_in, pseudo
from sa.loader import AnalysisError, FuncInfo, own_nodes
from sa.model import rowloop_signature, row_loops, u, where
from sa.paths import BREAK, CONTINUE, FALL, RAISE, RETURN, Enumerator, path_nodes

P = 'dataflows.processors.parallelize'


def puts(nodes, q, what=None):
    out = []
    for c in nodes:
        if isinstance(c, ast.Call) and isinstance(c.func, ast.Attribute) and c.func.attr == 'put' and pseudo(c.func.value) == q:
            if what is None or u(c.args[0]) == what:
                out.append(c)
    return out


def check(ctx):
    run, repo, res = ctx.run, ctx.repo, ctx.res
    prod, fetch, work = repo.func(P + ':producer'), repo.func(P + ':fetcher'), repo.func(P + ':work')
    fork, init = repo.func(P + ':fork'), repo.func(P + ':init_mp')
    run.rule('R21', 'QUEUE-PROTOCOL (necessary conditions): (a) the number of end markers the producer enqueues, the number of workers '
                    'started and the number of markers the collector waits for are the same value; (b) the producer enqueues the markers '
                    'after its row loop; (c) it puts every row on exactly one queue; (d) a worker forwards each row it took exactly '
                    'once and emits exactly one marker on every exit; (e) the collector forwards non-markers, emits its single marker '
                    'only when the expected count reaches zero, then stops; (f) the consumer yields everything until the marker')
    # (a)
    np_ = 'num_processors'
    ml = [n for n in own_nodes(prod.node) if isinstance(n, ast.For) and isinstance(n.iter, ast.Call) and u(n.iter.func) == 'range']
    ok_a = len(ml) == 1 and pseudo(ml[0].iter.args[0]) in prod.params and len(puts(list(ast.walk(ml[0])), prod.params[1], 'None')) == 1
    pidx = prod.params.index(pseudo(ml[0].iter.args[0])) if ok_a else None
    procs = [n for n in ast.walk(init.node) if isinstance(n, ast.ListComp) and 'mp.Process' in u(n.elt)]
    ok_w = len(procs) == 1 and u(procs[0].generators[0].iter) == 'range(%s)' % init.params[0] and 'target=work' in u(procs[0].elt)
    starts = [n for n in own_nodes(init.node) if isinstance(n, ast.For) and pseudo(n.iter) == 'processes' and '.start()' in u(n)]
    ok_w = ok_w and len(starts) == 1
    th = [c for c in own_nodes(init.node) if isinstance(c, ast.Call) and u(c.func) == 'threading.Thread']
    ok_f = len(th) == 1
    if ok_f:
        kw = {k.arg: k.value for k in th[0].keywords}
        ok_f = pseudo(kw.get('target')) == 'fetcher' and isinstance(kw.get('args'), ast.Tuple) and \
            pseudo(kw['args'].elts[fetch.params.index('num_processors')]) == init.params[0]
    exp = [n for n in own_nodes(fetch.node) if isinstance(n, ast.Assign) and pseudo(n.value) == 'num_processors']
    ok_f = ok_f and len(exp) == 1
    # fork passes the one value to both
    fk = Facts(fork, include_nested=False)
    tp = [c for c in own_nodes(fork.node) if isinstance(c, ast.Call) and u(c.func) == 'threading.Thread']
    ok_fk = len(tp) == 1
    if ok_fk:
        kw = {k.arg: k.value for k in tp[0].keywords}
        ok_fk = pseudo(kw.get('target')) == 'producer' and isinstance(kw.get('args'), ast.Tuple) and pidx is not None and \
            pseudo(kw['args'].elts[pidx]) == np_
    ic = [c for c in own_nodes(fork.node) if isinstance(c, ast.Call) and u(c.func) == 'init_mp']
    ok_fk = ok_fk and len(ic) == 1 and pseudo(ic[0].args[0]) == np_
    run.check(ok_a and ok_w and ok_f and ok_fk, 'R21', fork.where, fork.qualname,
              '(a) markers enqueued == workers started == markers awaited == num_processors',
              'producer / workers / collector do not agree on the number of end markers: the run ends early (rows lost) or never ends')
    # (b) (c)
    rl = row_loops(prod)
    if len(rl) != 1:
        raise AnalysisError('producer: row loop not found')
    loop, var, _ = rl[0]
    q_in, q_int = prod.params[1], prod.params[2]
    sigs = rowloop_signature(prod, loop, var)
    okc = len(sigs) == 2
    for s in sigs:
        pi, pn = puts(s.calls, q_in, var), puts(s.calls, q_int, var)
        pred = [pol for t, pol in s.guards if isinstance(t, ast.Call) and pseudo(t.func) == 'predicate']
        okc = okc and len(pred) == 1 and len(pi) + len(pn) == 1 and (len(pi) == 1) == pred[0] and s.term == FALL and \
            not puts(s.calls, q_in, 'None') and not puts(s.calls, q_int, 'None')
    run.check(okc, 'R21', where(repo, loop), prod.qualname, '(c) predicate(row): q_in.put(row) else q_internal.put(row), exactly one',
              'a row is enqueued twice, not at all, or on the wrong queue')
    okb = ok_a and ml[0].lineno > loop.lineno and ml[0] in stmts_same_block(loop)
    run.check(okb, 'R21', where(repo, loop), prod.qualname, '(b) end markers after the row loop',
              'end markers can overtake rows: workers stop while rows are still being produced')
    # (d) worker
    wl = [n for n in ast.walk(work.node) if isinstance(n, ast.While)]
    okd = len(wl) == 1
    if okd:
        w = wl[0]
        en = Enumerator(where=work.qualname)
        got = None
        for p in en.body_paths(w):
            nodes = list(path_nodes(p, into_loops=True))
            gets = [c for c in nodes if isinstance(c, ast.Call) and u(c.func) == '%s.get' % work.params[0]]
            isnone = [pol for t, pol in p.guards() if u(t) == 'row is None']
            fw = puts(nodes, work.params[1], 'row')
            mk = puts(nodes, work.params[1], 'None')
            in_handler = any(it.kind == 'handler' for it in p.items)
            if not isnone:
                okd = False
            elif isnone[0]:
                okd = okd and p.term == BREAK and not fw and not mk and len(gets) == 1
            else:
                # normal path and the row_func-raised path both forward the row exactly once
                okd = okd and len(fw) == 1 and not mk and p.term == FALL and len(gets) == 1
        # exactly one marker, in finally
        trys = [n for n in own_nodes(work.node) if isinstance(n, ast.Try) and n.finalbody]
        okd = okd and len(trys) == 1 and len(puts(list(ast.walk(ast.Module(body=trys[0].finalbody, type_ignores=[]))), work.params[1], 'None')) == 1 \
            and len(puts(list(ast.walk(work.node)), work.params[1], 'None')) == 1 and w in trys[0].body
    run.check(okd, 'R21', work.where, work.qualname, '(d) take one; marker -> stop; else forward the row once; finally: one marker',
              'a worker drops or duplicates a row, or does not emit exactly one end marker on every exit')
    # (e) collector
    fl = [n for n in own_nodes(fetch.node) if isinstance(n, ast.While)]
    oke = len(fl) == 1
    if oke:
        cnt = pseudo(exp[0].targets[0]) if exp else None
        for p in Enumerator(where=fetch.qualname).body_paths(fl[0]):
            nodes = list(path_nodes(p))
            isnone = [pol for t, pol in p.guards() if u(t) == 'row is None']
            zero = [pol for t, pol in p.guards() if u(t) == '%s == 0' % cnt]
            fw = puts(nodes, fetch.params[1], 'row')
            mk = puts(nodes, fetch.params[1], 'None')
            dec = [n for n in nodes if isinstance(n, ast.AugAssign) and isinstance(n.op, ast.Sub) and pseudo(n.target) == cnt
                   and u(n.value) == '1']
            if not isnone:
                oke = False
            elif not isnone[0]:
                oke = oke and len(fw) == 1 and not mk and not dec and p.term == FALL
            elif zero and zero[0]:
                oke = oke and len(dec) == 1 and len(mk) == 1 and not fw and p.term == BREAK
            elif zero:
                oke = oke and len(dec) == 1 and not mk and not fw and p.term == CONTINUE
            else:
                oke = False
    run.check(oke, 'R21', fetch.where, fetch.qualname, '(e) forward rows; count markers; single marker at zero, then stop',
              'the collector signals completion before all workers finished (rows lost) or never')
    # (f) consumer loop in fork
    cl = [n for n in ast.walk(fork.node) if isinstance(n, ast.While)]
    okf = len(cl) == 1
    if okf:
        for p in Enumerator(where=fork.qualname).body_paths(cl[0]):
            nodes = list(path_nodes(p))
            isnone = [pol for t, pol in p.guards() if u(t) == 'row is None']
            ys = [y for y in nodes if isinstance(y, ast.Yield)]
            gets = [c for c in nodes if isinstance(c, ast.Call) and u(c.func) == 'q_internal.get']
            if not isnone or len(gets) != 1:
                okf = False
            elif isnone[0]:
                okf = okf and p.term == BREAK and not ys
            else:
                okf = okf and len(ys) == 1 and pseudo(ys[0].value) == 'row' and p.term == FALL
        # joins after the loop
        after = [u(s) for s in stmts_same_block(cl[0]) if s.lineno > cl[0].lineno]
        okf = okf and any('t_prod.join()' in a for a in after) and any('fini_mp(processes, t_fetch)' in a for a in after)
    run.check(okf, 'R21', fork.where, fork.qualname, '(f) yield until the marker, then join producer and workers',
              'the consumer stops before the marker or drops rows')
    # lazy start: rows before the first selected row are yielded directly; the first selected row is pushed back
    fr = row_loops(fork)
    okl = len(fr) == 1
    if okl:
        loop, var, _ = fr[0]
        for p in Enumerator(where=fork.qualname).body_paths(loop):
            pred = [pol for t, pol in p.guards() if isinstance(t, ast.Call) and pseudo(t.func) == 'predicate']
            if not pred:
                okl = False
            elif not pred[0]:
                ys = [y for y in path_nodes(p) if isinstance(y, ast.Yield)]
                okl = okl and len(ys) == 1 and pseudo(ys[0].value) == var
            else:
                chain = [n for n in path_nodes(p) if isinstance(n, ast.Assign) and isinstance(n.value, ast.Call)
                         and res.external_name(n.value) == 'itertools.chain']
                okl = okl and len(chain) == 1 and u(chain[0].value.args[0]) == '[%s]' % var and \
                    pseudo(chain[0].value.args[1]) == pseudo(loop.iter) == pseudo(chain[0].targets[0])
    run.check(okl, 'R21', fork.where, fork.qualname, 'unselected rows before the first selected one are yielded; that row is pushed back',
              'the first selected row (or rows before it) is lost when the parallel section starts')
    # (g) every queue read of the protocol blocks without a timeout: a timed / non-blocking read makes delivery depend on timing
    #     (an idle worker would give up, emit its end marker and rows arriving later are lost)
    qnames = set()
    for f in (prod, fetch, work, fork, init):
        for n in ast.walk(f.node):
            if isinstance(n, ast.Call) and isinstance(n.func, ast.Attribute) and n.func.attr in ('get', 'get_nowait', 'put_nowait') \
                    and pseudo(n.func.value) and pseudo(n.func.value).startswith('q_'):
                ok_g = n.func.attr == 'get' and not n.args and not n.keywords
                run.check(ok_g, 'R21', where(repo, n), f.qualname, '(g) blocking read ' + u(n),
                          'a protocol queue is read with a timeout / without blocking: under a slow producer the reader gives up, '
                          'the end-marker count is reached early and later rows are lost')
            if isinstance(n, ast.Call) and isinstance(n.func, ast.Attribute) and n.func.attr == 'put' \
                    and pseudo(n.func.value) and pseudo(n.func.value).startswith('q_'):
                ok_p = len(n.args) == 1 and not n.keywords
                run.check(ok_p, 'R21', where(repo, n), f.qualname, '(g) blocking put ' + u(n),
                          'a protocol queue is written with a timeout / without blocking: a full queue drops the row')
    func = repo.func(P + ':parallelize.func')
    stream.r6_identity(ctx, [func])
    stream.r6_count_agreement(ctx, [func])
    run.trusted += ['queue.Queue / multiprocessing.Queue are FIFO per producer']
    run.not_decided += ['"for every interleaving": no static argument in reach bounds schedules; that needs a model checker '
                        '(a different technique family)', 'failure paths (C04 known findings: producer / worker swallow errors)',
                        'row_func applied exactly once: the worker calls it once per taken row on the non-failing path only']
    return ('Necessary conditions of the end-marker protocol are checked on every path of producer, worker, collector and consumer: '
            'marker counts derive from one value, markers follow rows, each row is put / forwarded exactly once, the collector '
            'signals completion only at zero. Schedules themselves are not explored.', [])


def stmts_same_block(node):
    from sa.model import block_of
    return block_of(node)
