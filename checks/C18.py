"""C18 parallelize — necessary conditions of the queue protocol only (DESIGN §5 C18). Interleavings are NOT decided.

All clauses are stated over the channel model of rules/channels.py: queues are compared by identity (creation site), actors are
found by topology (who is spawned as what and reads which queue), never by parameter name or position."""
import ast

from rules import channels, stream
from sa.deps import pseudo
from sa.loader import AnalysisError, own_nodes
from sa.model import norm_compare, row_loops, rowloop_signature, u, where
from sa.paths import BREAK, CONTINUE, FALL, RAISE, RETURN, Enumerator, path_nodes
from sa.pattern import match_expr

P = 'dataflows.processors.parallelize'


def topology(ctx):
    repo = ctx.repo
    step = repo.func(P + ':parallelize.func')
    # the consumer: the generator the selected resource is handed to
    roots = []
    for c in own_nodes(step.node):
        if isinstance(c, ast.Call):
            tg = [t for t in ctx.res._resolve_callee(c.func, step.module, step) if hasattr(t, 'is_generator') and t.is_generator]
            roots += tg
    if len(roots) != 1:
        raise AnalysisError('parallelize.func: expected one row-stream wrapper, found %d' % len(roots))
    model, consumer = channels.build(ctx, roots[0])
    workers = [a for a in model.actors if a.kind == 'process']
    threads = [a for a in model.actors if a.kind == 'thread']
    if len(workers) != 1 or len(threads) != 2:
        raise AnalysisError('parallelize: expected one worker function and two thread functions, found %s' % model.actors)
    W = workers[0]
    gets = lambda a: {id(o.chan): o.chan for o in a.ops if o.op == 'get'}
    if len(gets(W)) != 1 or len(gets(consumer)) != 1:
        raise AnalysisError('parallelize: worker / consumer do not read exactly one queue each')
    I = list(gets(W).values())[0]
    D = list(gets(consumer).values())[0]
    outs = {id(o.chan): o.chan for o in W.ops if o.op == 'put'}
    if len(outs) != 1:
        raise AnalysisError('parallelize: workers write to %d queues' % len(outs))
    O = list(outs.values())[0]
    F = [a for a in threads if O in gets(a).values()]
    Pr = [a for a in threads if not gets(a)]
    if len(F) != 1 or len(Pr) != 1:
        raise AnalysisError('parallelize: collector / producer not identified among %s' % threads)
    return model, consumer, W, F[0], Pr[0], I, O, D


def get_var(loop, chan, actor):
    """name assigned from <chan>.get() in the loop body"""
    for n in ast.walk(loop):
        if isinstance(n, ast.Assign) and isinstance(n.value, ast.Call) and isinstance(n.value.func, ast.Attribute) \
                and n.value.func.attr == 'get' and actor.chan_of(n.value.func.value) is chan and pseudo(n.targets[0]):
            return pseudo(n.targets[0])
    return None


def marker_test(p, var):
    """polarity of the `var is None` decision on this path (None = not decided)"""
    for t, pol in p.guards():
        t, pol = norm_compare(t, pol)
        if match_expr('%s is None' % var, t) is not None or match_expr('%s == None' % var, t) is not None:
            return pol
    return None


def chan_calls(nodes, actor, chan, op, what=None):
    out = []
    for c in nodes:
        if isinstance(c, ast.Call) and isinstance(c.func, ast.Attribute) and c.func.attr == op and actor.chan_of(c.func.value) is chan:
            if what is None:
                out.append(c)
            elif what == 'marker' and c.args and isinstance(c.args[0], ast.Constant) and c.args[0].value is None:
                out.append(c)
            elif what not in (None, 'marker') and c.args and pseudo(c.args[0]) == what:
                out.append(c)
    return out


_TIMED_CONTROL = '''
def work(barrier, q):
    try:
        barrier.wait(timeout=10)
    except Exception:
        pass
    done.wait(5)
    q.get()
    t.join(timeout=10)
'''


def timed_waits(tree):
    """waits of the protocol that give up after a while: Barrier / Event / Condition .wait(timeout) - when the time runs out the code
    goes on as if what it waited for had happened (join(timeout) on a helper that is being shut down is not one of them)"""
    out = []
    for c in ast.walk(tree):
        if isinstance(c, ast.Call) and isinstance(c.func, ast.Attribute) and c.func.attr in ('wait', 'wait_for', 'acquire'):
            timed = [k for k in c.keywords if k.arg == 'timeout' and not (isinstance(k.value, ast.Constant) and k.value.value is None)]
            if c.func.attr == 'wait' and c.args:
                timed.append(c.args[0])
            if c.func.attr == 'wait_for' and len(c.args) > 1:
                timed.append(c.args[1])
            if c.func.attr == 'acquire' and not timed:
                continue
            if timed:
                out.append(c)
    return out


def check(ctx):
    run, repo, res = ctx.run, ctx.repo, ctx.res
    # decided before the channel model is built: a protocol that was restructured beyond what the model recognises still must not
    # contain a wait that gives up
    run.rule('R21', 'QUEUE-PROTOCOL (g0): no wait of the protocol gives up after a timeout')
    got = sorted(u(c) for c in timed_waits(ast.parse(_TIMED_CONTROL)))
    if got != ['barrier.wait(timeout=10)', 'done.wait(5)']:
        raise AnalysisError('timed-wait self-check failed: %s' % got)
    pm = repo.modules[P]
    tw = timed_waits(pm.tree)
    for c in tw:
        run.fail('R21', where(repo, c), P, '(g0) ' + u(c),
                 'a wait of the protocol gives up after a timeout: when a worker is still busy (a slow row function) the others go on as if '
                 'it had arrived, end markers overtake the row in flight and it is lost or delivered with the next resource')
    if not tw:
        run.ok('R21', pm.relpath, '(g0) no timed wait in %s' % P)
    # worker processes are ordinary (non-daemonic) processes: a daemonic process may not have children, so a row function that uses
    # multiprocessing itself (a helper process, a pool, a nested parallelize) fails inside the worker - where the failure is only printed
    for c_ in ast.walk(pm.tree):
        if isinstance(c_, ast.Call) and (res.external_name(c_) or '').endswith('Process'):
            dm = [k for k in c_.keywords if k.arg == 'daemon' and not (isinstance(k.value, ast.Constant) and k.value.value in (False, None))]
            run.check(not dm, 'R21', where(repo, c_), P, '(j) worker process is not daemonic: ' + u(c_)[:80],
                      'the workers are daemonic: a row function that starts a process of its own fails in the worker ("daemonic processes '
                      'are not allowed to have children"), the failure is swallowed there and the row is delivered unprocessed')
    for a_ in ast.walk(pm.tree):
        if isinstance(a_, ast.Assign) and isinstance(a_.targets[0], ast.Attribute) and a_.targets[0].attr == 'daemon' and \
                not (isinstance(a_.value, ast.Constant) and a_.value.value in (False, None)):
            run.fail('R21', where(repo, a_), P, '(j) ' + u(a_), 'a worker is made daemonic: row functions that start processes fail inside it')
    model, C, W, F, Pr, I, O, D = topology(ctx)
    prod, fetch, work, fork = Pr.fi, F.fi, W.fi, C.fi
    run.analysed['channel model'] = dict(actors=[repr(a) for a in model.actors], queues=[repr(c) for c in model.chans],
                                         ops=[repr(o) for a in model.actors for o in a.ops],
                                         roles=dict(worker_input=repr(I), worker_output=repr(O), delivery=repr(D)))
    run.rule('R21', 'QUEUE-PROTOCOL (necessary conditions): (a) the number of end markers the producer enqueues, the number of workers '
                    'started and the number of markers the collector waits for are the same value; (b) the producer enqueues the markers '
                    'after its row loop; (c) it puts every row on exactly one queue; (d) a worker forwards each row it took exactly '
                    'once and emits exactly one marker on every exit; (e) the collector forwards non-markers, emits its single marker '
                    'only when the expected count reaches zero, then stops; (f) the consumer yields everything until the marker; '
                    '(g) protocol queues are read and written blocking, without timeouts; (h) whoever puts rows on a queue also '
                    'terminates them: on a multi-process queue only a process\'s own later marker is ordered after its rows')
    # ---- (a) one value for: markers enqueued, workers started, markers awaited
    ml = []
    for n in own_nodes(prod.node):
        if isinstance(n, ast.For) and isinstance(n.iter, ast.Call) and u(n.iter.func) == 'range' and len(n.iter.args) == 1 and \
                chan_calls(list(ast.walk(n)), Pr, I, 'put', 'marker'):
            ml.append(n)
    ok_a = len(ml) == 1 and len(chan_calls(list(ast.walk(ml[0])), Pr, I, 'put', 'marker')) == 1 and \
        len(chan_calls(list(ast.walk(prod.node)), Pr, I, 'put', 'marker')) == 1
    n_markers = Pr.resolve(ml[0].iter.args[0]) if ok_a else None
    n_workers = u(W.count) if isinstance(W.count, ast.AST) else (repr(W.count) if W.count is not None else None)
    # all spawned processes are started
    started = False
    if W.handle:
        for n in ast.walk(fork.node):
            if isinstance(n, ast.For) and pseudo(n.iter) == W.handle and isinstance(n.target, ast.Name) and \
                    any(isinstance(c, ast.Call) and isinstance(c.func, ast.Attribute) and c.func.attr == 'start'
                        and pseudo(c.func.value) == n.target.id for c in ast.walk(n)):
                started = True
    # the collector's marker count: counted down from the expected number to 0, or up from 0 to the expected number
    cnt = None
    n_awaited = None
    count_up = False
    floop = [n for n in own_nodes(fetch.node) if isinstance(n, ast.While)]
    steps_ = [n for n in ast.walk(fetch.node) if isinstance(n, ast.AugAssign) and isinstance(n.op, (ast.Sub, ast.Add))
              and isinstance(n.value, ast.Constant) and n.value.value == 1 and pseudo(n.target)]
    if len(steps_) == 1:
        cnt = pseudo(steps_[0].target)
        count_up = isinstance(steps_[0].op, ast.Add)
        inits = [n.value for n in own_nodes(fetch.node) if isinstance(n, ast.Assign) and pseudo(n.targets[0]) == cnt]
        if not count_up:
            if cnt in fetch.params and not inits:
                n_awaited = F.resolve(steps_[0].target)
            elif len(inits) == 1 and pseudo(inits[0]) in fetch.params and not isinstance(F.env.get(pseudo(inits[0])), channels.Chan):
                n_awaited = F.resolve(inits[0])
        else:
            # compared with the expected number
            cmps = [c for c in ast.walk(fetch.node) if isinstance(c, ast.Compare) and len(c.ops) == 1 and pseudo(c.left) == cnt
                    and isinstance(c.ops[0], (ast.Eq, ast.GtE)) and pseudo(c.comparators[0]) in fetch.params]
            if len(inits) == 1 and isinstance(inits[0], ast.Constant) and inits[0].value == 0 and len(cmps) == 1:
                n_awaited = F.resolve(cmps[0].comparators[0])
                limit_name = pseudo(cmps[0].comparators[0])
    run.check(ok_a and started and n_markers is not None and n_markers == n_workers == n_awaited, 'R21', fork.where, fork.qualname,
              '(a) markers enqueued == workers started == markers awaited',
              'producer / workers / collector do not agree on the number of end markers (%s / %s / %s): the run ends early '
              '(rows lost) or never ends' % (n_markers, n_workers, n_awaited))
    # ---- (b) (c) producer
    rl = row_loops(prod)
    if len(rl) != 1:
        raise AnalysisError('producer: row loop not found')
    loop, var, _ = rl[0]
    pred_params = [p for p in prod.params if not isinstance(Pr.env.get(p), channels.Chan)]
    sigs = rowloop_signature(prod, loop, var)
    okc = len(sigs) >= 2
    decided = set()
    for s in sigs:
        from sa.pathvals import PathValues as _PV
        penv = _PV(s.path).env

        def chan_on_path(recv):
            # a local that names the queue on this path (`target = q_in` under the predicate) is followed
            nm_ = pseudo(recv)
            v_ = penv.get(nm_) if nm_ else None
            if v_ is not None and pseudo(v_) and isinstance(Pr.env.get(pseudo(v_)), channels.Chan):
                return Pr.env[pseudo(v_)]
            return Pr.chan_of(recv)
        puts_all = [c for c in s.calls if isinstance(c.func, ast.Attribute) and c.func.attr in ('put', 'put_nowait')
                    and (chan_on_path(c.func.value) is not None or Pr.chans_of(c.func.value))]
        pred = []
        for t, pol in s.guards:
            t, pol = norm_compare(t, pol)
            if isinstance(t, ast.Call) and pseudo(t.func) in pred_params and [pseudo(a) for a in t.args] == [var]:
                pred.append(pol)
        good = len(pred) == 1 and len(s.guards) == 1 and len(puts_all) == 1 and s.term in (FALL, CONTINUE) and \
            puts_all[0].args and pseudo(puts_all[0].args[0]) == var
        if good:
            target = chan_on_path(puts_all[0].func.value)
            good = (target is I) if pred[0] else (target is D or target is O)
            decided.add(pred[0])
        okc = okc and good
    run.check(okc and decided == {True, False}, 'R21', where(repo, loop), prod.qualname,
              '(c) predicate(row): worker input queue gets the row, else it bypasses the workers; exactly one put per row',
              'a row is enqueued twice, not at all, or on the wrong queue')
    okb = ok_a and channels.runs_after(ml[0], loop, prod.node) and not channels.in_handler(ml[0], prod.node)
    run.check(okb, 'R21', where(repo, loop), prod.qualname, '(b) end markers after the row loop',
              'end markers can overtake rows: workers stop while rows are still being produced')
    # ---- (d) worker
    wl = [n for n in ast.walk(work.node) if isinstance(n, ast.While)]
    okd = len(wl) == 1
    if okd:
        w = wl[0]
        rv = get_var(w, I, W)
        fn_params = [p for p in work.params if not isinstance(W.env.get(p), channels.Chan)]
        okd = rv is not None
        for p in (Enumerator(where=work.qualname).body_paths(w) if okd else []):
            nodes = list(path_nodes(p, into_loops=True))
            gets = chan_calls(nodes, W, I, 'get')
            mt = marker_test(p, rv)
            fw = chan_calls(nodes, W, O, 'put', rv)
            mk = chan_calls(nodes, W, O, 'put', 'marker')
            applied = [c for c in nodes if isinstance(c, ast.Call) and pseudo(c.func) in fn_params]
            failed = any(it.kind == 'handler' for it in p.items)
            if mt is None:
                okd = False
            elif mt:
                okd = okd and p.term == BREAK and not fw and not mk and len(gets) == 1 and not applied
            else:
                # normal path and the row_func-raised path both forward the row exactly once
                okd = okd and len(fw) == 1 and not mk and p.term in (FALL, CONTINUE) and len(gets) == 1 and len(applied) == 1 and \
                    [pseudo(a) for a in applied[0].args] == [rv]
        trys = [n for n in own_nodes(work.node) if isinstance(n, ast.Try) and n.finalbody]
        allmk = chan_calls(list(ast.walk(work.node)), W, O, 'put', 'marker')
        okd = okd and len(allmk) == 1 and ((len(trys) == 1 and channels.in_finally(allmk[0], work.node) and w in list(ast.walk(trys[0])))
                                            or (not trys and channels.runs_after(allmk[0], w, work.node)))
        okd = okd and not channels.enclosing_loops(allmk[0], work.node)
    run.check(okd, 'R21', work.where, work.qualname, '(d) take one; marker -> stop; else apply once, forward the row once; finally: one marker',
              'a worker drops or duplicates a row, or does not emit exactly one end marker on every exit')
    # ---- (i) the row function is applied by the workers only (who-may-call): a call anywhere else - a probe in the consumer, a
    #      pre-check in the producer - applies it a second time to rows that also go through a worker
    applied_in_w = [c for c in ast.walk(work.node) if isinstance(c, ast.Call) and pseudo(c.func) in work.params
                    and not isinstance(W.env.get(pseudo(c.func)), channels.Chan)]
    root_fn = {W.resolve(c.func) for c in applied_in_w}
    oki = len(root_fn) == 1
    if oki:
        rf = list(root_fn)[0]
        for a_ in model.actors:
            if a_ is W:
                continue
            for c in ast.walk(a_.fi.node):
                if isinstance(c, ast.Call) and pseudo(c.func) and a_.resolve(c.func) == rf and \
                        (a_ is C or pseudo(c.func) in a_.fi.params):
                    run.fail('R21', where(repo, c), a_.fi.qualname, '(i) %s outside the workers' % u(c)[:80],
                             'the row function is also applied outside the worker processes: rows it is applied to here and '
                             'that go through a worker as well are processed twice')
                    oki = False
    if oki:
        run.ok('R21', work.where, '(i) the row function is called by the workers only')
    # ---- (e) collector
    oke = len(floop) == 1 and cnt is not None and n_awaited is not None
    if oke:
        rv = get_var(floop[0], O, F)
        oke = rv is not None
        allmk = [c for c in chan_calls(list(ast.walk(fetch.node)), F, D, 'put', 'marker') if not channels.in_handler(c, fetch.node)]
        oke = oke and len(allmk) == 1
        marker_after_loop = oke and channels.runs_after(allmk[0], floop[0], fetch.node)
        for p in (Enumerator(where=fetch.qualname).body_paths(floop[0]) if oke else []):
            nodes = list(path_nodes(p))
            mt = marker_test(p, rv)
            done = None
            for t, pol in p.guards():
                t, pol = norm_compare(t, pol)
                if not count_up:
                    if match_expr('%s == 0' % cnt, t) is not None or match_expr('%s <= 0' % cnt, t) is not None:
                        done = pol
                    elif match_expr('%s > 0' % cnt, t) is not None:
                        done = not pol
                    elif pseudo(t) == cnt:
                        done = not pol
                else:
                    if match_expr('%s == %s' % (cnt, limit_name), t) is not None or match_expr('%s >= %s' % (cnt, limit_name), t) is not None:
                        done = pol
                    elif match_expr('%s < %s' % (cnt, limit_name), t) is not None:
                        done = not pol
            fw = chan_calls(nodes, F, D, 'put', rv)
            mk = chan_calls(nodes, F, D, 'put', 'marker')
            dec = [n for n in nodes if n is steps_[0]]
            gets = chan_calls(nodes, F, O, 'get')
            if mt is None or len(gets) != 1:
                oke = False
            elif not mt:
                oke = oke and len(fw) == 1 and not mk and not dec and p.term in (FALL, CONTINUE)
            elif done is True:
                # the last marker: leave the loop; the single marker for the consumer is put here or right after the loop
                oke = oke and len(dec) == 1 and not fw and p.term in (BREAK, RETURN) and \
                    ((len(mk) == 1 and nodes.index(dec[0]) < nodes.index(mk[0])) if not marker_after_loop else (not mk and p.term == BREAK))
            elif done is False:
                oke = oke and len(dec) == 1 and not mk and not fw and p.term in (CONTINUE, FALL)
            else:
                oke = False
    run.check(oke, 'R21', fetch.where, fetch.qualname, '(e) forward rows; count markers; single marker at zero, then stop',
              'the collector signals completion before all workers finished (rows lost) or never')
    # ---- (f) consumer loop
    cl = [n for n in ast.walk(fork.node) if isinstance(n, ast.While)]
    okf = len(cl) == 1
    if okf:
        rv = get_var(cl[0], D, C)
        okf = rv is not None
        for p in (Enumerator(where=fork.qualname).body_paths(cl[0]) if okf else []):
            nodes = list(path_nodes(p))
            mt = marker_test(p, rv)
            ys = [y for y in nodes if isinstance(y, (ast.Yield, ast.YieldFrom))]
            gets = chan_calls(nodes, C, D, 'get')
            if mt is None or len(gets) != 1:
                okf = False
            elif mt:
                okf = okf and p.term == BREAK and not ys
            else:
                okf = okf and len(ys) == 1 and isinstance(ys[0], ast.Yield) and pseudo(ys[0].value) == rv and p.term in (FALL, CONTINUE)
        # waiting for the producer / workers / collector happens only after the stream has been drained
        for n in ast.walk(fork.node):
            if isinstance(n, ast.Call) and isinstance(n.func, ast.Attribute) and n.func.attr == 'join' and \
                    not isinstance(n.func.value, ast.Constant) and okf:
                if not channels.runs_after(n, cl[0], fork.node):
                    okf = False
    if len(cl) == 1:
        # the loop runs until the marker: its own test never ends it (and never keeps it from starting)
        t_ = cl[0].test
        try:
            cv = bool(eval(compile(ast.Expression(body=t_), '<test>', 'eval'), {'__builtins__': {}}, {}))
        except Exception:
            cv = None
        if cv is None:
            walrus = isinstance(t_, ast.Compare) and isinstance(t_.left, ast.NamedExpr) and len(t_.ops) == 1 and \
                isinstance(t_.ops[0], ast.IsNot) and isinstance(t_.comparators[0], ast.Constant) and t_.comparators[0].value is None
            if not walrus:
                raise AnalysisError('fork: the test of the collecting loop is neither constant nor `(row := q.get()) is not None`')
        else:
            run.check(cv, 'R21', where(repo, cl[0]), fork.qualname, '(f) while True: the loop ends at the marker only',
                      'the loop that hands the processed rows downstream never runs: every selected row is lost')
    run.check(okf, 'R21', fork.where, fork.qualname, '(f) yield until the marker; joins only after the stream is drained',
              'the consumer stops before the marker, drops rows, or waits for its helpers before draining their output')
    # ---- lazy start: rows before the first selected row are yielded directly; the first selected row is pushed back
    fr = row_loops(fork)
    okl = len(fr) == 1
    if okl:
        loop_, var_, _ = fr[0]
        pparams = [p for p in fork.params]
        seenp = set()
        for p in Enumerator(where=fork.qualname).body_paths(loop_):
            pred = []
            for t, pol in p.guards():
                t, pol = norm_compare(t, pol)
                if isinstance(t, ast.Call) and pseudo(t.func) in pparams and [pseudo(a) for a in t.args] == [var_]:
                    pred.append(pol)
            if not pred:
                okl = False
            elif not pred[0]:
                seenp.add(False)
                ys = [y for y in path_nodes(p) if isinstance(y, ast.Yield)]
                okl = okl and len(ys) == 1 and pseudo(ys[0].value) == var_
            else:
                seenp.add(True)
                chain = [n for n in path_nodes(p) if isinstance(n, ast.Assign) and isinstance(n.value, ast.Call)
                         and res.external_name(n.value) == 'itertools.chain']
                okl = okl and len(chain) == 1 and len(chain[0].value.args) == 2 and \
                    match_expr('[%s]' % var_, chain[0].value.args[0]) is not None and \
                    pseudo(chain[0].value.args[1]) == pseudo(loop_.iter)
                if okl:
                    # the re-assembled stream is what the producer iterates
                    src = Pr.env.get([p_ for p_ in prod.params if p_ == pseudo(row_loops(prod)[0][0].iter)][0]) \
                        if pseudo(row_loops(prod)[0][0].iter) in prod.params else None
                    okl = src is not None and not isinstance(src, channels.Chan) and pseudo(src) == pseudo(chain[0].targets[0])
        okl = okl and seenp == {True, False}
    run.check(okl, 'R21', fork.where, fork.qualname, 'unselected rows before the first selected one are yielded; that row is pushed back',
              'the first selected row (or rows before it) is lost when the parallel section starts')
    # ---- (g) every queue operation of the protocol blocks without a timeout
    for o in model.ops():
        n = o.node
        if o.op == 'get':
            ok_g = n.func.attr == 'get' and not n.args and not n.keywords
            run.check(ok_g, 'R21', where(repo, n), o.actor.fi.qualname, '(g) blocking read ' + u(n),
                      'a protocol queue is read with a timeout / without blocking: under a slow producer the reader gives up, '
                      'the end-marker count is reached early and later rows are lost')
        else:
            ok_p = n.func.attr == 'put' and len(n.args) == 1 and not n.keywords
            run.check(ok_p, 'R21', where(repo, n), o.actor.fi.qualname, '(g) blocking put ' + u(n),
                      'a protocol queue is written with a timeout / without blocking: a full queue drops the row')
    for ch in model.chans:
        ctor = ch.node.value
        run.check(ch.kind in ('mp', 'thread'), 'R21', where(repo, ch.node), fork.qualname, '(g) FIFO queue ' + ch.name,
                  'a protocol queue is not FIFO: end markers overtake rows')
    # ---- (h) whoever puts rows on a queue also terminates them
    for ch in model.chans:
        data = [o for o in model.ops(chan=ch, op='put', what='data') if not channels.in_handler(o.node, o.actor.fi.node)]
        marks = [o for o in model.ops(chan=ch, op='put', what='marker') if not channels.in_handler(o.node, o.actor.fi.node)]
        for o in data:
            own = [m for m in marks if m.actor is o.actor]
            if ch.kind == 'mp':
                ok_h = bool(own)
                why = ('rows are put on the multi-process queue %s by %s, which never puts an end marker on it: another process\'s '
                       'marker is not ordered after these rows (each putter has its own feeder), so the reader can see the last '
                       'marker first and drop them' % (ch.name, o.actor.fi.name))
            else:
                ok_h = bool(own) or precedes(model, o.actor, ch, set())
                why = ('rows put on %s by %s are not ordered before the end marker another actor puts there' % (ch.name, o.actor.fi.name))
            run.check(ok_h, 'R21', where(repo, o.node), o.actor.fi.qualname, '(h) %s on %s' % (u(o.node), ch.name), why)
    func = repo.func(P + ':parallelize.func')
    stream.r6_identity(ctx, [func])
    stream.r6_count_agreement(ctx, [func])
    run.trusted += ['queue.Queue is FIFO and put() is synchronous; multiprocessing.Queue is FIFO per putting process only']
    run.not_decided += ['"for every interleaving": no static argument in reach bounds schedules; that needs a model checker '
                        '(a different technique family)', 'failure paths (C04 known findings: producer / worker swallow errors)',
                        'row_func applied exactly once: the worker calls it once per taken row on the non-failing path only']
    return ('A channel model (queues by creation site, actors by spawn site, parameters bound to what the root passed) is built '
            'from the source; necessary conditions of the end-marker protocol are checked on every path of producer, worker, '
            'collector and consumer: marker counts derive from one value, markers follow rows, each row is put / forwarded exactly '
            'once, the collector signals completion only at zero, and every actor that puts rows on a queue is ordered before '
            'that queue\'s end marker. Schedules themselves are not explored.', [])


def precedes(model, actor, chan, seen):
    """Are all of `actor`'s puts complete before any end marker is put on `chan` (a thread queue)?  True if every marker putter B of
    chan emits it only after having read the end marker(s) of a queue Q' on which `actor` itself puts its markers after its
    loop, or, recursively, of a queue all of whose marker putters are preceded by `actor`."""
    if id(chan) in seen:
        return False
    seen = seen | {id(chan)}
    marks = [m for m in model.ops(chan=chan, op='put', what='marker') if not channels.in_handler(m.node, m.actor.fi.node)]
    if not marks:
        return False
    for m in marks:
        if m.actor is actor:
            continue
        reads = {id(o.chan): o.chan for o in m.actor.ops if o.op == 'get'}
        ok = False
        for q in reads.values():
            qm = [x for x in model.ops(chan=q, op='put', what='marker') if not channels.in_handler(x.node, x.actor.fi.node)]
            if qm and all(x.actor is actor for x in qm):
                # actor's own marker on q: must come after its data loop
                loops = [l for l in ast.walk(actor.fi.node) if isinstance(l, (ast.For, ast.While))
                         and any(o.what == 'data' and o.node in list(ast.walk(l)) for o in actor.ops if o.op == 'put')]
                ok = all(channels.runs_after(x.node, l, actor.fi.node) for x in qm for l in loops)
            elif qm:
                ok = precedes(model, actor, q, seen)
            if ok:
                break
        if not ok:
            return False
    return True
