"""C19 A dump descriptor is written only after its data files are complete (DESIGN §5 C19)."""
import ast

from rules import commits
from sa.deps import Facts, names_in, pseudo
from sa.loader import AnalysisError, own_nodes
from sa.model import find_resloops, resloop_signature, u, where


def check(ctx):
    run, repo, res = ctx.run, ctx.repo, ctx.res
    run.rule('R15', 'COMMIT-ORDER: handle_datapackage() runs once, after the loop over all resource streams, outside except/finally; '
                    'datapackage.json is written by one function only, after json.dump and close; each data file is copied out after '
                    'finalize_file and close, after its row loop; no constructor / initialize writes output')
    pr = commits.r15_descriptor_after_loop(ctx)
    commits.r15_descriptor_write(ctx)
    commits.r15_datafile_order(ctx)
    from rules import errors
    errors.r14_stopiteration_drivers(ctx)
    # the commit point is reached only when every stream was read to its end: the driver must stop pulling at the first failure
    # (a handler inside the driver that goes on to the next resource lets the writer upstream run to its rename / copy)
    errors.r14_err_discipline(ctx, rule='R14', include=lambda m: m.name == 'dataflows.base.datastream_processor' or m.name.startswith('dataflows.processors.dumpers'), floor=1)
    # each yielded stream is the one produced by process_resource (so that the file is finished when the stream ends)
    rls = [rl for rl in find_resloops(repo, res, pr, [pr.params[1]]) if rl.kind == 'for']
    facts = Facts(pr, include_nested=False)
    sigs, _ = resloop_signature(repo, res, rls[0])
    for s in sigs:
        ok = len(s.yields) == 1
        if ok:
            v = s.yields[0][1].value
            srcs = [v] + [x for nm in facts.roots(v) for x in facts.values_of(nm)]
            ok = any(isinstance(c, ast.Call) and isinstance(c.func, ast.Attribute) and c.func.attr == 'process_resource'
                     for s_ in srcs for c in ast.walk(s_))
        run.check(ok, 'R15', where(repo, rls[0].node), pr.qualname, 'yield <row_counter(process_resource(resource))>',
                  'a resource stream bypasses process_resource: its data file would never be written before the descriptor')
    # FileDumper.process_resource returns the generator that finalises and copies the file
    fd = commits.file_dumper(ctx)
    p1 = fd.methods.get('process_resource')
    rp = commits.rows_processor(ctx)
    rets = [n for n in own_nodes(p1.node) if isinstance(n, ast.Return)]
    ok = any(isinstance(r.value, ast.Call) and isinstance(r.value.func, ast.Attribute) and r.value.func.attr == rp.name
             for r in rets)
    run.check(ok, 'R15', p1.where, p1.qualname, 'return self.%s(resource, writer, temp_file)' % rp.name,
              'the stream handed downstream is not the generator that finalises and copies the data file')
    # to_path copies, never moves or writes in place before completion
    pd = repo.cls('dataflows.processors.dumpers.to_path:PathDumper')
    w = pd.methods.get('write_file_to_output')
    if w is None:
        raise AnalysisError('PathDumper.write_file_to_output not found')
    run.rule('PLACE', 'PLACEMENT: PathDumper.write_file_to_output puts the finished temp file at its final name '
                      'join(out_path, path) before it returns (the only other exit is the existing-hashed-file shortcut), and no other '
                      'method of the dumper copies, moves or renames files: what the descriptor lists is in place when the '
                      'descriptor - handled last - is placed')
    from sa.pathvals import PathValues, subst
    from sa.paths import RAISE, Enumerator, Path
    from sa.pattern import match_expr
    PLACERS = ('shutil.copy', 'shutil.copyfile', 'shutil.copy2', 'shutil.move', 'os.rename', 'os.replace')
    wn = ctx.N(w)
    src_p, dst_p = w.params[1], w.params[2]
    final = 'os.path.join(self.out_path, %s)' % dst_p
    n_paths = 0
    for p in Enumerator(where=w.qualname).paths(wn.node.body):
        if p.term == RAISE:
            continue
        # replay the path: value of each placing call's arguments at that point
        placed = []
        items = []
        for it in p.items:
            items.append(it)
            if it.kind in ('stmt', 'return'):
                for c in ast.walk(it.node):
                    if isinstance(c, ast.Call) and res.external_name(c) in PLACERS and len(c.args) >= 2:
                        pv = PathValues(Path(items[:-1]))
                        placed.append((subst(c.args[0], pv.env), subst(c.args[1], pv.env), c))
        pv = PathValues(p)
        from sa.model import norm_guard as _ng19
        pv.guards = [_ng19(t, pol) for t, pol in pv.guards]       # `if not skip:` with skip = A and B: the test is A and B, negated
        shortcut = any(pol and any(isinstance(c, ast.Call) and u(c.func) == 'os.path.exists' for c in ast.walk(t))
                       for t, pol in pv.guards)
        n_paths += 1
        if shortcut and not placed:
            # existing file under a content-addressed name: nothing to place
            ok = any(pol and 'self.add_filehash_to_path' in u(t) for t, pol in pv.guards)
            run.check(ok, 'PLACE', w.where, w.qualname, 'skip only for a content-addressed existing file',
                      'an existing file is kept although its name does not identify its content')
            continue
        ok = bool(placed)
        if ok:
            prev_dst = None
            for s_, d_, c in placed:
                ok = ok and (u(s_) == src_p or (prev_dst is not None and u(s_) == prev_dst))
                prev_dst = u(d_)
            ok = ok and match_expr(final, placed[-1][1]) is not None
        run.check(ok, 'PLACE', w.where, w.qualname, 'placement on path: ' + ' & '.join(('' if pol else 'not ') + u(t) for t, pol in pv.guards),
                  'write_file_to_output can return without the finished file being at <out_path>/<path> (staged under another '
                  'name, or not copied at all)')
    run.floor('PLACE', n_paths, 2, 'paths through write_file_to_output')
    for c_ in [pd] + list(res.subclasses(pd, strict=True)):
        for m in c_.methods.values():
            if m.name == w.name:
                continue
            for c in ast.walk(m.node):
                if isinstance(c, ast.Call) and res.external_name(c) in PLACERS:
                    run.fail('PLACE', where(repo, c), m.qualname, c,
                             'files are moved / copied outside write_file_to_output: the order "data files, then descriptor" is '
                             'decided there and nowhere else')
    run.ok('PLACE', w.where, 'no placing call outside write_file_to_output')
    run.trusted += ['LF6', 'the pipeline driver exhausts streams in order (checked by C01/C05 R3)']
    run.not_decided += ['atomicity of shutil.copy (a torn datapackage.json is unparseable, which the property excludes)',
                        'a downstream user step that abandons a resource']
    return ('Ordering constraints proven on every enumerated path: descriptor handling after the complete resource loop and outside '
            'except/finally; single writer of datapackage.json after dump and close; data file copy-out after finalize and close, '
            'after the row loop, of the same temp file that was measured; streams go through process_resource.', ['LF6'])
