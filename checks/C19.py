"""C19 A dump descriptor is written only after its data files are complete (DESIGN §5 C19)."""
import ast

from rules import commits
from sa.deps import Facts, names_in, pseudo
from sa.loader import AnalysisError, own_nodes
from sa.model import find_resloops, resloop_signature, u, where


def check(ctx):
    run, repo, res = ctx.run, ctx.repo, ctx.res
    run.rule('R15', 'COMMIT-ORDER: handle_datapackage() runs once, after the loop over all resource streams, outside except/finally; '
                    'datapackage.json is written by one function only, after json.dump and close; each data file is copied out after '
                    'finalize_file and close, after its row loop; no constructor / initialize writes output')
    pr = commits.r15_descriptor_after_loop(ctx)
    commits.r15_descriptor_write(ctx)
    commits.r15_datafile_order(ctx)
    from rules import errors
    errors.r14_stopiteration_drivers(ctx)
    # each yielded stream is the one produced by process_resource (so that the file is finished when the stream ends)
    rls = [rl for rl in find_resloops(repo, res, pr, [pr.params[1]]) if rl.kind == 'for']
    facts = Facts(pr, include_nested=False)
    sigs, _ = resloop_signature(repo, res, rls[0])
    for s in sigs:
        ok = len(s.yields) == 1
        if ok:
            v = s.yields[0][1].value
            srcs = [v] + [x for nm in facts.roots(v) for x in facts.values_of(nm)]
            ok = any(isinstance(c, ast.Call) and isinstance(c.func, ast.Attribute) and c.func.attr == 'process_resource'
                     for s_ in srcs for c in ast.walk(s_))
        run.check(ok, 'R15', where(repo, rls[0].node), pr.qualname, 'yield <row_counter(process_resource(resource))>',
                  'a resource stream bypasses process_resource: its data file would never be written before the descriptor')
    # FileDumper.process_resource returns the generator that finalises and copies the file
    fd = commits.file_dumper(ctx)
    p1 = fd.methods.get('process_resource')
    rp = commits.rows_processor(ctx)
    rets = [n for n in own_nodes(p1.node) if isinstance(n, ast.Return)]
    ok = any(isinstance(r.value, ast.Call) and isinstance(r.value.func, ast.Attribute) and r.value.func.attr == rp.name
             for r in rets)
    run.check(ok, 'R15', p1.where, p1.qualname, 'return self.%s(resource, writer, temp_file)' % rp.name,
              'the stream handed downstream is not the generator that finalises and copies the data file')
    # to_path copies, never moves or writes in place before completion
    pd = repo.cls('dataflows.processors.dumpers.to_path:PathDumper')
    w = pd.methods.get('write_file_to_output')
    if w is None:
        raise AnalysisError('PathDumper.write_file_to_output not found')
    copies = [n for n in own_nodes(w.node) if isinstance(n, ast.Call) and res.external_name(n) in
              ('shutil.copy', 'shutil.copyfile', 'shutil.copy2', 'shutil.move', 'os.rename', 'os.replace')]
    facts = Facts(w, include_nested=False)
    ok = len(copies) == 1 and pseudo(copies[0].args[0]) == w.params[1] and w.params[2] in facts.roots(copies[0].args[1]) \
        and 'self.out_path' in facts.roots(copies[0].args[1])
    run.check(ok, 'R15', w.where, w.qualname, 'shutil.copy(filename, join(out_path, path))',
              'the finished temp file is not copied to <out_path>/<path>')
    run.trusted += ['LF6', 'the pipeline driver exhausts streams in order (checked by C01/C05 R3)']
    run.not_decided += ['atomicity of shutil.copy (a torn datapackage.json is unparseable, which the property excludes)',
                        'a downstream user step that abandons a resource']
    return ('Ordering constraints proven on every enumerated path: descriptor handling after the complete resource loop and outside '
            'except/finally; single writer of datapackage.json after dump and close; data file copy-out after finalize and close, '
            'after the row loop, of the same temp file that was measured; streams go through process_resource.', ['LF6'])
