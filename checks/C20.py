"""C20 dump_to_sql leaves the table in the state its mode prescribes (DESIGN §5 C20) — structural clauses."""
import ast

from rules import observers
from sa.deps import Facts, names_in, pseudo
from sa.loader import AnalysisError, FuncInfo, own_nodes
from sa.model import alpha_text, norm_compare, row_loops, rowloop_signature, u, where
from sa.paths import FALL, RAISE, RETURN, Enumerator, path_nodes
from sa.pattern import find_expr, find_stmt, has_expr, has_stmt, match_expr, match_stmt

SQL = 'dataflows.processors.dumpers.to_sql'


def check(ctx):
    run, repo, res = ctx.run, ctx.repo, ctx.res
    sd = repo.cls(SQL + ':SQLDumper')
    pr = ctx.N(sd.methods['process_resource'], keep=('get_output_row', 'normalize_for_engine', 'normalize_schema_for_engine'))
    from sa.normalize import call_idioms
    call_idioms(ctx, pr)        # f(**{'k': v}) is f(k=v); put = d.setdefault; put(..) is d.setdefault(..)
    # update mode relies on the writer of the storage library to tell an existing key from a new one.  Its bloom filter remembers the
    # keys as the database returns them and is asked with the keys as the schema casts them: for a number / any typed key column the
    # two texts differ (1.5 vs Decimal('1.5'), '1' vs 1) and an existing row is inserted again.  The exact lookup is the default the
    # property needs; the filter is an optimisation to opt into
    run.rule('UBF', 'UPDATE-LOOKUP: the default of the dumper option use_bloom_filter is False')
    ini20 = ctx.N(sd.methods['__init__'])
    from rules import tables as _t20
    ubf = _t20.option_defaults(ini20.node, 'use_bloom_filter')
    if len(ubf) != 1:
        raise AnalysisError('SQLDumper.__init__: the default of use_bloom_filter was not found')
    dflt20 = ubf[0]
    run.check(isinstance(dflt20, ast.Constant) and dflt20.value is False, 'UBF', ini20.where, sd.qualname,
              "options.get('use_bloom_filter', False)",
              'update mode asks the storage writer\'s bloom filter by default: for a key column of type number / any a key that is '
              'in the table already is taken for new and inserted a second time')
    run.rule('R23', 'MODE-SIGNATURE(sql): the existing table is deleted only when mode == rewrite and it exists; the table is created only '
                    'when it does not exist (after a possible delete); update keys are passed only in update mode, defaulting to the '
                    'primary key; resources that are not mapped to a table pass through untouched')
    # names handed to the storage writer: an assignment to one of them is an event of the path too (a branch that only rebinds the
    # keys must not be merged away)
    wnames = {pseudo(k.value) for c in ast.walk(pr.node) if isinstance(c, ast.Call) and u(c.func) == 'storage.write'
              for k in c.keywords if isinstance(k.value, ast.Name)}
    en = Enumerator(where=pr.qualname, relevant=lambda n: (isinstance(n, ast.Call) and isinstance(n.func, ast.Attribute)
                                                           and n.func.attr in ('delete', 'create', 'describe', 'write', 'get')) or
                    (isinstance(n, ast.Assign) and any(pseudo(t) in wnames for t in n.targets)))
    paths = en.paths(pr.node.body)
    n = 0
    fallback_seen = False
    delete_seen = kept_seen = False
    for p in paths:
        nodes = list(path_nodes(p))
        from sa.pathvals import PathValues as _PV, flag_resolved_guards as _frg
        pv_ = _PV(p)
        # guards with the locals they test resolved (`created = '' not in storage.buckets; if created:` is the existence test)
        g = {u(t): pol for t, pol in [norm_compare(t, pol) for t, pol in list(p.guards()) + list(_frg(p))]}
        mapped = g.get('resource_name in self.converted_resources')
        if mapped is None:
            raise AnalysisError('SQLDumper.process_resource: mapping test not found')
        dels = [c for c in nodes if isinstance(c, ast.Call) and u(c.func) == 'storage.delete']
        crs = [c for c in nodes if isinstance(c, ast.Call) and u(c.func) == 'storage.create']
        wrs = [c for c in nodes if isinstance(c, ast.Call) and u(c.func) == 'storage.write']
        rets = [it.node for it in p.items if it.kind == 'return']
        n += 1
        if not mapped:
            run.check(not dels and not crs and not wrs and len(rets) == 1 and pseudo(rets[0].value) == pr.params[1], 'R23',
                      pr.where, pr.qualname, 'unmapped resource: return resource', 'an unmapped resource touches the database or is altered')
            continue
        if p.term == RAISE:
            continue
        rewrite = g.get("mode == 'rewrite' and '' in storage.buckets")
        exists_after = g.get("'' in storage.buckets")
        update = g.get("mode == 'update'")
        run.check((len(dels) == 1) == bool(rewrite) and len(dels) <= 1, 'R23', pr.where, pr.qualname,
                  'delete iff (rewrite and exists): ' + str(rewrite), 'the table is dropped in a mode other than rewrite (append / update lose '
                  'the previous rows) or not dropped in rewrite mode')
        run.check((len(crs) == 1) == (exists_after is False), 'R23', pr.where, pr.qualname,
                  'create iff not exists: ' + str(exists_after), 'table creation does not follow the existence test')
        # a table that exists (and was not just dropped) is bound to the schema with describe() before rows are written to it
        descs = [c for c in nodes if isinstance(c, ast.Call) and u(c.func) == 'storage.describe']
        run.check((len(descs) == 1) == (exists_after is True), 'R23', pr.where, pr.qualname,
                  'describe iff the table exists: ' + str(exists_after),
                  'rows are appended to / updated in an existing table that was not bound to the schema (storage.describe)')
        delete_seen = delete_seen or (bool(dels) and bool(rewrite))
        kept_seen = kept_seen or (rewrite is False and exists_after is True)
        if dels and crs:
            run.check(nodes.index(dels[0]) < nodes.index(crs[0]), 'R23', pr.where, pr.qualname, 'delete before create', 'create precedes delete')
        # update keys
        facts = Facts(pr, include_nested=False)
        if len(wrs) == 1:
            kw = {k.arg: k.value for k in wrs[0].keywords}
            run.check(pseudo(kw.get('update_keys')) == 'update_keys' and pseudo(kw.get('buffer_size')) == 'self.batch_size'
                      and pseudo(kw.get('use_bloom_filter')) == 'self.use_bloom_filter' and
                      u(kw.get('keyed', ast.Constant(value=None))) == 'True' and u(kw.get('as_generator', ast.Constant(value=None))) == 'True',
                      'R23', where(repo, wrs[0]), pr.qualname, 'storage.write(update_keys=, buffer_size=batch_size, use_bloom_filter=, keyed, as_generator)',
                      'update keys / batch size / bloom filter option do not reach the storage writer')
            assigned = [x for x in nodes if isinstance(x, ast.Assign) and pseudo(x.targets[0]) == 'update_keys']
            nonnull = [x for x in assigned if not (isinstance(x.value, ast.Constant) and x.value.value is None)]
            run.check(bool(nonnull) == bool(update), 'R23', pr.where, pr.qualname, 'update_keys set iff mode == update: ' + str(update),
                      'rows are matched by key in a mode other than update, or update mode writes without keys')
            # ... and what reaches the writer is the value the variable holds at the end of the path
            final_ = pv_.value('update_keys')
            if final_ is not None:
                is_none_ = isinstance(final_, ast.Constant) and final_.value is None
                run.check(is_none_ != bool(update), 'R23', pr.where, pr.qualname,
                          'update_keys handed to the writer are non-None iff mode == update: ' + str(update),
                          'on this path the keys that reach storage.write are %s although mode == update is %s: an update dump without '
                          'keys inserts every row (repeated keys are not collapsed, existing rows not matched)' % (u(final_), bool(update)),
                          path=p.describe())
            if update:
                # the key variable may carry another name inside an inlined helper: any `<k> is None` test on a name that was
                # assigned from <resource config>.get('update_keys')
                knames = {pseudo(x.targets[0]) for x in nodes if isinstance(x, ast.Assign) and pseudo(x.targets[0])
                          and match_expr("__C.get('update_keys')", x.value) is not None}
                none_test = any(pol for t, pol in [norm_compare(t, pol) for t, pol in p.guards()]
                                if isinstance(t, ast.Compare) and isinstance(t.ops[0], ast.Is) and pseudo(t.left) in knames
                                and isinstance(t.comparators[0], ast.Constant) and t.comparators[0].value is None)
                run.check(len(knames) == 1, 'R23', pr.where, pr.qualname, "update keys read from the resource configuration",
                          'update mode does not take the configured update_keys')
                if none_test:
                    fb = [x for x in nodes if isinstance(x, ast.Assign) and pseudo(x.targets[0]) in knames
                          and (match_expr("__S.get('primaryKey', [])", x.value) is not None or
                               match_expr("__S.get('primaryKey') or []", x.value) is not None)]
                    run.check(len(fb) == 1, 'R23', pr.where, pr.qualname, "update keys default to the primary key",
                              'without explicit update_keys the primary key is not used')
                    fallback_seen = fallback_seen or len(fb) == 1
        else:
            run.fail('R23', pr.where, pr.qualname, 'storage.write on the mapped path', 'rows of a mapped resource are not written')
        # the returned stream is map(get_output_row, storage.write(...))
        def through(e):
            # a name in between: the (single) assignment to it on this path
            for _ in range(3):
                if isinstance(e, ast.Name):
                    a_ = [x for x in nodes if isinstance(x, ast.Assign) and pseudo(x.targets[0]) == e.id]
                    if len(a_) != 1:
                        break
                    e = a_[0].value
            return e
        rv = through(rets[0].value) if len(rets) == 1 and rets[0].value is not None else None
        ok = isinstance(rv, ast.Call) and u(rv.func) == 'map' and len(rv.args) == 2 and \
            u(rv.args[0]) == 'self.get_output_row' and bool(wrs) and through(rv.args[1]) is wrs[0]
        if not ok and isinstance(rv, ast.Call) and isinstance(rv.func, ast.Attribute) and pseudo(rv.func.value) == 'self' and len(rv.args) == 1:
            # the same mapping written as a generator method: for w in written: yield self.get_output_row(w)
            gm = sd.methods.get(rv.func.attr)
            if gm is not None and gm.is_generator and len(gm.params) == 2:
                body_ = [x for x in gm.node.body if not (isinstance(x, ast.Expr) and isinstance(x.value, ast.Constant))]
                ok = len(body_) == 1 and match_stmt('for _w in %s:\n    yield self.get_output_row(_w)' % gm.params[1], body_[0]) is not None \
                    and bool(wrs) and through(rv.args[0]) is wrs[0]
        if ok:
            rows_arg = through(wrs[0].args[1]) if len(wrs[0].args) > 1 else None
            ok = isinstance(rows_arg, ast.Call) and u(rows_arg.func) == 'self.normalize_for_engine' and \
                any(pseudo(a) == pr.params[1] for a in rows_arg.args)
        run.check(ok, 'R23', pr.where, pr.qualname, 'return map(self.get_output_row, storage.write(...))',
                  'rows do not continue downstream from the writer')
    run.floor('R23', n, 4, 'mode paths')
    # the existence test looks at the database as it is when the resource is dumped: the Storage (which reflects the existing
    # tables when it is constructed) is created in process_resource itself, not at construction time of the step
    st_names = {pseudo(c.func.value) for c in ast.walk(pr.node) if isinstance(c, ast.Call) and isinstance(c.func, ast.Attribute)
                and c.func.attr in ('delete', 'create', 'write', 'describe') and pseudo(c.func.value)
                and 'storage' in pseudo(c.func.value).lower()}
    okst = len(st_names) == 1
    if okst:
        sn = list(st_names)[0]
        vals = [x.value for x in ast.walk(pr.node) if isinstance(x, ast.Assign) and pseudo(x.targets[0]) == sn]
        okst = len(vals) == 1 and isinstance(vals[0], ast.Call) and \
            (res.external_name(vals[0]) or '').endswith('Storage') and not sn.startswith('self.')
    run.check(okst, 'R23', pr.where, pr.qualname, 'storage = Storage(engine, prefix=table) created when the resource is processed',
              'the Storage whose table list decides delete / create was not created at dump time: a table created after the step '
              'was constructed is not seen, rewrite mode then appends to it instead of replacing it')
    run.check(delete_seen and kept_seen, 'R23', pr.where, pr.qualname,
              'a path that drops the existing table (rewrite) and a path that keeps it (append / update)',
              'the mode no longer decides between dropping and keeping the existing table: rewrite keeps the previous rows, or append / '
              'update lose them')
    run.check(fallback_seen, 'R23', pr.where, pr.qualname, 'a path on which missing update_keys fall back to the primary key',
              'without explicit update_keys the primary key is not used (update mode would match rows on nothing)')
    body = u(pr.node)
    run.check(has_stmt("mode = _c.get('mode', 'rewrite')", pr.node), 'R23', pr.where, pr.qualname, "default mode rewrite",
              'the default mode is not rewrite')

    run.rule('R12', 'ROW-LOOP-SHAPE(sql): rows continue downstream as the written row object with only the two optional flag columns '
                    'stored; the flags carry the storage\'s updated / updated_id answers')
    from sa.pathvals import PathValues
    go = ctx.N(sd.methods['get_output_row'])
    w_ = go.params[1]
    okg, n_paths = True, 0
    flags = {'self.updated_column': '%s.updated' % w_, 'self.updated_id_column': '%s.updated_id' % w_}
    for p in Enumerator(where=go.qualname).paths(go.node.body):
        pv = PathValues(p)
        n_paths += 1
        on = {}
        for t, pol in pv.guards:
            t, pol = norm_compare(t, pol)
            if pseudo(t) in flags:
                on[pseudo(t)] = pol
            else:
                okg = False
        stores = {}
        for orig, st in pv.stmts:
            if isinstance(st, ast.Assign) and isinstance(st.targets[0], ast.Subscript):
                # the target's base is read (Load) inside a Store subscript: substituted as well
                base_, key_ = u(st.targets[0].value), pseudo(st.targets[0].slice)
                okg = okg and base_ == '%s.row' % w_ and key_ in flags and key_ not in stores
                stores[key_] = u(st.value)
            elif not (isinstance(st, ast.Expr) and isinstance(st.value, ast.Constant)):
                okg = False
        for k_, want in flags.items():
            okg = okg and ((stores.get(k_) == want) if on.get(k_) else k_ not in stores) and k_ in on
        okg = okg and len(pv.returns) == 1 and u(pv.returns[0]) == '%s.row' % w_
    okg = okg and n_paths == 4
    run.check(okg, 'R12', go.where, go.qualname, 'row[updated_column] = updated; row[updated_id_column] = updated_id; return row',
              'the downstream row is not the written row with truthful updated flags')
    ne = ctx.N(sd.methods['normalize_for_engine'])
    call_idioms(ctx, ne)
    rl = row_loops(ne)
    if len(rl) != 1:
        raise AnalysisError('normalize_for_engine: row loop not found')
    loop, var, _ = rl[0]
    sigs = rowloop_signature(ne, loop, var)
    for s in sigs:
        run.check([k for k, _ in s.yields] == ['identity'] and s.term == FALL, 'R12', where(repo, loop), ne.qualname,
                  'every row is yielded once', 'normalisation drops or duplicates rows')
    stores = [x for x in ast.walk(loop) if isinstance(x, ast.Assign) and isinstance(x.targets[0], ast.Subscript)
              and pseudo(x.targets[0].value) == var]
    for x in stores:
        run.fail('R12', where(repo, x), ne.qualname, alpha_text(x, ne.node),
                 'array / object values are converted to their database representation in place, in the very row objects that '
                 'continue downstream: with sqlite a downstream step sees \'[1, 2]\' (a JSON string) instead of [1, 2]')
    # ... but converted they are: for every (name, fixers) entry and every fixer in list order the value under that name is replaced by
    # fixer(value) in the row that reaches the writer (positive half of the clause; where the result is stored is judged above)
    app = None
    for x in ast.walk(loop):
        if isinstance(x, ast.Assign) and isinstance(x.targets[0], ast.Subscript) and isinstance(x.value, ast.Call) and \
                isinstance(x.value.func, ast.Name) and len(x.value.args) == 1:
            fors = []
            q = x
            while q is not loop:
                q = q._parent
                if isinstance(q, ast.For) and q is not loop:
                    fors.append(q)
            key = u(x.targets[0].slice)
            arg = x.value.args[0]
            reads_same = (match_expr('_r.get(%s)' % key, arg) is not None or match_expr('_r[%s]' % key, arg) is not None)
            if len(fors) == 2 and reads_same and isinstance(fors[0].target, ast.Name) and fors[0].target.id == x.value.func.id and \
                    match_expr('_a.items()', fors[1].iter) is not None and isinstance(fors[1].target, ast.Tuple) and \
                    [pseudo(e_) for e_ in fors[1].target.elts] == [key, pseudo(fors[0].iter)]:
                app = x
    run.check(app is not None, 'R12', where(repo, loop), ne.qualname,
              'for name, fixers in actions.items(): for fixer in fixers: row[name] = fixer(row.get(name))',
              'the fixers collected for array / object fields are not applied, in order, to the value under the field name: sqlite gets '
              'Python lists / dicts it cannot bind (or their repr)')
    tbl = None
    for st_ in ne.module.tree.body:
        if isinstance(st_, ast.Assign) and pseudo(st_.targets[0]) == 'OBJECT_FIXERS' and isinstance(st_.value, ast.Dict):
            tbl = {k.value: [u(e_) for e_ in v.elts] for k, v in zip(st_.value.keys, st_.value.values)
                   if isinstance(k, ast.Constant) and isinstance(v, (ast.List, ast.Tuple))}
    run.check(tbl is not None and tbl.get('sqlite') == ['strize', 'jsonize'] and tbl.get('postgresql') == ['strize'], 'R12',
              ne.module.relpath, ne.module.name + ':<module>', "OBJECT_FIXERS: sqlite -> [strize, jsonize], postgresql -> [strize]",
              'the per-dialect fixers are not: plain JSON-able values first (strize), then - for sqlite, which has no JSON column - the '
              'JSON text (jsonize)')
    # strize: the value is rebuilt from JSON-able parts, kind by kind (a branch table; the order is free where the kinds are disjoint)
    sz = repo.func(SQL + ':strize', None)
    if sz is None:
        raise AnalysisError('to_sql: strize not found')
    p0 = sz.params[0]
    want = {
        'dict': ['dict(((_k, strize(_v)) for (_k, _v) in %s.items()))' % p0, '{_k: strize(_v) for (_k, _v) in %s.items()}' % p0],
        '(str, int, float, bool)': [p0],
        'datetime.date': ['%s.isoformat()' % p0],
        'decimal.Decimal': ['float(%s)' % p0],
        '(list, set)': ['[strize(_x) for _x in %s]' % p0, 'list(map(strize, %s))' % p0],
        'None': ['None'],
    }
    got = {}
    for p in Enumerator(where=sz.qualname).paths(sz.node.body):
        if p.term != RETURN:
            continue
        pos = []
        for t, pol in p.guards():
            t, pol = norm_compare(t, pol)
            if pol:
                b_ = match_expr('isinstance(%s, __T)' % p0, t)
                if b_ is not None and isinstance(b_['__T'], ast.Name):
                    # a module-level name for the type tuple
                    defs_ = [st_.value for st_ in sz.module.tree.body if isinstance(st_, ast.Assign) and pseudo(st_.targets[0]) == b_['__T'].id]
                    if len(defs_) == 1:
                        b_ = {'__T': defs_[0]}
                pos.append(u(b_['__T']) if b_ is not None else ('None' if match_expr('%s is None' % p0, t) is not None else u(t)))
        rets = [it.node.value for it in p.items if it.kind == 'return']
        if len(pos) == 1 and len(rets) == 1:
            got[pos[0]] = rets[0]
    okz = set(got) == set(want) and all(any(match_expr(pt, got[k]) is not None for pt in want[k]) for k in want)
    run.check(okz, 'R12', sz.where, sz.qualname, 'strize: dict -> dict of strize, scalars as they are, date -> isoformat, Decimal -> float, '
              'list / set -> list of strize, None -> None',
              'an array / object value is not rebuilt from JSON-able parts kind by kind: %s' %
              sorted((k, u(v)) for k, v in got.items() if k not in want or not any(match_expr(pt, v) is not None for pt in want[k])))
    jz = repo.func(SQL + ':jsonize', None)
    okj = False
    if jz is not None:
        jps = Enumerator(where=jz.qualname).paths(jz.node.body)
        from sa.pathvals import PathValues as _PVj
        okj = len(jps) == 1 and [u(r_) for r_ in _PVj(jps[0]).returns] == ['json.dumps(%s)' % jz.params[0]]
    run.check(okj, 'R12', jz.where if jz else ne.module.relpath, jz.qualname if jz else 'jsonize', 'jsonize(obj) = json.dumps(obj)',
              'the text stored for an array / object value in sqlite is not its JSON')
    # the schema handed to the engine declares array / object columns as text exactly for sqlite
    nsn = ctx.N(sd.methods['normalize_schema_for_engine'])
    from sa.pathvals import PathValues as _PVs

    def _type_set(e_):
        if isinstance(e_, ast.Name):
            defs_ = [st_.value for st_ in nsn.module.tree.body if isinstance(st_, ast.Assign) and pseudo(st_.targets[0]) == e_.id]
            e_ = defs_[0] if len(defs_) == 1 else e_
        if isinstance(e_, (ast.List, ast.Tuple, ast.Set)) and all(isinstance(x, ast.Constant) for x in e_.elts):
            return frozenset(x.value for x in e_.elts)
        return None
    floops = [l for l in own_nodes(nsn.node) if isinstance(l, ast.For) and "['fields']" in u(l.iter) and isinstance(l.target, ast.Name)]
    okt = len(floops) == 1
    seen_t = set()
    if okt:
        fv_ = floops[0].target.id
        for p in Enumerator(where=nsn.qualname).body_paths(floops[0]):
            sq, ao = None, None
            for t, pol in p.guards():
                for t2, pol2 in ([(v_, True) for v_ in t.values] if isinstance(t, ast.BoolOp) and isinstance(t.op, ast.And) and pol else [(t, pol)]):
                    t2, pol2 = norm_compare(t2, pol2)
                    if match_expr("_d == 'sqlite'", t2) is not None:
                        sq = pol2
                    elif match_expr("_d != 'sqlite'", t2) is not None:
                        sq = not pol2
                    b_ = match_expr("%s['type'] in __S" % fv_, t2)
                    if b_ is not None and _type_set(b_['__S']) == frozenset(['array', 'object']):
                        ao = pol2
                    b_ = match_expr("%s['type'] not in __S" % fv_, t2)
                    if b_ is not None and _type_set(b_['__S']) == frozenset(['array', 'object']):
                        ao = not pol2
                if isinstance(t, ast.BoolOp) and isinstance(t.op, ast.And) and not pol:
                    sq, ao = 'not both', 'not both'
            sets = [c for o_, c in _PVs(p).stmts if isinstance(c, ast.Assign) and isinstance(o_.targets[0], ast.Subscript)
                    and pseudo(o_.targets[0].value) == fv_ and u(o_.targets[0].slice) == "'type'"]
            both = sq is True and ao is True
            okt = okt and ((len(sets) == 1 and u(sets[0].value) == "'string'") if both else not sets)
            seen_t.add(both)
        okt = okt and seen_t == {True, False}
    # ... and in nothing else: whatever else is changed in the copy (missingValues, constraints, formats) applies to every column of the
    # table - 'null' declared a missing value turns the text 'null' of a plain string column into NULL
    copies_ = {pseudo(a_.targets[0]) for a_ in ast.walk(nsn.node) if isinstance(a_, ast.Assign) and pseudo(a_.targets[0])
               and isinstance(a_.value, ast.Call) and u(a_.value.func) == 'copy.deepcopy'}
    fvs_ = {l_.target.id for l_ in ast.walk(nsn.node) if isinstance(l_, ast.For) and isinstance(l_.target, ast.Name)}
    extra_ = []
    for x_ in ast.walk(nsn.node):
        if isinstance(x_, ast.Assign) and isinstance(x_.targets[0], ast.Subscript):
            b_ = x_.targets[0].value
            while isinstance(b_, (ast.Subscript, ast.Attribute)):
                b_ = b_.value
            if isinstance(b_, ast.Name) and (b_.id in copies_ or b_.id in fvs_) and not (u(x_.targets[0].slice) == "'type'" and b_.id in fvs_):
                extra_.append(x_)
        if isinstance(x_, ast.Call) and isinstance(x_.func, ast.Attribute) and x_.func.attr in (
                'append', 'extend', 'update', 'setdefault', 'insert', 'pop', 'remove', 'clear', 'add'):
            b_ = x_.func.value
            while isinstance(b_, (ast.Subscript, ast.Attribute, ast.Call)):
                b_ = b_.func.value if isinstance(b_, ast.Call) and isinstance(b_.func, ast.Attribute) else getattr(b_, 'value', None)
                if b_ is None:
                    break
            if isinstance(b_, ast.Name) and (b_.id in copies_ or b_.id in fvs_):
                extra_.append(x_)
    once_s = {a_.targets[0].id: a_.value for a_ in ast.walk(nsn.node) if isinstance(a_, ast.Assign) and isinstance(a_.targets[0], ast.Name)}
    for x_ in ast.walk(nsn.node):      # a local that holds a part of the copy (missing = schema.setdefault('missingValues', ..))
        if isinstance(x_, ast.Call) and isinstance(x_.func, ast.Attribute) and isinstance(x_.func.value, ast.Name) and \
                x_.func.attr in ('append', 'extend', 'update', 'insert', 'add') and x_.func.value.id in once_s:
            v_ = once_s[x_.func.value.id]
            if any(isinstance(n_, ast.Name) and (n_.id in copies_ or n_.id in fvs_) for n_ in ast.walk(v_)) and x_ not in extra_:
                extra_.append(x_)
    run.check(not extra_, 'R12', where(repo, extra_[0]) if extra_ else nsn.where, nsn.qualname,
              'the engine schema is the emitted schema with only the type of array / object fields changed',
              'the schema handed to the storage is changed in more than the column type of array / object fields (%s): such a change '
              'applies to every column of the table' % (u(extra_[0])[:80] if extra_ else ''))
    run.check(okt, 'R12', nsn.where, nsn.qualname, "sqlite: array / object columns are declared string in the engine schema",
              'the column type the table is created with does not match the JSON text the sqlite fixers produce')
    # actions only for array / object fields: path by path over the loop that collects them
    floops_ = [l for l in own_nodes(ne.node) if isinstance(l, ast.For) and "['fields']" in u(l.iter) and isinstance(l.target, ast.Name)]
    oka = len(floops_) == 1
    seen_a = set()
    if oka:
        fa = floops_[0].target.id
        for p in Enumerator(where=ne.qualname).body_paths(floops_[0]):
            if p.term == RAISE:
                continue
            ao = None
            for t, pol in p.guards():
                t, pol = norm_compare(t, pol)
                for pt, sign in (("%s['type'] in __S" % fa, True), ("%s['type'] not in __S" % fa, False)):
                    b_ = match_expr(pt, t)
                    if b_ is not None and isinstance(b_['__S'], (ast.List, ast.Tuple, ast.Set)) and \
                            sorted(getattr(x, 'value', None) for x in b_['__S'].elts) == ['array', 'object']:
                        ao = pol if sign else not pol
            exts = [c for c in path_nodes(p) if isinstance(c, ast.Call) and isinstance(c.func, ast.Attribute) and c.func.attr == 'extend'
                    and match_expr("_a.setdefault(%s['name'], []).extend(OBJECT_FIXERS[_d])" % fa, c) is not None]
            oka = oka and ((len(exts) == 1) if ao is True else not exts) and ao is not None
            seen_a.add(ao)
        oka = oka and seen_a == {True, False}
    run.check(oka, 'R12', ne.where, ne.qualname, 'fixers only for array / object fields', 'other field types are rewritten for the engine')
    from rules import independence
    independence.r28_functions(ctx, [(ne, {})])
    ns = ctx.N(sd.methods['normalize_schema_for_engine'])
    sch = ns.params[2]
    copies = find_stmt('_c = copy.deepcopy(%s)' % sch, ns.node)
    okc = len(copies) == 1
    if okc:
        cname = copies[0][1]['_c']
        first = copies[0][0]
        rets_ = [x for x in own_nodes(ns.node) if isinstance(x, ast.Return)]
        okc = len(rets_) == 1 and pseudo(rets_[0].value) == cname and ns.node.body.index(first) == \
            min(i for i, st_ in enumerate(ns.node.body) if not (isinstance(st_, ast.Expr) and isinstance(st_.value, ast.Constant)))
        # if the copy has its own name, the parameter is not touched afterwards
        if okc and cname != sch:
            okc = not any(isinstance(x, ast.Name) and x.id == sch for st_ in ns.node.body if st_ is not first for x in ast.walk(st_))
    run.check(okc, 'R12', ns.where, ns.qualname, 'engine schema is a deep copy',
              'the emitted schema itself is rewritten for the engine (downstream sees string instead of array/object)')
    run.trusted += ['tableschema-sql Storage.write(as_generator=True) yields one WrittenRow(row, updated, updated_id) per input row, in order']
    run.not_decided += ['the table contents (tableschema-sql semantics of delete / create / write with update keys)',
                        'histories of several dumps']
    return ('Guarded path signature of SQLDumper.process_resource over {mapped, rewrite & exists, exists, update}: delete / create / '
            'update-key decisions per mode; option flow into the storage writer; shape of the rows that continue downstream.', [])
