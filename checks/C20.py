"""C20 dump_to_sql leaves the table in the state its mode prescribes (DESIGN §5 C20) — structural clauses."""
import ast

from rules import observers
from sa.deps import Facts, names_in, pseudo
from sa.loader import AnalysisError, FuncInfo, own_nodes
from sa.model import norm_compare, row_loops, rowloop_signature, u, where
from sa.paths import FALL, RAISE, RETURN, Enumerator, path_nodes
from sa.pattern import find_expr, find_stmt, has_expr, has_stmt, match_expr, match_stmt

SQL = 'dataflows.processors.dumpers.to_sql'


def check(ctx):
    run, repo, res = ctx.run, ctx.repo, ctx.res
    sd = repo.cls(SQL + ':SQLDumper')
    pr = sd.methods['process_resource']
    run.rule('R23', 'MODE-SIGNATURE(sql): the existing table is deleted only when mode == rewrite and it exists; the table is created only '
                    'when it does not exist (after a possible delete); update keys are passed only in update mode, defaulting to the '
                    'primary key; resources that are not mapped to a table pass through untouched')
    en = Enumerator(where=pr.qualname, relevant=lambda n: isinstance(n, ast.Call) and isinstance(n.func, ast.Attribute)
                    and n.func.attr in ('delete', 'create', 'describe', 'write', 'get'))
    paths = en.paths(pr.node.body)
    n = 0
    for p in paths:
        nodes = list(path_nodes(p))
        g = {u(t): pol for t, pol in [norm_compare(t, pol) for t, pol in p.guards()]}
        mapped = g.get('resource_name in self.converted_resources')
        if mapped is None:
            raise AnalysisError('SQLDumper.process_resource: mapping test not found')
        dels = [c for c in nodes if isinstance(c, ast.Call) and u(c.func) == 'storage.delete']
        crs = [c for c in nodes if isinstance(c, ast.Call) and u(c.func) == 'storage.create']
        wrs = [c for c in nodes if isinstance(c, ast.Call) and u(c.func) == 'storage.write']
        rets = [it.node for it in p.items if it.kind == 'return']
        n += 1
        if not mapped:
            run.check(not dels and not crs and not wrs and len(rets) == 1 and pseudo(rets[0].value) == pr.params[1], 'R23',
                      pr.where, pr.qualname, 'unmapped resource: return resource', 'an unmapped resource touches the database or is altered')
            continue
        if p.term == RAISE:
            continue
        rewrite = g.get("mode == 'rewrite' and '' in storage.buckets")
        exists_after = g.get("'' in storage.buckets")
        update = g.get("mode == 'update'")
        run.check((len(dels) == 1) == bool(rewrite) and len(dels) <= 1, 'R23', pr.where, pr.qualname,
                  'delete iff (rewrite and exists): ' + str(rewrite), 'the table is dropped in a mode other than rewrite (append / update lose '
                  'the previous rows) or not dropped in rewrite mode')
        run.check((len(crs) == 1) == (exists_after is False), 'R23', pr.where, pr.qualname,
                  'create iff not exists: ' + str(exists_after), 'table creation does not follow the existence test')
        if dels and crs:
            run.check(nodes.index(dels[0]) < nodes.index(crs[0]), 'R23', pr.where, pr.qualname, 'delete before create', 'create precedes delete')
        # update keys
        facts = Facts(pr, include_nested=False)
        if len(wrs) == 1:
            kw = {k.arg: k.value for k in wrs[0].keywords}
            run.check(pseudo(kw.get('update_keys')) == 'update_keys' and pseudo(kw.get('buffer_size')) == 'self.batch_size'
                      and pseudo(kw.get('use_bloom_filter')) == 'self.use_bloom_filter' and
                      u(kw.get('keyed', ast.Constant(value=None))) == 'True' and u(kw.get('as_generator', ast.Constant(value=None))) == 'True',
                      'R23', where(repo, wrs[0]), pr.qualname, 'storage.write(update_keys=, buffer_size=batch_size, use_bloom_filter=, keyed, as_generator)',
                      'update keys / batch size / bloom filter option do not reach the storage writer')
            assigned = [x for x in nodes if isinstance(x, ast.Assign) and pseudo(x.targets[0]) == 'update_keys']
            nonnull = [x for x in assigned if not (isinstance(x.value, ast.Constant) and x.value.value is None)]
            run.check(bool(nonnull) == bool(update), 'R23', pr.where, pr.qualname, 'update_keys set iff mode == update: ' + str(update),
                      'rows are matched by key in a mode other than update, or update mode writes without keys')
            if update:
                none_test = g.get('update_keys is None')
                if none_test:
                    fb = [x for x in nonnull if "schema_descriptor.get('primaryKey'" in u(x.value)]
                    run.check(len(fb) == 1, 'R23', pr.where, pr.qualname, "update keys default to the primary key",
                              'without explicit update_keys the primary key is not used')
        else:
            run.fail('R23', pr.where, pr.qualname, 'storage.write on the mapped path', 'rows of a mapped resource are not written')
        # the returned stream is map(get_output_row, storage.write(...))
        ok = len(rets) == 1 and isinstance(rets[0].value, ast.Call) and u(rets[0].value.func) == 'map' and \
            u(rets[0].value.args[0]) == 'self.get_output_row' and wrs and rets[0].value.args[1] is wrs[0]
        run.check(ok, 'R23', pr.where, pr.qualname, 'return map(self.get_output_row, storage.write(...))',
                  'rows do not continue downstream from the writer')
    run.floor('R23', n, 4, 'mode paths')
    body = u(pr.node)
    run.check(has_stmt("mode = _c.get('mode', 'rewrite')", pr.node), 'R23', pr.where, pr.qualname, "default mode rewrite",
              'the default mode is not rewrite')

    run.rule('R12', 'ROW-LOOP-SHAPE(sql): rows continue downstream as the written row object with only the two optional flag columns '
                    'stored; the flags carry the storage\'s updated / updated_id answers')
    go = sd.methods['get_output_row']
    facts = Facts(go, include_nested=False)
    stores = [x for x in own_nodes(go.node) if isinstance(x, ast.Assign) and isinstance(x.targets[0], ast.Subscript)]
    okg = True
    for x in stores:
        key = pseudo(x.targets[0].slice)
        cond = x._parent
        okg = okg and isinstance(cond, ast.If) and pseudo(cond.test) == key and key in ('self.updated_column', 'self.updated_id_column')
        want = 'updated' if key == 'self.updated_column' else 'updated_id'
        okg = okg and pseudo(x.value) == want
    rets = [x for x in own_nodes(go.node) if isinstance(x, ast.Return)]
    okg = okg and len(stores) == 2 and len(rets) == 1 and pseudo(rets[0].value) == 'row' and \
        has_stmt('row, updated, updated_id = (_w.row, _w.updated, _w.updated_id)', go.node)
    run.check(okg, 'R12', go.where, go.qualname, 'row[updated_column] = updated; row[updated_id_column] = updated_id; return row',
              'the downstream row is not the written row with truthful updated flags')
    ne = sd.methods['normalize_for_engine']
    rl = row_loops(ne)
    if len(rl) != 1:
        raise AnalysisError('normalize_for_engine: row loop not found')
    loop, var, _ = rl[0]
    sigs = rowloop_signature(ne, loop, var)
    for s in sigs:
        run.check([k for k, _ in s.yields] == ['identity'] and s.term == FALL, 'R12', where(repo, loop), ne.qualname,
                  'every row is yielded once', 'normalisation drops or duplicates rows')
    stores = [x for x in ast.walk(loop) if isinstance(x, ast.Assign) and isinstance(x.targets[0], ast.Subscript)
              and pseudo(x.targets[0].value) == var]
    for x in stores:
        run.fail('R12', where(repo, x), ne.qualname, x,
                 'array / object values are converted to their database representation in place, in the very row objects that '
                 'continue downstream: with sqlite a downstream step sees \'[1, 2]\' (a JSON string) instead of [1, 2]')
    # actions only for array / object fields
    body = u(ne.node)
    run.check(len(find_stmt("if _f['type'] in ['array', 'object']:\n    ...\n    _a.setdefault(_f['name'], []).extend(OBJECT_FIXERS[_d])", ne.node)) == 1,
              'R12', ne.where, ne.qualname, 'fixers only for array / object fields', 'other field types are rewritten for the engine')
    from rules import independence
    independence.r28_functions(ctx, [(SQL + ':SQLDumper.normalize_for_engine', {})])
    ns = sd.methods['normalize_schema_for_engine']
    run.check(has_stmt('_s = copy.deepcopy(_s)', ns.node), 'R12', ns.where, ns.qualname, 'engine schema is a deep copy',
              'the emitted schema itself is rewritten for the engine (downstream sees string instead of array/object)')
    run.trusted += ['tableschema-sql Storage.write(as_generator=True) yields one WrittenRow(row, updated, updated_id) per input row, in order']
    run.not_decided += ['the table contents (tableschema-sql semantics of delete / create / write with update keys)',
                        'histories of several dumps']
    return ('Guarded path signature of SQLDumper.process_resource over {mapped, rewrite & exists, exists, update}: delete / create / '
            'update-key decisions per mode; option flow into the storage writer; shape of the rows that continue downstream.', [])
