"""R17 ISINSTANCE-ORDER and R18 ABSTRACT-TYPES (Table-Schema type lattice, abstract evaluation of aggregator lambdas)."""
import ast
import collections
import datetime
import decimal

from sa.deps import names_in, pseudo
from sa.loader import AnalysisError, FuncInfo, own_nodes
from sa.model import _const, fq, u, where

# ---------------------------------------------------------------------- R17

PYCLASSES = {
    'str': str, 'bool': bool, 'int': int, 'float': float, 'list': list, 'dict': dict, 'tuple': tuple, 'set': set,
    'bytes': bytes, 'object': object, 'frozenset': frozenset,
    'datetime.datetime': datetime.datetime, 'datetime.date': datetime.date, 'datetime.time': datetime.time,
    'datetime.timedelta': datetime.timedelta, 'decimal.Decimal': decimal.Decimal,
    'collections.Counter': collections.Counter, 'collections.OrderedDict': collections.OrderedDict,
}


def _classes_of(ctx, expr):
    """class objects named by an isinstance second argument (Name / Attribute / Tuple); unknown ones -> None entries"""
    out = []
    elts = expr.elts if isinstance(expr, ast.Tuple) else [expr]
    for e in elts:
        t = u(e)
        out.append((t, PYCLASSES.get(t)))
    return out


def isinstance_chains(func_node):
    """if/elif chains whose tests are `isinstance(<same expr>, X)`: list of [(test call, subject text)]"""
    chains = []
    seen = set()
    for n in ast.walk(func_node):
        if isinstance(n, ast.If) and id(n) not in seen:
            chain = []
            cur = n
            while True:
                t = cur.test
                if isinstance(t, ast.Call) and isinstance(t.func, ast.Name) and t.func.id == 'isinstance' and len(t.args) == 2:
                    chain.append(t)
                else:
                    chain.append(None)
                seen.add(id(cur))
                if len(cur.orelse) == 1 and isinstance(cur.orelse[0], ast.If):
                    cur = cur.orelse[0]
                else:
                    break
            tests = [c for c in chain if c is not None]
            if len(tests) >= 2:
                chains.append(tests)
    return chains


def table_dispatch(ctx, fi):
    """`for classes, payload in TABLE: if isinstance(x, classes): ...; break` over a literal tuple / list of pairs that is a class
    attribute (self.TABLE / Cls.TABLE) or a module constant: -> [(subject text, [(classes expr, payload expr), ...] in table
    order, loop node)].  First match wins, like an if/elif chain written in that order."""
    out = []
    if isinstance(fi.node, ast.Lambda):
        return out
    for lp in ast.walk(fi.node):
        if not (isinstance(lp, ast.For) and isinstance(lp.target, ast.Tuple) and len(lp.target.elts) == 2
                and all(isinstance(t, ast.Name) for t in lp.target.elts)):
            continue
        table = None
        it = lp.iter
        if isinstance(it, ast.Attribute) and isinstance(it.value, ast.Name) and fi.cls is not None:
            k, v = ctx.res.lookup_class_attr(fi.cls, it.attr)
            table = v
        elif isinstance(it, ast.Name):
            for st in fi.module.tree.body:
                if isinstance(st, ast.Assign) and pseudo(st.targets[0]) == it.id:
                    table = st.value
        if not (isinstance(table, (ast.Tuple, ast.List)) and table.elts and
                all(isinstance(e, (ast.Tuple, ast.List)) and len(e.elts) == 2 for e in table.elts)):
            continue
        cvar, pvar = lp.target.elts[0].id, lp.target.elts[1].id
        tests = [n for n in lp.body if isinstance(n, ast.If) and isinstance(n.test, ast.Call) and u(n.test.func) == 'isinstance'
                 and len(n.test.args) == 2 and pseudo(n.test.args[1]) == cvar]
        if len(tests) != 1 or len(lp.body) != 1:
            continue
        stops = any(isinstance(x, (ast.Break, ast.Return)) for x in tests[0].body)
        if not stops:
            continue
        out.append((u(tests[0].test.args[0]), [(e.elts[0], e.elts[1]) for e in table.elts], lp, tests[0], pvar))
    return out


def r17_isinstance_order(ctx, funcs, rule='R17', floor=1):
    run = ctx.run
    run.rule(rule, 'ISINSTANCE-ORDER: in an if/elif chain of isinstance tests on one subject no earlier class is a proper '
                   'superclass of a later one (bool before int, datetime before date), otherwise the later branch is dead and '
                   'the value is classified as the wrong type')
    n = 0
    from sa.model import norm_guard
    from sa.paths import Enumerator
    for fi in funcs:
        # path form of the rule: on a path where isinstance(x, A) was answered False, a later isinstance(x, B) answered True
        # with B a proper subclass of A is infeasible - that branch is dead (covers elif chains and `if ...: return` sequences)
        per_subject = {}
        bad = {}
        if isinstance(fi.node, ast.Lambda):
            continue
        en_ = Enumerator(where=fi.qualname)
        all_paths = list(en_.paths(fi.node.body))
        for lp_ in ast.walk(fi.node):
            if isinstance(lp_, (ast.For, ast.While)):
                all_paths += list(en_.body_paths(lp_))
        for p in all_paths:
            neg = []
            for t, pol in p.guards():
                t, pol = norm_guard(t, pol)
                if not (isinstance(t, ast.Call) and isinstance(t.func, ast.Name) and t.func.id == 'isinstance' and len(t.args) == 2):
                    continue
                subj = u(t.args[0])
                lst = per_subject.setdefault(subj, [])
                if not any(x is t for x in lst):
                    lst.append(t)
                if pol:
                    for a in neg:
                        if u(a.args[0]) != subj:
                            continue
                        for an, ac in _classes_of(ctx, a.args[1]):
                            for bn, bc in _classes_of(ctx, t.args[1]):
                                if ac is not None and bc is not None and ac is not bc and issubclass(bc, ac):
                                    bad.setdefault(subj, (an, bn, t))
                else:
                    neg.append(t)
        for subj, tests in per_subject.items():
            if len(tests) < 2:
                continue
            n += 1
            tests = sorted(tests, key=lambda t: (t.lineno, t.col_offset))
            b = bad.get(subj)
            run.check(b is None, rule, where(ctx.repo, tests[0]), fi.qualname,
                      'isinstance chain on %s: %s' % (subj, ' / '.join(u(t.args[1]) for t in tests)),
                      'isinstance(%s, %s) is tested before the more specific %s: the later branch can never be taken'
                      % ((subj,) + b[:2] if b else ('', '', '')))
        # table-driven form of the same classification
        for subj, pairs, lp, _t, _pv in table_dispatch(ctx, fi):
            n += 1
            b = None
            for i, (ca, _) in enumerate(pairs):
                for cb, _ in pairs[i + 1:]:
                    for an, ac in _classes_of(ctx, ca):
                        for bn, bc in _classes_of(ctx, cb):
                            if ac is not None and bc is not None and ac is not bc and issubclass(bc, ac):
                                b = b or (an, bn)
            run.check(b is None, rule, where(ctx.repo, lp), fi.qualname,
                      'isinstance table on %s: %s' % (subj, ' / '.join(u(c) for c, _ in pairs)),
                      'isinstance(%s, %s) is tested before the more specific %s: the later entry can never be taken'
                      % ((subj,) + b if b else ('', '', '')))
    run.floor(rule, n, floor, 'isinstance chains')
    return n


# ---------------------------------------------------------------------- R18: abstract values

# abstract values: frozenset of atoms; atoms:
#   ('s', t)   scalar of Table-Schema type t (integer number string boolean date time datetime any)
#   ('none',)
#   ('tuple', (v1, v2, ...))   each vi an abstract value
#   ('list', elem) ('set', elem)  elem an abstract value
#   ('counter',)
#   ('err',)   expression that raises for this input (ignored by the type verdict)

def S(t):
    return frozenset([('s', t)])


NONE = frozenset([('none',)])
ERR = frozenset([('err',)])
INT = S('integer')
TOP = S('any')


def join(a, b):
    return frozenset(a | b)


def ts_type(v):
    """Table-Schema type(s) an abstract value would need as a field: set of type names."""
    out = set()
    for a in v:
        if a[0] == 's':
            out.add(a[1])
        elif a[0] == 'none':
            pass
        elif a[0] in ('list', 'set', 'tuple', 'counter'):
            out.add('array')
        elif a[0] == 'err':
            pass
    return out


def leq(t, declared):
    if declared == 'any' or t == declared:
        return True
    if t == 'integer' and declared == 'number':
        return True
    return False


NUMERIC = {'integer', 'number'}


def arith(op, a, b):
    out = set()
    for x in a:
        for y in b:
            if x[0] == 'err' or y[0] == 'err':
                out.add(('err',))
            elif x[0] == 's' and y[0] == 's':
                tx, ty = x[1], y[1]
                if isinstance(op, ast.Div):
                    if tx in NUMERIC and ty in NUMERIC:
                        out.add(('s', 'number'))
                    elif tx == 'any' or ty == 'any':
                        out.add(('s', 'any'))
                    else:
                        out.add(('err',))
                elif isinstance(op, (ast.Add, ast.Sub, ast.Mult, ast.FloorDiv, ast.Mod)):
                    if tx in NUMERIC and ty in NUMERIC:
                        out.add(('s', 'number' if 'number' in (tx, ty) else 'integer'))
                    elif tx == ty == 'string' and isinstance(op, ast.Add):
                        out.add(('s', 'string'))
                    elif tx == 'any' or ty == 'any':
                        out.add(('s', 'any'))
                    elif tx == ty and isinstance(op, ast.Add) and tx in ('array',):
                        out.add(('s', tx))
                    else:
                        out.add(('err',))
                else:
                    out.add(('s', 'any'))
            elif x[0] == 'list' and y[0] == 'list' and isinstance(op, ast.Add):
                out.add(('list', join(x[1], y[1])))
            elif x[0] == 'none' or y[0] == 'none':
                out.add(('err',))
            else:
                out.add(('err',))
    return frozenset(out)


class AbsEval:
    """Abstract evaluator for the small expression language of the aggregator tables."""

    def __init__(self, ctx, module):
        self.ctx = ctx
        self.module = module
        self.depth = 0

    def call_func(self, fnode, args):
        """fnode: Lambda / FunctionDef; args: list of abstract values"""
        self.depth += 1
        if self.depth > 12:
            self.depth -= 1
            return TOP
        try:
            params = [a.arg for a in fnode.args.args]
            env = dict(zip(params, args))
            if isinstance(fnode, ast.Lambda):
                return self.ev(fnode.body, env)
            return self.block(fnode.body, env)
        finally:
            self.depth -= 1

    def block(self, stmts, env):
        """-> join of returned values (flow through if/else; assignments update env)."""
        ret = frozenset()
        envs = [env]
        for st in stmts:
            nxt = []
            for e in envs:
                r, outs = self.stmt(st, e)
                ret = join(ret, r)
                nxt.extend(outs)
            envs = nxt
            if not envs:
                break
        if envs:
            ret = join(ret, NONE) if not ret else ret
        return ret

    def stmt(self, st, env):
        if isinstance(st, ast.Return):
            return (self.ev(st.value, env) if st.value is not None else NONE), []
        if isinstance(st, ast.Assign) and len(st.targets) == 1 and isinstance(st.targets[0], ast.Name):
            e = dict(env)
            e[st.targets[0].id] = self.ev(st.value, env)
            return frozenset(), [e]
        if isinstance(st, ast.If):
            outs = []
            ret = frozenset()
            for branch, pol in ((st.body, True), (st.orelse, False)):
                e = self.refine(st.test, pol, env)
                if e is None:
                    continue
                cur = [e]
                for s2 in branch:
                    nxt = []
                    for ee in cur:
                        r, o = self.stmt(s2, ee)
                        ret = join(ret, r)
                        nxt.extend(o)
                    cur = nxt
                outs.extend(cur)
            return ret, outs
        if isinstance(st, ast.Expr):
            # mutation through method call: curr.update(new) keeps the abstract value
            return frozenset(), [env]
        return frozenset(), [env]

    def refine(self, test, pol, env):
        """Refine env by `x is None` / `x is not None` / isinstance(x, C); None if branch infeasible."""
        if isinstance(test, ast.UnaryOp) and isinstance(test.op, ast.Not):
            return self.refine(test.operand, not pol, env)
        if isinstance(test, ast.Compare) and len(test.ops) == 1 and isinstance(test.ops[0], (ast.Is, ast.IsNot)) \
                and isinstance(test.left, ast.Name) and isinstance(test.comparators[0], ast.Constant) \
                and test.comparators[0].value is None:
            want_none = pol if isinstance(test.ops[0], ast.Is) else not pol
            v = env.get(test.left.id)
            if v is None:
                return env
            sel = frozenset(a for a in v if (a[0] == 'none') == want_none)
            if not sel:
                return None
            e = dict(env)
            e[test.left.id] = sel
            return e
        if isinstance(test, ast.Call) and isinstance(test.func, ast.Name) and test.func.id == 'isinstance' \
                and isinstance(test.args[0], ast.Name):
            v = env.get(test.args[0].id)
            cls = u(test.args[1])
            if v is not None:
                def is_cls(a):
                    if cls == 'str':
                        return a == ('s', 'string') or a == ('s', 'any')
                    if cls == 'collections.Counter':
                        return a[0] == 'counter'
                    return None
                sel = frozenset(a for a in v if (is_cls(a) in ((True, None) if pol else (False, None))) or
                                (a == ('s', 'any')))
                if not sel:
                    return None
                e = dict(env)
                e[test.args[0].id] = sel
                return e
        return env

    def ev(self, e, env):
        if isinstance(e, ast.Constant):
            v = e.value
            if v is None:
                return NONE
            if isinstance(v, bool):
                return S('boolean')
            if isinstance(v, int):
                return INT
            if isinstance(v, float):
                return S('number')
            if isinstance(v, str):
                return S('string')
            return TOP
        if isinstance(e, ast.Name):
            if e.id in env:
                return env[e.id]
            return TOP
        if isinstance(e, ast.IfExp):
            out = frozenset()
            for branch, pol in ((e.body, True), (e.orelse, False)):
                en = self.refine(e.test, pol, env)
                if en is not None:
                    out = join(out, self.ev(branch, en))
            return out
        if isinstance(e, ast.BinOp):
            return arith(e.op, self.ev(e.left, env), self.ev(e.right, env))
        if isinstance(e, ast.Tuple):
            return frozenset([('tuple', tuple(self.ev(x, env) for x in e.elts))])
        if isinstance(e, ast.List):
            el = frozenset()
            for x in e.elts:
                el = join(el, self.ev(x, env))
            return frozenset([('list', el)])
        if isinstance(e, ast.Set):
            el = frozenset()
            for x in e.elts:
                el = join(el, self.ev(x, env))
            return frozenset([('set', el)])
        if isinstance(e, ast.Subscript):
            base = self.ev(e.value, env)
            out = set()
            for a in base:
                if a[0] == 'tuple' and isinstance(e.slice, ast.Constant) and isinstance(e.slice.value, int) \
                        and -len(a[1]) <= e.slice.value < len(a[1]):
                    out |= a[1][e.slice.value]
                elif a[0] in ('list', 'set'):
                    out |= a[1]
                elif a[0] == 'tuple':
                    for x in a[1]:
                        out |= x
                elif a[0] == 'none':
                    out.add(('err',))
                else:
                    out.add(('s', 'any'))
            return frozenset(out)
        if isinstance(e, ast.Call):
            return self.call(e, env)
        if isinstance(e, ast.JoinedStr):
            return S('string')
        if isinstance(e, (ast.ListComp, ast.GeneratorExp)):
            return frozenset([('list', TOP if not isinstance(e.elt, ast.Call) else self._comp_elt(e, env))])
        return TOP

    def _comp_elt(self, e, env):
        c = e.elt
        if isinstance(c.func, ast.Name) and c.func.id == 'str':
            return S('string')
        return TOP

    def call(self, c, env):
        f = c.func
        args = [self.ev(a, env) for a in c.args]
        name = u(f)
        if name in ('max', 'min'):
            if len(args) == 1:
                return self._elems(args[0])
            out = frozenset()
            for a in args:
                out = join(out, a)
            return out
        if name == 'sum':
            el = self._elems(args[0])
            return frozenset(a for a in el if a[0] != 'none') or INT
        if name == 'len' or name == 'int':
            return INT
        if name == 'float':
            return S('number')
        if name == 'str':
            return S('string')
        if name == 'sorted':
            return frozenset([('list', self._elems(args[0]))])
        if name == 'list':
            if not args:
                return frozenset([('list', frozenset())])
            return frozenset([('list', self._elems(args[0]))])
        if name == 'set':
            return frozenset([('set', self._elems(args[0]) if args else frozenset())])
        if name in ('collections.Counter',):
            return frozenset([('counter',)])
        # operator.mul / operator.add ... as the binary function of a reduce: the same as the two-argument lambda
        _OPS = {'operator.mul': '*', 'operator.add': '+', 'operator.sub': '-', 'operator.truediv': '/'}
        if name == 'functools.reduce' and len(c.args) >= 2 and u(c.args[0]) in _OPS:
            lam = ast.parse('lambda _x, _y: _x %s _y' % _OPS[u(c.args[0])], mode='eval').body
            c = ast.copy_location(ast.Call(func=c.func, args=[lam] + list(c.args[1:]), keywords=c.keywords), c)
        if name == 'functools.reduce' and len(c.args) >= 2 and isinstance(c.args[0], ast.Lambda):
            el = self._elems(args[1])
            acc = el
            for _ in range(3):
                acc = join(acc, self.call_func(c.args[0], [acc, el]))
            return acc
        if isinstance(f, ast.Attribute):
            recv = self.ev(f.value, env)
            if f.attr == 'union':
                out = set()
                for a in recv:
                    if a[0] == 'set':
                        el = a[1]
                        for x in args:
                            el = join(el, self._elems(x))
                        out.add(('set', el))
                    elif a[0] == 'none':
                        out.add(('err',))
                return frozenset(out)
            if f.attr == 'most_common':
                return frozenset([('list', frozenset([('tuple', (TOP, INT))]))])
            if f.attr in ('join', 'format', 'strip', 'lower', 'upper'):
                return S('string')
            return TOP
        # repository function (identity, median, update_counter ...)
        tg = [t for t in self.ctx.res._resolve_callee(f, self.module, None) if isinstance(t, FuncInfo)] \
            if isinstance(f, ast.Name) and getattr(f, '_parent', None) is not None else []
        if not tg and isinstance(f, ast.Name):
            r = self.ctx.res.lookup_symbol(self.module.name, f.id)
            if isinstance(r, FuncInfo):
                tg = [r]
        if tg:
            out = frozenset()
            for t in tg:
                out = join(out, self.call_func(t.node, args))
            return out
        return TOP

    def _elems(self, v):
        out = set()
        for a in v:
            if a[0] in ('list', 'set'):
                out |= a[1]
            elif a[0] == 'tuple':
                for x in a[1]:
                    out |= x
            elif a[0] == 'counter':
                out.add(('s', 'any'))
            elif a[0] == 'none':
                pass
            else:
                out.add(('s', 'any'))
        return frozenset(out)


def table_entries(ctx, module, table_name):
    """Entries of a module-level dict literal NAME = {'k': Ctor(...), ...} -> {key: Call node}"""
    m = ctx.repo.module(module)
    d = m.defs.get(table_name)
    if not d:
        raise AnalysisError('%s.%s not found' % (module, table_name))
    val = d[-1][1] if isinstance(d[-1], tuple) else None
    if not isinstance(val, ast.Dict):
        raise AnalysisError('%s.%s is not a dict literal' % (module, table_name))
    out = {}
    for k, v in zip(val.keys, val.values):
        if isinstance(k, ast.Constant):
            out[k.value] = v
    return m, out


def resolve_fn(ctx, m, expr):
    """Lambda node or FunctionDef node for a table component."""
    if isinstance(expr, ast.Lambda):
        return expr
    if isinstance(expr, ast.Name):
        r = ctx.res.lookup_symbol(m.name, expr.id)
        if isinstance(r, FuncInfo):
            return r.node
    return None


JOIN_DOC_AGGREGATES = ['sum', 'avg', 'median', 'max', 'min', 'first', 'last', 'count', 'any', 'set', 'array', 'counters']
SOURCE_TYPES = ['integer', 'number', 'string', 'date']


def r18_join_aggregators(ctx, rule='R18'):
    run = ctx.run
    run.rule(rule, 'ABSTRACT-TYPES(join): for each aggregator the abstractly computed Table-Schema type of finaliser(fold(func)) '
                   'over source values of type T is <= the declared dataType, or <= T when dataType is None (the target field '
                   'then copies the source field type)')
    m, table = table_entries(ctx, 'dataflows.processors.join', 'AGGREGATORS')
    missing = [a for a in JOIN_DOC_AGGREGATES if a not in table]
    run.check(not missing, rule, m.relpath, 'dataflows.processors.join:<module>', 'AGGREGATORS keys',
              'documented aggregators missing from the table: %s' % missing)
    for name, call in sorted(table.items()):
        if not (isinstance(call, ast.Call) and len(call.args) == 4):
            run.fail(rule, where(ctx.repo, call), 'dataflows.processors.join:<module>', 'AGGREGATORS[%r]' % name,
                     'aggregator entry does not have the four components (func, finaliser, dataType, copyProperties)')
            continue
        func, fin = resolve_fn(ctx, m, call.args[0]), resolve_fn(ctx, m, call.args[1])
        declared = _const(call.args[2])
        if func is None or fin is None:
            raise AnalysisError('join.AGGREGATORS[%r]: cannot resolve func / finaliser' % name)
        ae = AbsEval(ctx, m)
        for T in SOURCE_TYPES:
            new = S(T) if name != 'count' else S('string')
            curr = NONE
            for _ in range(4):
                nxt = join(curr, ae.call_func(func, [curr, new]))
                if nxt == curr:
                    break
                curr = nxt
            acc = frozenset(a for a in curr if a[0] not in ('none', 'err'))
            if not acc:
                continue
            result = ae.call_func(fin, [acc])
            types = ts_type(result)
            decl = declared if declared is not None else T
            bad = sorted(t for t in types if not leq(t, decl))
            run.check(not bad, rule, where(ctx.repo, call), 'dataflows.processors.join:<module>',
                      'AGGREGATORS[%r] over %s -> %s, declared %s' % (name, T, '|'.join(sorted(types)) or '-', decl),
                      'join aggregate %r over a %s column can produce %s value(s) while the target field is declared %s: '
                      'the emitted row is not valid for the emitted schema' % (name, T, '/'.join(bad), decl),
                      detail=sorted(types))
    return table


def r18_target_field(ctx, rule='R18t'):
    """join: what the package phase declares for an aggregate: type = the aggregator's dataType, or the source field's type when that
    is None (the premise of R18); the source field's other properties (format, constraints) are carried over exactly for the
    aggregators that say copyProperties - a `first` over dates in a custom format is only valid with that format."""
    from sa.paths import Enumerator, RAISE, path_nodes
    from sa.pathvals import PathValues
    from sa.pattern import match_expr
    run = ctx.run
    run.rule(rule, 'TARGET-FIELD(join): the field declared for an aggregate is {name: <target name>, type: dataType or the type of the '
                   'source field} on top of a deep copy of the source field exactly when the aggregator copies properties, of nothing otherwise')
    cands = [f for f in ctx.repo.functions.values() if f.module.name == 'dataflows.processors.join'
             and not isinstance(f.node, ast.Lambda) and any(isinstance(n, ast.Attribute) and n.attr == 'dataType' for n in own_nodes(f.node))]
    if len(cands) != 1:
        raise AnalysisError('join: the function that declares the target fields (reads AGGREGATORS[..].dataType) was not found')
    f = ctx.N(cands[0])
    loops = [l for l in own_nodes(f.node) if isinstance(l, ast.For) and any(isinstance(n, ast.Attribute) and n.attr == 'dataType'
                                                                           for n in ast.walk(l))]
    if len(loops) != 1:
        raise AnalysisError('%s: loop over the field specs not found' % f.qualname)
    n = 0
    kinds = set()
    for p in Enumerator(where=f.qualname).body_paths(loops[0]):
        if p.term == RAISE:
            continue
        nodes = list(path_nodes(p, into_loops=True))
        apps = [c for c in nodes if isinstance(c, ast.Call) and isinstance(c.func, ast.Attribute) and c.func.attr == 'append'
                and len(c.args) == 1 and isinstance(c.args[0], ast.Name)]
        if not apps:
            continue        # an existing target field is reused (R18r decides when that is allowed)
        pv = PathValues(p)
        g = {}
        from sa.model import norm_compare, norm_guard
        for t, pol in pv.guards:
            t, pol = norm_guard(t, pol)
            t, pol = norm_compare(t, pol)
            tx = u(t)
            if tx.endswith('.dataType is None'):
                g['typed_by_source'] = pol
            elif tx.endswith('.dataType is not None'):
                g['typed_by_source'] = not pol
            elif tx.endswith('.copyProperties'):
                g['copies'] = pol
        name = apps[0].args[0].id
        base = pv.value(name)
        # what is stored on top of the base: x.update({...}) / x.update(dict(...)) / x.update(k=...) / x['k'] = v
        d = {}
        for o_, c in pv.stmts:
            if isinstance(c, ast.Expr) and isinstance(c.value, ast.Call) and isinstance(c.value.func, ast.Attribute) and \
                    c.value.func.attr == 'update' and isinstance(o_.value.func.value, ast.Name) and o_.value.func.value.id == name:
                for a_ in c.value.args:
                    if isinstance(a_, ast.Dict):
                        d.update({k.value: v for k, v in zip(a_.keys, a_.values) if isinstance(k, ast.Constant)})
                    elif isinstance(a_, ast.Call) and u(a_.func) == 'dict':
                        d.update({k.arg: k.value for k in a_.keywords if k.arg})
                d.update({k.arg: k.value for k in c.value.keywords if k.arg})
            elif isinstance(c, ast.Assign) and isinstance(o_.targets[0], ast.Subscript) and isinstance(o_.targets[0].value, ast.Name) and \
                    o_.targets[0].value.id == name and isinstance(o_.targets[0].slice, ast.Constant):
                d[o_.targets[0].slice.value] = c.value
        n += 1
        ok = len(apps) == 1 and base is not None
        if ok:
            ok = set(d) == {'name', 'type'} and isinstance(d['name'], ast.Name)
            ty = u(d['type']) if ok else ''
            if g.get('typed_by_source'):
                ok = ok and ty.endswith("['type']") and 'source' in ty
                if g.get('copies'):
                    ok = ok and match_expr('copy.deepcopy(__F)', base) is not None and 'source' in u(base)
                    kinds.add('copied')
                else:
                    ok = ok and isinstance(base, ast.Dict) and not base.keys
                    kinds.add('typed by source')
            else:
                ok = ok and ty.endswith('.dataType') and isinstance(base, ast.Dict) and not base.keys
                kinds.add('typed by aggregator')
        run.check(ok, rule, where(ctx.repo, loops[0]), f.qualname,
                  'append({**(copy of the source field if copyProperties), name: target name, type: dataType or source type})',
                  'the field declared for an aggregate does not take its type from the aggregator (or from the source field when the '
                  'aggregator has none) or does not carry the source field\'s properties exactly when the aggregator copies them',
                  path=p.describe())
    run.floor(rule, n, 3, 'paths that declare a new target field')
    run.check(kinds == {'copied', 'typed by source', 'typed by aggregator'}, rule, f.where, f.qualname,
              'three ways to declare a target field: ' + ', '.join(sorted(kinds)),
              'one of the three cases (typed by the aggregator; typed by the source field; source field copied) is no longer distinguished')


ACF_OPS = ['sum', 'avg', 'max', 'min', 'multiply', 'constant', 'join', 'format']


def r18_computed_field(ctx, rule='R18c'):
    """add_computed_field: get_type(fields, source, op) vs the abstract result type of AGGREGATORS[op].func"""
    run = ctx.run
    run.rule(rule, 'ABSTRACT-TYPES(add_computed_field): for every string operation and source type the type get_type() declares '
                   'is >= the abstractly computed type of the operation\'s lambda')
    from sa.consteval import fold_function
    m, table = table_entries(ctx, 'dataflows.processors.add_computed_field', 'AGGREGATORS')
    missing = [a for a in ACF_OPS if a not in table]
    run.check(not missing, rule, m.relpath, m.name + ':<module>', 'AGGREGATORS keys',
              'documented operations missing: %s' % missing)
    gt = ctx.repo.func('dataflows.processors.add_computed_field:get_type')
    # module-level literals the function may name (_ANY = 'any', _STRING_OPERATIONS = (...))
    from sa.consteval import ev as _cev
    consts_ = {}
    for st_ in m.tree.body:
        if isinstance(st_, ast.Assign) and len(st_.targets) == 1 and isinstance(st_.targets[0], ast.Name):
            try:
                consts_[st_.targets[0].id] = _cev(st_.value, {'__consts__': consts_})
            except Exception:
                pass
    for op in ACF_OPS:
        if op not in table:
            continue
        call = table[op]
        fn = resolve_fn(ctx, m, call.args[0]) if isinstance(call, ast.Call) and call.args else None
        if fn is None:
            raise AnalysisError('add_computed_field.AGGREGATORS[%r]: lambda not found' % op)
        for T in ('integer', 'number'):
            if op in ('constant',):
                continue
            res_fields = [dict(name='a', type=T), dict(name='b', type=T)]
            declared = fold_function(gt.node, dict(zip(gt.params, [res_fields, ['a', 'b'], op]), __consts__=consts_))
            if declared is fold_function.UNKNOWN:
                raise AnalysisError('get_type could not be partially evaluated for (%s, %s)' % (op, T))
            ae = AbsEval(ctx, m)
            values = frozenset([('list', S(T))])
            result = ae.call_func(fn, [values, S('string'), TOP])
            types = ts_type(result)
            bad = sorted(t for t in types if not leq(t, declared))
            run.check(not bad, rule, where(ctx.repo, call), m.name + ':<module>',
                      'operation %r over %s -> %s, get_type declares %s' % (op, T, '|'.join(sorted(types)), declared),
                      'add_computed_field %r over %s fields computes %s but the new field is declared %s'
                      % (op, T, '/'.join(bad), declared))
        # a source of type 'any' can hold anything: so can the result, whatever the operation
        if op not in ('constant',):
            declared = fold_function(gt.node, dict(zip(gt.params, [[dict(name='a', type='any'), dict(name='b', type='integer')], ['a', 'b'], op]), __consts__=consts_))
            run.check(declared == 'any', rule, gt.where, gt.qualname, 'operation %r over an any-typed source -> %s' % (op, declared),
                      'a field computed from an any-typed source is declared %s: values of any kind then fail validation' % declared)
        # constant without sources -> any
        if op == 'constant':
            declared = fold_function(gt.node, dict(zip(gt.params, [[], [], op]), __consts__=consts_))
            run.check(declared == 'any', rule, gt.where, gt.qualname, 'constant without source -> ' + str(declared),
                      'a constant computed field must be declared "any" (its value is whatever the user passes)')


TS_TYPES = ['integer', 'number', 'string', 'boolean', 'date', 'datetime', 'time', 'array', 'object', 'any']


def r18_reuse_guard(ctx, rule='R18r'):
    """join: when an aggregate lands on a field the target already declares, the existing declaration is kept; the guard that
    admits this must reject every pair (existing type, aggregate type) in which the aggregate type is not <= the existing one."""
    from sa.consteval import UNKNOWN, ev
    run = ctx.run
    run.rule(rule, 'REUSE-GUARD(join): reusing an existing target field for an aggregate is admitted only when the aggregate\'s type is '
                   '<= the type the field already declares (evaluated by partially evaluating the guard over all type pairs)')
    cands_ = [f_ for f_ in ctx.repo.functions.values() if f_.module.name == 'dataflows.processors.join'
              and not isinstance(f_.node, ast.Lambda) and any(isinstance(n, ast.Attribute) and n.attr == 'dataType' for n in own_nodes(f_.node))]
    if len(cands_) != 1:
        raise AnalysisError('join: the function that declares the target fields (reads AGGREGATORS[..].dataType) was not found')
    f = cands_[0]
    m = f.module
    guards = [n for n in ast.walk(f.node) if isinstance(n, ast.Assert) and 'existing_field' in u(n.test) and 'data_type' in u(n.test)]
    if not guards:
        # an if ... raise form
        guards = [n for n in ast.walk(f.node) if isinstance(n, ast.If) and 'existing_field' in u(n.test) and 'data_type' in u(n.test)
                  and any(isinstance(x, ast.Raise) for x in n.body)]
    if len(guards) != 1:
        run.fail(rule, f.where, f.qualname, 'guard on (existing type, aggregate type)',
                 'an existing target field is reused for an aggregate without comparing their types')
        return
    g = guards[0]
    test = g.test
    negate = isinstance(g, ast.If)      # `if <bad>: raise`
    funcs = {}
    consts = {}
    for nm, d in m.defs.items():
        last = d[-1]
        if isinstance(last, ast.FunctionDef):
            funcs[nm] = last
        elif isinstance(last, tuple):
            try:
                consts[nm] = ev(last[1], {})
            except Exception:
                pass
    bad = []
    unknown = 0
    for e in TS_TYPES:
        for d_ in TS_TYPES:
            env = dict(consts)
            env.update({'existing_field': {'type': e, 'name': 'x'}, 'data_type': d_, 'name': 'x', '__funcs__': funcs, '__consts__': consts})
            try:
                ok = bool(ev(test, env))
            except Exception:
                unknown += 1
                continue
            admitted = (not ok) if negate else ok
            if admitted and not leq(d_, e):
                bad.append((e, d_))
    if unknown:
        raise AnalysisError('join reuse guard %s could not be evaluated for %d type pairs' % (u(test), unknown))
    run.check(not bad, rule, where(ctx.repo, g), f.qualname, 'guard ' + u(test),
              'the guard admits reusing a field declared %s for an aggregate of type %s (and %d more pairs): the rows then carry '
              'values the emitted schema rejects' % (bad[0] + (len(bad) - 1,) if bad else ('', '', 0)))
