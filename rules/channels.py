"""Channel model of a thread / process pipeline built from the source (used by C18).

From a root function the model follows `threading.Thread(target=f, args=(...))` and `multiprocessing.Process(target=f, args=(...))`
spawn sites (and plain calls of module-local helpers that were not inlined) and binds every parameter of a spawned function to
what the root passed: a queue *object* (identified by its creation site `x = mp.Queue()` / `queue.Queue()`), or the root-level
expression for scalars (so `num_processors` in the producer and `num_processors` in the collector are the same thing only if the
root passed the same value).  Each function then yields a list of channel operations

    Op(actor, chan, 'put'|'get', 'marker'|'data', node)

with queues compared by identity, never by parameter name or position.
"""
import ast

from sa.deps import pseudo
from sa.loader import AnalysisError, FuncInfo
from sa.model import u

QUEUE_CTORS = {'multiprocessing.Queue': 'mp', 'multiprocessing.JoinableQueue': 'mp', 'multiprocessing.SimpleQueue': 'mp',
               'queue.Queue': 'thread', 'queue.SimpleQueue': 'thread', 'queue.LifoQueue': 'thread-lifo'}
SPAWNERS = {'threading.Thread': 'thread', 'multiprocessing.Process': 'process'}


class Chan:
    def __init__(self, kind, node, name):
        self.kind, self.node, self.name = kind, node, name

    def __repr__(self):
        return '<%s queue %s>' % (self.kind, self.name)


class Op:
    def __init__(self, actor, chan, op, what, node):
        self.actor, self.chan, self.op, self.what, self.node = actor, chan, op, what, node

    def __repr__(self):
        return '%s:%s.%s(%s)' % (self.actor.fi.name, self.chan.name, self.op, self.what)


class Actor:
    def __init__(self, fi, kind, env, count=None, handle=None):
        self.fi, self.kind, self.env, self.count, self.handle = fi, kind, env, count, handle
        self.ops = []

    def chan_of(self, expr):
        cs = self.chans_of(expr)
        return cs[0] if len(cs) == 1 else None

    def chans_of(self, expr):
        """The queue(s) a receiver expression may denote: a bound parameter / creation, or a local that is assigned one of
        several queues (`target = q_in if selected else q_bypass`)."""
        nm = pseudo(expr)
        v = self.env.get(nm) if nm else None
        if isinstance(v, Chan):
            return [v]
        out = []
        if nm and v is None:
            for a in ast.walk(self.fi.node):
                if isinstance(a, ast.Assign) and len(a.targets) == 1 and pseudo(a.targets[0]) == nm:
                    srcs = [a.value.body, a.value.orelse] if isinstance(a.value, ast.IfExp) else [a.value]
                    for s_ in srcs:
                        c = self.env.get(pseudo(s_) or '')
                        if isinstance(c, Chan):
                            if c not in out:
                                out.append(c)
                        else:
                            return []
        return out

    def resolve(self, expr):
        """root-level text of a scalar expression (parameter names replaced by what the root passed)"""
        nm = pseudo(expr)
        if nm and nm in self.env:
            v = self.env[nm]
            return repr(v) if isinstance(v, Chan) else u(v)
        return u(expr)

    def __repr__(self):
        return '<%s %s>' % (self.kind, self.fi.qualname)


class Model:
    def __init__(self):
        self.actors = []
        self.chans = []

    def ops(self, chan=None, op=None, what=None, actor=None):
        out = []
        for a in self.actors:
            if actor is not None and a is not actor:
                continue
            for o in a.ops:
                if (chan is None or o.chan is chan) and (op is None or o.op == op) and (what is None or o.what == what):
                    out.append(o)
        return out


def _enclosing_count(node, stop):
    """`range(N)` of the comprehension / for loop a spawn site is repeated in (None = once)."""
    n = getattr(node, '_parent', None)
    while n is not None and n is not stop:
        if isinstance(n, (ast.ListComp, ast.GeneratorExp, ast.SetComp)):
            it = n.generators[0].iter
            if isinstance(it, ast.Call) and u(it.func) == 'range' and len(it.args) == 1:
                return it.args[0]
            return it
        if isinstance(n, ast.For):
            it = n.iter
            if isinstance(it, ast.Call) and u(it.func) == 'range' and len(it.args) == 1:
                return it.args[0]
        n = getattr(n, '_parent', None)
    return None


def build(ctx, root, normalise=True):
    res, repo = ctx.res, ctx.repo
    model = Model()
    seen = set()

    def ext(call, fi):
        tg = res._resolve_callee(call.func, fi.module, fi)
        for t in tg:
            if isinstance(t, tuple) and t[0] == 'external':
                return t[1]
        return None

    def local_func(expr, fi):
        tg = [t for t in res._resolve_callee(expr, fi.module, fi) if isinstance(t, FuncInfo)]
        return tg[0] if len(tg) == 1 else None

    def visit(fi0, env, kind, count=None, handle=None):
        fi = ctx.N(fi0) if normalise else fi0
        if normalise:
            from sa.normalize import call_idioms
            fi = call_idioms(ctx, fi)        # (spawn options collected in a dict and passed with **)
        key = (fi0.qualname, kind)
        if key in seen:
            raise AnalysisError('%s is spawned / called from two places: the channel model assumes one' % fi0.qualname)
        seen.add(key)
        env = dict(env)
        # queue creations (single assignment to a plain name)
        for n in ast.walk(fi.node):
            if isinstance(n, ast.Assign) and isinstance(n.value, ast.Call) and len(n.targets) == 1 and pseudo(n.targets[0]):
                e = ext(n.value, fi0)
                if e in QUEUE_CTORS:
                    ch = Chan(QUEUE_CTORS[e], n, pseudo(n.targets[0]))
                    if isinstance(env.get(ch.name), Chan):
                        raise AnalysisError('%s: queue name %s is bound twice' % (fi0.qualname, ch.name))
                    env[ch.name] = ch
                    model.chans.append(ch)
        actor = Actor(fi, kind, env, count, handle)
        model.actors.append(actor)

        def arg_value(a):
            nm = pseudo(a)
            if nm and nm in env:
                return env[nm]
            return a
        for n in ast.walk(fi.node):
            if not isinstance(n, ast.Call):
                continue
            e = ext(n, fi0)
            if e in SPAWNERS:
                kw = {k.arg: k.value for k in n.keywords}
                tgt = kw.get('target')
                callee = local_func(tgt, fi0) if tgt is not None else None
                if callee is None:
                    raise AnalysisError('%s: spawn target %s not resolved' % (fi0.qualname, u(tgt) if tgt is not None else '?'))
                args = kw.get('args')
                if isinstance(args, ast.Name):
                    # the tuple was named first: take the single assignment to that name in this function
                    vals = [a.value for a in ast.walk(fi.node) if isinstance(a, ast.Assign) and len(a.targets) == 1
                            and pseudo(a.targets[0]) == args.id]
                    if len(vals) == 1:
                        args = vals[0]
                if not isinstance(args, (ast.Tuple, ast.List)) or kw.get('kwargs') is not None:
                    raise AnalysisError('%s: spawn arguments of %s are not a literal tuple' % (fi0.qualname, callee.name))
                if len(args.elts) != len(callee.params):
                    raise AnalysisError('%s: %d arguments for %s%s' % (fi0.qualname, len(args.elts), callee.name, tuple(callee.params)))
                env2 = {p: arg_value(a) for p, a in zip(callee.params, args.elts)}
                cnt = _enclosing_count(n, fi.node)
                hnd = None
                par = getattr(n, '_parent', None)
                if isinstance(par, ast.Assign) and pseudo(par.targets[0]):
                    hnd = pseudo(par.targets[0])
                    # worker = Process(..); workers.append(worker): the handles are kept in the list
                    apps = [c for c in ast.walk(fi.node) if isinstance(c, ast.Call) and isinstance(c.func, ast.Attribute)
                            and c.func.attr == 'append' and len(c.args) == 1 and pseudo(c.args[0]) == hnd and pseudo(c.func.value)]
                    if len(apps) == 1 and cnt is not None:
                        hnd = pseudo(apps[0].func.value)
                elif isinstance(par, (ast.ListComp,)) and isinstance(getattr(par, '_parent', None), ast.Assign):
                    hnd = pseudo(par._parent.targets[0])
                elif isinstance(par, ast.Call) and isinstance(par.func, ast.Attribute) and par.func.attr == 'append':
                    hnd = pseudo(par.func.value)
                visit(callee, env2, SPAWNERS[e], arg_value(cnt) if cnt is not None else None, hnd)
            elif e is None:
                callee = local_func(n.func, fi0) if isinstance(n.func, ast.Name) else None
                if callee is not None and callee.module is fi0.module and not callee.is_generator and \
                        any(isinstance(arg_value(a), Chan) for a in n.args):
                    env2 = {p: arg_value(a) for p, a in zip(callee.params, n.args)}
                    visit(callee, env2, 'helper:' + kind)
        # channel operations
        for n in ast.walk(fi.node):
            if isinstance(n, ast.Call) and isinstance(n.func, ast.Attribute):
                for ch in actor.chans_of(n.func.value):
                    if n.func.attr in ('put', 'put_nowait'):
                        a0 = n.args[0] if n.args else None
                        what = 'marker' if isinstance(a0, ast.Constant) and a0.value is None else 'data'
                        actor.ops.append(Op(actor, ch, 'put', what, n))
                    elif n.func.attr in ('get', 'get_nowait'):
                        actor.ops.append(Op(actor, ch, 'get', None, n))
        return actor
    root_actor = visit(root, {}, 'consumer')
    return model, root_actor


# ---------------------------------------------------------------------- structural position helpers
def ancestors(node, stop=None):
    n = getattr(node, '_parent', None)
    while n is not None and n is not stop:
        yield n
        n = getattr(n, '_parent', None)


def in_handler(node, fnode):
    prev = node
    for a in ancestors(node, fnode):
        if isinstance(a, ast.ExceptHandler):
            return True
        prev = a
    return False


def in_finally(node, fnode):
    prev = node
    for a in ancestors(node, fnode):
        if isinstance(a, ast.Try) and any(prev is s for s in a.finalbody):
            return True
        prev = a
    return False


def enclosing_loops(node, fnode):
    return [a for a in ancestors(node, fnode) if isinstance(a, (ast.For, ast.While))]


def runs_after(node, loop, fnode):
    """Is `node` executed only after `loop` has finished: it sits in a statement that follows the loop in the loop's own block or
    in an enclosing block, or in the finally of a try whose body contains the loop."""
    chain = [loop] + list(ancestors(loop, fnode)) + [fnode]
    mine = [node] + list(ancestors(node, fnode)) + [fnode]
    if loop in mine:
        return False
    # lowest common ancestor
    for i, a in enumerate(chain[1:], 1):
        if a in mine:
            child_loop = chain[i - 1]
            child_me = mine[mine.index(a) - 1]
            for fld in ('body', 'orelse', 'finalbody'):
                blk = getattr(a, fld, None)
                if isinstance(blk, list) and any(child_loop is s for s in blk) and any(child_me is s for s in blk):
                    il = [k for k, s in enumerate(blk) if s is child_loop][0]
                    im = [k for k, s in enumerate(blk) if s is child_me][0]
                    return im > il
            if isinstance(a, ast.Try) and any(child_loop is s for s in a.body) and any(child_me is s for s in a.finalbody):
                return True
            if isinstance(a, ast.Try) and any(child_loop is s for s in a.body) and any(child_me is s for s in a.orelse):
                return True
            return False
    return False
