"""R15 instances shared by C04 / C08 / C09 / C19: where the commit points of the library sit."""
import ast

from sa.deps import Facts, names_in, pseudo
from sa.loader import AnalysisError, own_nodes
from sa.model import find_resloops, fq, u, where
from rules.order import call_named, check_order, report_order


def ext(ctx, *names):
    def pred(n):
        return isinstance(n, ast.Call) and ctx.res.external_name(n) in names
    return pred


def stream_func(ctx):
    from sa.model import package_steps
    fis = [f for f in package_steps(ctx.repo) if f.module.name == 'dataflows.processors.stream']
    if len(fis) != 1:
        raise AnalysisError('stream: package step function not found')
    return fis[0]


def resource_loop_pred(ctx, fi, seeds):
    loops = [rl.node for rl in find_resloops(ctx.repo, ctx.res, fi, seeds) if rl.kind == 'for' and rl.fi is fi]
    if not loops:
        raise AnalysisError('%s: resource loop not found' % fi.qualname)
    return lambda l: l in loops


def r15_checkpoint_rename(ctx, rule='R15'):
    """stream(): close, then rename, only after the resource loop completed, never from except/finally."""
    fi0 = stream_func(ctx)
    fi = ctx.N(fi0)          # a finishing helper (`finish()`) is part of the step
    lp = resource_loop_pred(ctx, fi, ['package'])
    raw_rename = ext(ctx, 'os.rename', 'os.replace', 'shutil.move')
    # a helper of the module that performs the rename and could not be inlined (it rebinds a variable of the factory with `nonlocal`,
    # say): a call to it IS the commit
    committing = {f.node.name for f in ctx.repo.functions.values() if f.module is fi0.module and f is not fi0
                  and not isinstance(f.node, ast.Lambda) and any(raw_rename(n) for n in own_nodes(f.node))}
    preds = {'RENAME': lambda n: raw_rename(n) or (isinstance(n, ast.Call) and isinstance(n.func, ast.Name) and n.func.id in committing),
             'CLOSE': lambda n: isinstance(n, ast.Call) and isinstance(n.func, ast.Attribute) and n.func.attr == 'close'
             and pseudo(n.func.value) == 'file'}
    direct = any(raw_rename(n) for n in ast.walk(fi.node))
    pes, problems = check_order(ctx, rule, fi, preds, before=[('CLOSE', 'RENAME')] if direct else [], after_loop=[('RENAME', lp)],
                                forbid_ctx=['RENAME'])
    n_ren = sum(1 for p, evs in pes for e in evs if e.name == 'RENAME')
    if n_ren == 0:
        raise AnalysisError('stream: no rename found (commit point vanished)')
    report_order(ctx, rule, fi, problems, pes, 'close < rename, rename only after the resource loop, not in except/finally',
                 'the checkpoint file can be committed (renamed to its final name) although writing did not complete')
    # who may reach the commit: the rename, or a helper that (transitively) contains it, is called from the package step only -
    # a call from the row writer or any other function of the module runs while rows are still being handed downstream
    mod = fi0.module
    funcs = [f for f in ctx.repo.functions.values() if f.module is mod and not isinstance(f.node, ast.Lambda)]
    reach = {f.qualname for f in funcs if any(raw_rename(n) for n in own_nodes(f.node))}
    changed = True
    while changed:
        changed = False
        for f in funcs:
            if f.qualname in reach:
                continue
            for n in own_nodes(f.node):
                if isinstance(n, ast.Call) and any(getattr(t, 'qualname', None) in reach for t in ctx.res.resolve_call(n)):
                    if f is fi0:
                        break
                    # f calls a committing helper: f commits too, unless it is a generator handed downstream (checked below)
                    if not f.is_generator:
                        reach.add(f.qualname)
                        changed = True
                    break
    for f in funcs:
        if f is fi0 or f.qualname in reach:
            continue
        for n in own_nodes(f.node):
            hit = raw_rename(n) or (isinstance(n, ast.Call) and
                                         any(getattr(t, 'qualname', None) in reach for t in ctx.res.resolve_call(n)))
            if hit:
                ctx.run.fail(rule, where(ctx.repo, n), f.qualname, 'commit reached from ' + f.qualname.split(':')[-1],
                             'the rename to the final name can be reached from %s, which runs while rows are still being written '
                             'and handed downstream: a failure after that point leaves a committed checkpoint' % f.qualname)
    ctx.run.ok(rule, fi0.where, 'only %s reaches the rename (through %s)' % (fi0.qualname, sorted(reach) or 'itself'))
    return fi0


def dumper_base(ctx):
    return ctx.repo.cls('dataflows.processors.dumpers.dumper_base:DumperBase')


def r15_descriptor_after_loop(ctx, rule='R15'):
    """DumperBase.process_resources: handle_datapackage()/finalize() only after the loop over all resources."""
    db = dumper_base(ctx)
    pr = db.methods.get('process_resources')
    if pr is None:
        raise AnalysisError('DumperBase.process_resources not found')
    pr = ctx.N(pr)       # the loop may live in a generator process_resources delegates to (yield from self.<helper>(resources))
    lp = resource_loop_pred(ctx, pr, [pr.params[1]])
    preds = {'HANDLE_DP': lambda n: isinstance(n, ast.Call) and isinstance(n.func, ast.Attribute)
             and n.func.attr == 'handle_datapackage',
             'FINALIZE': lambda n: isinstance(n, ast.Call) and isinstance(n.func, ast.Attribute) and n.func.attr == 'finalize'
             and pseudo(n.func.value) == 'self',
             'PKG_HASH': lambda n: isinstance(n, ast.Call) and isinstance(n.func, ast.Attribute) and n.func.attr == 'set_attr'
             and len(n.args) > 1 and 'datapackage_hash' in u(n.args[1])}
    pes, problems = check_order(ctx, rule, pr, preds, before=[('HANDLE_DP', 'FINALIZE')],
                                after_loop=[('HANDLE_DP', lp), ('FINALIZE', lp), ('PKG_HASH', lp)],
                                forbid_ctx=['HANDLE_DP', 'FINALIZE'], required=['HANDLE_DP'], once=['HANDLE_DP'])
    # package hash before handle_datapackage where present
    for p, evs in pes:
        names = [e.name for e in evs]
        if 'PKG_HASH' in names and 'HANDLE_DP' in names and names.index('PKG_HASH') > names.index('HANDLE_DP'):
            problems[('PKG_HASH before HANDLE_DP', pr.node)] = p
    report_order(ctx, rule, pr, problems, pes, 'handle_datapackage() once, after the resource loop, not in except/finally',
                 'the dump descriptor can be written although not every resource stream was completely written')
    # initialize() and __init__ do not write a descriptor
    for c in ctx.res.subclasses(db):
        for name in ('initialize', '__init__'):
            m = c.methods.get(name)
            if m is None:
                continue
            bad = [n for n in own_nodes(m.node) if isinstance(n, ast.Call) and isinstance(n.func, ast.Attribute)
                   and n.func.attr in ('handle_datapackage', 'write_file_to_output')]
            ctx.run.check(not bad, rule, m.where, m.qualname, 'no descriptor write in %s' % name,
                          'a dumper writes output before any stream was processed')
    return pr


def file_dumper(ctx):
    return ctx.repo.cls('dataflows.processors.dumpers.file_dumper:FileDumper')


def r15_descriptor_write(ctx, rule='R15'):
    """FileDumper.handle_datapackage: json.dump < close < write_file_to_output('datapackage.json'); the literal
    'datapackage.json' is written nowhere else."""
    fd = file_dumper(ctx)
    hd = fd.methods.get('handle_datapackage')
    if hd is None:
        raise AnalysisError('FileDumper.handle_datapackage not found')
    hd0, hd = hd, ctx.N(hd)      # helpers inlined, module constants folded (a named descriptor file name is the same name)
    from sa.normalize import file_idioms
    file_idioms(ctx, hd)         # `with ... as f` closes f after its block; json.dumps + f.write is json.dump
    preds = {'DUMP': ext(ctx, 'json.dump'),
             'CLOSE': lambda n: isinstance(n, ast.Call) and isinstance(n.func, ast.Attribute) and n.func.attr == 'close',
             'WRITE_OUT': lambda n: isinstance(n, ast.Call) and isinstance(n.func, ast.Attribute)
             and n.func.attr == 'write_file_to_output',
             'UNLINK': ext(ctx, 'os.unlink', 'os.remove')}
    pes, problems = check_order(ctx, rule, hd, preds, before=[('DUMP', 'CLOSE'), ('CLOSE', 'WRITE_OUT'), ('DUMP', 'WRITE_OUT'),
                                                              ('WRITE_OUT', 'UNLINK')],
                                forbid_ctx=['WRITE_OUT'], required=['DUMP', 'WRITE_OUT'], once=['WRITE_OUT'])
    report_order(ctx, rule, hd, problems, pes, 'json.dump < close < write_file_to_output < unlink',
                 'datapackage.json can be copied out before it is completely written and closed')
    # the descriptor that is dumped is the package descriptor
    dumps = [n for n in own_nodes(hd.node) if isinstance(n, ast.Call) and ctx.res.external_name(n) == 'json.dump']
    for d in dumps:
        ctx.run.check(d.args and pseudo(base(d.args[0])) == 'self.datapackage' and u(d.args[0]).endswith('.descriptor'),
                      rule, where(ctx.repo, d), hd.qualname, d, 'the serialised object is not self.datapackage.descriptor')
    # the file that is copied out is the file that was dumped into
    facts = Facts(hd, include_nested=False)
    for w in [n for n in own_nodes(hd.node) if isinstance(n, ast.Call) and isinstance(n.func, ast.Attribute)
              and n.func.attr == 'write_file_to_output']:
        tmpnames = set()
        for d in dumps:
            if len(d.args) > 1:
                tmpnames |= names_in(d.args[1])
        ok = bool(w.args) and bool(facts.roots(w.args[0]) & tmpnames)
        ctx.run.check(ok, rule, where(ctx.repo, w), hd.qualname, w,
                      'the file copied out as the descriptor is not the temp file the descriptor was dumped into')
        ctx.run.check(len(w.args) > 1 and isinstance(w.args[1], ast.Constant) and w.args[1].value == 'datapackage.json',
                      rule, where(ctx.repo, w), hd.qualname, 'target name ' + u(w),
                      'the descriptor is not written as datapackage.json')
    # nobody else writes 'datapackage.json'
    others = []
    for m in ctx.repo.modules.values():
        if not m.name.startswith('dataflows.processors.dumpers'):
            continue
        for n in ast.walk(m.tree):
            if isinstance(n, ast.Call) and isinstance(n.func, ast.Attribute) and n.func.attr == 'write_file_to_output':
                if any(isinstance(a, ast.Constant) and a.value == 'datapackage.json' for a in n.args):
                    if ctx.repo.enclosing_func(n) is not hd0:
                        others.append(n)
    # ... and no data file can take that name: a resource whose path is the descriptor's name is refused (the dynamic path of a data
    # file is the one writer the scan above cannot see)
    reserved = False
    for m_ in fd.methods.values():
        for n_ in ast.walk(ctx.N(m_).node if not isinstance(m_.node, ast.Lambda) else m_.node):
            if isinstance(n_, ast.If) and any(isinstance(x, ast.Raise) for st_ in n_.body for x in ast.walk(st_)):
                t_ = n_.test
                if isinstance(t_, ast.Compare) and len(t_.ops) == 1 and isinstance(t_.ops[0], (ast.Eq, ast.In)) and \
                        any(isinstance(k, ast.Constant) and k.value == 'datapackage.json' for k in ast.walk(t_)) and 'path' in u(t_).lower():
                    reserved = True
            if isinstance(n_, ast.Assert) and isinstance(n_.test, ast.Compare) and len(n_.test.ops) == 1 and \
                    isinstance(n_.test.ops[0], (ast.NotEq, ast.NotIn)) and 'path' in u(n_.test).lower() and \
                    any(isinstance(k, ast.Constant) and k.value == 'datapackage.json' for k in ast.walk(n_.test)):
                reserved = True
    # ... nor can two resources take the same name: prepare_resource derives the file name with Path.with_suffix, so 'data.v1' and
    # 'data.v2' both become 'data.csv' - the second data file replaces the first while the descriptor lists both
    unique = False
    for m_ in fd.methods.values():
        mn_ = ctx.N(m_).node if not isinstance(m_.node, ast.Lambda) else m_.node
        for n_ in ast.walk(mn_):
            if isinstance(n_, ast.If) and any(isinstance(x, ast.Raise) for st_ in n_.body for x in ast.walk(st_)):
                t_ = n_.test
                if isinstance(t_, ast.Compare) and len(t_.ops) == 1 and isinstance(t_.ops[0], ast.In) and 'path' in u(t_.left).lower() \
                        and pseudo(t_.comparators[0]):
                    taken_ = pseudo(t_.comparators[0])
                    grows = any(isinstance(c_, ast.Call) and isinstance(c_.func, ast.Attribute) and c_.func.attr in ('add', 'append')
                                and pseudo(c_.func.value) == taken_ and c_.args and u(c_.args[0]) == u(t_.left) for c_ in ast.walk(mn_))
                    unique = unique or grows
    ctx.run.check(unique, rule, fd.where, fd.qualname, 'a resource whose output path is already taken by another resource is refused',
                  'nothing keeps two resources from being written to one file (paths that differ only in their last suffix both become '
                  '<name>.csv): the second data file replaces the first, the descriptor lists the file twice, and the recorded size / hash '
                  'of the first resource describe a file that is gone')
    ctx.run.check(reserved, rule, fd.where, fd.qualname, "a resource whose path is 'datapackage.json' is refused",
                  "nothing keeps a resource from being written under the descriptor's own name: the data file appears as "
                  "datapackage.json before the data files are complete, and the descriptor written at the end replaces it (the finished "
                  "dump lists 'datapackage.json' as a data file that holds the descriptor)")
    ctx.run.check(not others, rule, hd.where, hd.qualname, "single writer of 'datapackage.json'",
                  'another function writes datapackage.json: %s' % ', '.join(where(ctx.repo, o) for o in others))
    return hd


def base(e):
    while isinstance(e, (ast.Attribute, ast.Subscript)) and pseudo(e) is None:
        e = e.value
    return e


def rows_processor(ctx):
    fd = file_dumper(ctx)
    cands = [m for m in fd.methods.values()
             if any(isinstance(n, ast.Call) and isinstance(n.func, ast.Attribute) and n.func.attr == 'finalize_file'
                    for n in own_nodes(m.node))]
    if len(cands) != 1:
        raise AnalysisError('FileDumper: the method that finalises a data file (calls finalize_file) not found')
    # what the method does, wherever it is written: private helpers of the class it delegates to (a sub-generator with the row loop,
    # a finishing method) are inlined; the calls the rules name stay calls
    return ctx.N(cands[0], keep=('hash_handler', 'write_file_to_output', 'inc_attr', 'set_attr', 'get_attr', 'finalize_file',
                                 'insert_hash_in_path', 'write_row'))


def r15_datafile_order(ctx, rule='R15'):
    """FileDumper.rows_processor: finalize_file < tell < hash < close < write_file_to_output < unlink, all after the row loop,
    all on the same temp-file value."""
    rp0 = rows_processor(ctx)
    # helpers of the same class (a finishing step split off into its own method) are inlined; the calls the rule names stay calls
    rp = ctx.N(rp0, keep=('hash_handler', 'write_file_to_output', 'inc_attr', 'set_attr', 'get_attr', 'finalize_file'))
    from sa.model import row_loops
    rls = row_loops(rp)
    if len(rls) != 1:
        raise AnalysisError('%s: expected one row loop' % rp.qualname)
    loop = rls[0][0]
    lp = lambda l: l is loop
    preds = {'FINALIZE_FILE': call_named('finalize_file'),
             'TELL': call_named('tell'),
             'GETSIZE': ext(ctx, 'os.path.getsize', 'os.stat', 'os.fstat'),
             'HASH': call_named('hash_handler'),
             'CLOSE': lambda n: isinstance(n, ast.Call) and isinstance(n.func, ast.Attribute) and n.func.attr == 'close',
             'WRITE_OUT': call_named('write_file_to_output'),
             'UNLINK': ext(ctx, 'os.unlink', 'os.remove'),
             # the output location is read from the descriptor only after the hash directory was inserted into it
             'INSERT_HASH': call_named('insert_hash_in_path'),
             'READ_PATH': lambda n: (isinstance(n, ast.Call) and isinstance(n.func, ast.Attribute) and n.func.attr == 'get'
                                     and n.args and isinstance(n.args[0], ast.Constant) and n.args[0].value == 'path') or
             (isinstance(n, ast.Subscript) and isinstance(n.ctx, ast.Load) and isinstance(n.slice, ast.Constant)
              and n.slice.value == 'path')}
    pes, problems = check_order(
        ctx, rule, rp, preds,
        not_after=[('HASH', 'CLOSE'), ('TELL', 'CLOSE')],
        before=[('FINALIZE_FILE', 'TELL'), ('FINALIZE_FILE', 'HASH'), ('FINALIZE_FILE', 'GETSIZE'), ('CLOSE', 'GETSIZE'),
                ('FINALIZE_FILE', 'WRITE_OUT'), ('CLOSE', 'WRITE_OUT'), ('WRITE_OUT', 'UNLINK')],
        after_loop=[(x, lp) for x in ('FINALIZE_FILE', 'TELL', 'GETSIZE', 'HASH', 'CLOSE', 'WRITE_OUT', 'UNLINK')],
        forbid_ctx=['WRITE_OUT', 'FINALIZE_FILE'], required=['FINALIZE_FILE', 'CLOSE', 'WRITE_OUT'],
        once=['WRITE_OUT', 'FINALIZE_FILE'])
    # the size is measured on every normal path: tell() on the still open handle, or a stat of the closed file
    for p_, evs in pes:
        if p_.term in ('fall', 'return') and not any(e.name in ('TELL', 'GETSIZE') for e in evs):
            problems[('size measured (tell() before close, or getsize after close)', rp.node)] = p_
    report_order(ctx, rule, rp, problems, pes,
                 'finalize_file < tell/hash < close < write_file_to_output < unlink, all after the row loop',
                 'size / hash / copy of a data file are taken at the wrong moment (a text-mode file that is still open is not '
                 'flushed: its on-disk size is smaller than what was written)')
    # the output location is read from the descriptor only after the hash directory was inserted into it
    pes2, problems2 = check_order(ctx, rule, rp, {k: preds[k] for k in ('INSERT_HASH', 'READ_PATH')},
                                  not_after=[('INSERT_HASH', 'READ_PATH')])
    report_order(ctx, rule, rp, problems2, pes2, 'descriptor path read after insert_hash_in_path',
                 'the path the file is copied out under is read before the hash directory is inserted into the descriptor: the '
                 'descriptor records <dir>/<hash>/<name> while the file is written to <dir>/<name>')
    # same temp-file value
    params = rp.params
    facts = Facts(rp, include_nested=False)
    tmp = None
    for n in own_nodes(rp.node):
        if isinstance(n, ast.Call) and isinstance(n.func, ast.Attribute) and n.func.attr == 'hash_handler' and n.args:
            tmp = tmp or pseudo(n.args[0])
    for n in own_nodes(rp.node):
        if isinstance(n, ast.Call) and isinstance(n.func, ast.Attribute) and n.func.attr == 'tell':
            tmp = tmp or pseudo(n.func.value)
    if tmp is None:
        raise AnalysisError('%s: temp file (argument of hash_handler / receiver of tell) not found' % rp.qualname)
    for n in own_nodes(rp.node):
        if isinstance(n, ast.Call) and ctx.res.external_name(n) in ('os.path.getsize', 'os.stat'):
            ctx.run.check(n.args and tmp in facts.roots(n.args[0]), rule, where(ctx.repo, n), rp.qualname, n,
                          'the size is taken from a file other than the temp file that is hashed and copied out')
        if isinstance(n, ast.Call) and isinstance(n.func, ast.Attribute) and n.func.attr == 'tell':
            ctx.run.check(pseudo(n.func.value) == tmp, rule, where(ctx.repo, n), rp.qualname, n,
                          'tell() is called on a file other than the temp file that is hashed and copied out')
    for n in own_nodes(rp.node):
        if isinstance(n, ast.Call) and isinstance(n.func, ast.Attribute):
            if n.func.attr == 'hash_handler':
                ctx.run.check(n.args and pseudo(n.args[0]) == tmp, rule, where(ctx.repo, n), rp.qualname, n,
                              'the file that is hashed is not the file whose size is recorded (%s)' % tmp)
            if n.func.attr == 'write_file_to_output':
                ctx.run.check(n.args and tmp in facts.roots(n.args[0]), rule, where(ctx.repo, n), rp.qualname, n,
                              'the file copied out is not the temp file that was measured and hashed (%s)' % tmp)
            if n.func.attr == 'close':
                ctx.run.check(pseudo(n.func.value) == tmp, rule, where(ctx.repo, n), rp.qualname, n,
                              'a different file object is closed')
    # the writer's file is that temp file: process_resource passes the same object to the formatter and to rows_processor
    fd = file_dumper(ctx)
    pr = fd.methods.get('process_resource')
    ok = False
    if pr is not None:
        f2 = Facts(pr, include_nested=False)
        for n in own_nodes(pr.node):
            if isinstance(n, ast.Call) and isinstance(n.func, ast.Attribute) and n.func.attr == rp.name:
                idx = params.index(tmp) - 1 if tmp in params else None
                if idx is not None and idx < len(n.args):
                    targ = pseudo(n.args[idx])
                    widx = [i for i, p in enumerate(params[1:]) if p == 'writer']
                    wexpr = n.args[widx[0]] if widx and widx[0] < len(n.args) else None
                    if wexpr is not None and targ is not None:
                        for v in [wexpr] + list(f2.values_of(pseudo(wexpr) or '')):
                            if isinstance(v, ast.Call) and v.args and pseudo(v.args[0]) == targ:
                                ok = True
    ctx.run.check(ok, rule, pr.where if pr else fd.where, (pr or rp).qualname, 'writer(temp_file, ...) and rows_processor(.., temp_file)',
                  'the format writer does not write into the temp file that is measured, hashed and copied out')
    return rp


def stream_roles(ctx):
    """Functions of processors/stream.py by role: factory, line writer, row writer generator, package step."""
    from sa.model import row_loops
    from sa.loader import FuncInfo
    step = stream_func(ctx)
    fac = step.parent
    if not isinstance(fac, FuncInfo):
        raise AnalysisError('stream: factory not found')
    # helpers nested in the factory, or module-level helpers of the stream module that take the file as a parameter
    sibs = [f for f in ctx.repo.functions.values() if f is not step and f is not fac and not isinstance(f.node, ast.Lambda)
            and (f.parent is fac or (f.parent is None and f.cls is None and f.module is step.module))]
    writers = [f for f in sibs if not f.is_generator and any(isinstance(n, ast.Call) and isinstance(n.func, ast.Attribute)
                                                               and n.func.attr == 'write' for n in own_nodes(f.node))]
    rowgens = [f for f in sibs if f.is_generator and row_loops(f) and f.all_params != ['package']]   # not a piece of the step itself
    if len(writers) != 1 or len(rowgens) != 1:
        raise AnalysisError('stream: line writer / row writer not found by role (%d / %d candidates)' % (len(writers), len(rowgens)))
    # names under which the line writer is reachable: its own name, locals bound to functools.partial(<writer>, ...), and the
    # parameter of the row writer that such a local is bound to through functools.partial(<row writer>, <that local>)
    wnames = {writers[0].name}
    is_partial = lambda v: isinstance(v, ast.Call) and u(v.func) in ('partial', 'functools.partial') and v.args
    for _ in range(2):
        for n in ast.walk(fac.node):
            if isinstance(n, ast.Assign) and len(n.targets) == 1 and isinstance(n.targets[0], ast.Name) and is_partial(n.value):
                if isinstance(n.value.args[0], ast.Name) and n.value.args[0].id in wnames:
                    wnames.add(n.targets[0].id)
                if isinstance(n.value.args[0], ast.Name) and n.value.args[0].id == rowgens[0].name:
                    for i, a in enumerate(n.value.args[1:]):
                        if isinstance(a, ast.Name) and a.id in wnames and i < len(rowgens[0].params):
                            wnames.add(rowgens[0].params[i])
    return dict(factory=fac, write=writers[0], rows=rowgens[0], step=step, write_names=tuple(sorted(wnames)))


def one_line_per_object(ctx, write_fi):
    """The line writer emits exactly <ejson.dumps(obj) without indent> followed by one newline: (ok, description)."""
    from rules.matchers import _parts
    from sa.normalize import resolve_here
    w = ctx.N(write_fi)
    calls = [n for n in ast.walk(w.node) if isinstance(n, ast.Call) and isinstance(n.func, ast.Attribute) and n.func.attr == 'write']
    if len(calls) != 1 or len(calls[0].args) != 1:
        return False, 'not exactly one file.write(...) call'
    arg = resolve_here(calls[0].args[0])
    parts = _parts(ctx, arg, w, None)
    lits = ''.join(p[1] for p in parts if p[0] == 'lit')
    vars_ = [p for p in parts if p[0] == 'var']
    if lits != '\n' or len(vars_) != 1 or parts[-1][0] != 'lit':
        return False, 'written text is not <document> + newline: %s' % parts
    dumps = [n for n in ast.walk(arg) if isinstance(n, ast.Call) and u(n.func) in ('ejson.dumps', 'json.dumps')]
    if len(dumps) != 1 or u(dumps[0].func) != 'ejson.dumps':
        return False, 'the document is not produced by one ejson.dumps call'
    if not dumps[0].args or pseudo(dumps[0].args[0]) not in w.all_params:
        return False, 'the serialised object is not the argument of the writer'
    if any(k.arg == 'indent' and not (isinstance(k.value, ast.Constant) and k.value.value is None) for k in dumps[0].keywords):
        return False, 'ejson.dumps is called with an indent: a document spans several lines'
    return True, 'file.write(ejson.dumps(obj) + newline)'


def checkpoint_chain_cases(ctx):
    """Paths of checkpoint._preprocess_chain as (polarity of the exists test, its resolved argument, resolved returned value);
    values are resolved along each path, so locals in between and the order of the branches do not matter."""
    from sa.model import norm_compare
    from sa.pathvals import PathValues
    from sa.paths import RAISE, Enumerator
    ck = ctx.repo.cls('dataflows.processors.checkpoint:checkpoint')
    pc0 = ck.methods.get('_preprocess_chain')
    if pc0 is None:
        raise AnalysisError('checkpoint._preprocess_chain not found')
    pc = ctx.N(pc0)
    out = []
    for p in Enumerator(where=pc.qualname).paths(pc.node.body):
        if p.term == RAISE:
            continue
        pv = PathValues(p)
        pol_, arg = None, None
        for t, pol in pv.guards:
            t, pol = norm_compare(t, pol)
            if isinstance(t, ast.Call) and u(t.func) in ('os.path.exists', 'os.path.isfile', 'self.exists'):
                pol_ = pol
                arg = t.args[0] if t.args else ast.Name(id='self.filename', ctx=ast.Load()) if u(t.func) == 'self.exists' else None
        out.append((pol_, arg, pv.returns[0] if pv.returns else None, p))
    if not out:
        raise AnalysisError('checkpoint._preprocess_chain: no path found')
    return pc, out


def checkpoint_replaces(ctx, rule='CKP'):
    """Chain replacement of checkpoint / Flow (shared by C07 and C05)."""
    from sa.pattern import match_expr as _me
    run, repo = ctx.run, ctx.repo
    run.rule(rule, 'CHECKPOINT-REPLACES: when the file exists the chain is the reader alone and does not depend on the preceding '
                   'links; otherwise it is the preceding links followed by the writer; the parent flow hands the preceding links '
                   'over and keeps only the checkpoint; the checkpoint absorbs them into a one-shot iterator, so that building '
                   'the chain again (a second run of the same Flow object) does not add them a second time')
    ck = repo.cls('dataflows.processors.checkpoint:checkpoint')
    # distinct names are distinct checkpoints: the directory is <checkpoint_path>/<checkpoint_name> with the name as it was given - a
    # name that is cleaned, folded, cut or hashed on the way lets two pipelines (or two checkpoints of one chain) resume from each
    # other's file
    ini = ck.methods.get('__init__')
    if ini is None:
        raise AnalysisError('checkpoint.__init__ not found')
    inn = ctx.N(ini)
    from sa.pathvals import PathValues as _PVc
    from sa.paths import Enumerator as _Enc
    okn, nset = True, 0
    for p_ in _Enc(where=ini.qualname).paths(inn.node.body):
        pv_ = _PVc(p_)
        v_ = pv_.env.get('self.checkpoint_path')
        if v_ is None:
            continue
        nset += 1
        b_ = _me('os.path.join(__D, __N)', v_)
        okn = okn and b_ is not None and len(ini.params) > 2 and u(b_['__N']) == ini.params[1] and u(b_['__D']) == ini.params[2]
    run.check(okn and nset >= 1, rule, ini.where, ini.qualname, 'self.checkpoint_path = os.path.join(checkpoint_path, checkpoint_name)',
              'the directory of a checkpoint is not <checkpoint_path>/<checkpoint_name> with the name as given: two different names can '
              'share one directory, and a pipeline then resumes from the checkpoint of another')
    pc, cases = checkpoint_chain_cases(ctx)
    yes = [v for pol, a, v, _ in cases if pol is True]
    no = [v for pol, a, v, _ in cases if pol is False]
    if any(pol is None for pol, a, v, _ in cases):
        raise AnalysisError('checkpoint._preprocess_chain: a path does not depend on the exists-test')
    ok = bool(yes) and all(v is not None and (_me('(unstream(self.filename),)', v) is not None or
                                               _me('[unstream(self.filename)]', v) is not None) for v in yes)
    run.check(ok, rule, pc.where, pc.qualname, 'exists: return (unstream(self.filename),)',
              'with an existing checkpoint the steps before it are still part of the chain (they would run again)')
    ok = bool(no)
    for v in no:
        good = False
        if isinstance(v, ast.Call) and u(v.func) in ('itertools.chain', 'chain') and len(v.args) == 2 and \
                pseudo(v.args[0]) == 'self.chain' and isinstance(v.args[1], (ast.Tuple, ast.List)) and v.args[1].elts:
            good = _me('stream(self.filename)', v.args[1].elts[0]) is not None
        elif isinstance(v, (ast.List, ast.Tuple)) and len(v.elts) >= 2 and isinstance(v.elts[0], ast.Starred) and \
                pseudo(v.elts[0].value) == 'self.chain':
            good = _me('stream(self.filename)', v.elts[1]) is not None
        ok = ok and good
    run.check(ok, rule, pc.where, pc.qualname, 'else: return chain(self.chain, (stream(self.filename), notifier))',
              'on the first run the writer is not placed right after the preceding links')
    hf = ck.methods['handle_flow_checkpoint']
    rets = [n for n in own_nodes(hf.node) if isinstance(n, ast.Return)]
    p = hf.params[1]
    assigns = [n for n in own_nodes(hf.node) if isinstance(n, ast.Assign) and pseudo(n.targets[0]) == 'self.chain']
    # the new value of self.chain with the locals in between resolved
    from sa.pathvals import PathValues
    from sa.paths import Enumerator as _En
    finals = [PathValues(p_).value('self.chain') for p_ in _En(where=hf.qualname).paths(hf.node.body)]
    ok = len(rets) == 1 and _me('[self]', rets[0].value) is not None and len(assigns) == 1 and bool(finals) and \
        all(v is not None and p in names_in(v) for v in finals)
    run.check(ok, rule, hf.where, hf.qualname, 'self.chain = chain(<own steps>, parent_chain); return [self]',
              'the links before the checkpoint stay in the parent flow (they run even when the checkpoint exists) or are lost')
    if ok:
        # the update runs every time the parent flow builds its chain (every run of the same Flow object).  If it read
        # self.chain itself, the preceding links would pile up: with a re-iterable container on every run, with a one-shot
        # itertools.chain on every run that *resumes* (the chain is then never iterated) - run, run, delete, run executes the
        # sources twice.  It must be rebuilt from an attribute that only the constructor assigns.
        own = set()
        for v in finals:
            for x in ast.walk(v):
                if pseudo(x) and pseudo(x).startswith('self.') and not isinstance(getattr(x, 'ctx', None), ast.Store):
                    own.add(pseudo(x))
        stable = True
        for nm in own:
            writers = [m_.name for m_ in ck.methods.values() for a_ in own_nodes(m_.node)
                       if isinstance(a_, (ast.Assign, ast.AugAssign)) and
                       any(pseudo(t_) == nm for t_ in (a_.targets if isinstance(a_, ast.Assign) else [a_.target]))]
            flow_writers = [m_.name for m_ in repo.cls('dataflows.base.flow:Flow').methods.values() for a_ in own_nodes(m_.node)
                            if isinstance(a_, ast.Assign) and any(pseudo(t_) == nm for t_ in a_.targets)]
            if set(writers + flow_writers) - {'__init__'}:
                stable = False
        run.check(bool(own) and stable and 'self.chain' not in own, rule, where(ctx.repo, assigns[0]), hf.qualname,
                  'self.chain is rebuilt from what the constructor stored, not from its own previous value',
                  'the preceding links are added to a chain that may still hold them from an earlier run: on a later run of the '
                  'same Flow object (retry after a failure, refresh after deleting the checkpoint) every step before the '
                  'checkpoint runs twice')
    fl = ctx.N(repo.cls('dataflows.base.flow:Flow').methods['_preprocess_chain'])
    ok = any(isinstance(n, ast.Assign) and isinstance(n.value, ast.Call) and isinstance(n.value.func, ast.Attribute) and
             n.value.func.attr == 'handle_flow_checkpoint' and pseudo(n.targets[0]) in [pseudo(a) for a in n.value.args]
             for n in own_nodes(fl.node))
    run.check(ok, rule, fl.where, fl.qualname, 'links = link.handle_flow_checkpoint(links)',
              'Flow does not hand the preceding links to the checkpoint')


def descriptor_never_skipped(ctx, rule='R19d'):
    """The descriptor goes through the same write_file_to_output as the data files.  A path of that method that returns without
    placing anything (the `existing content-addressed file` shortcut) must be closed to the descriptor: its guards contain a test
    that tells the descriptor's name apart.  The descriptor's path never carries a hash, so without such a test a second dump into
    the same directory keeps the previous run's datapackage.json - the stats returned by process() and the data files then
    disagree with the descriptor on disk, and load() of it returns the previous data."""
    from sa.paths import RAISE, Enumerator
    from sa.pathvals import PathValues
    run, repo, res = ctx.run, ctx.repo, ctx.res
    run.rule(rule, 'DESCRIPTOR-ALWAYS-WRITTEN: in every write_file_to_output of a file dumper, a path that returns without copying / '
                   'writing the file (skip of an existing content-addressed file) carries a test that excludes the descriptor '
                   '(datapackage.json, whose path has no hash): the descriptor of a dump is always the one of this run')
    fd = file_dumper(ctx)
    # the name the descriptor is written under, from the call in handle_datapackage
    hd = ctx.N(fd.methods['handle_datapackage'])
    names = {c.args[1].value for c in ast.walk(hd.node) if isinstance(c, ast.Call) and isinstance(c.func, ast.Attribute)
             and c.func.attr == 'write_file_to_output' and len(c.args) == 2 and isinstance(c.args[1], ast.Constant)}
    if len(names) != 1:
        raise AnalysisError('FileDumper.handle_datapackage: the call writing the descriptor was not found')
    dname = names.pop()
    PLACERS = ('shutil.copy', 'shutil.copyfile', 'shutil.copy2', 'shutil.move', 'os.rename', 'os.replace')
    n = 0
    for c_ in res.subclasses(fd, strict=True):
        w = c_.methods.get('write_file_to_output')
        if w is None:
            continue
        wn = ctx.N(w)
        for p in Enumerator(where=w.qualname).paths(wn.node.body):
            if p.term == RAISE:
                continue
            nodes = [x for it in p.items if it.kind in ('stmt', 'return') for x in ast.walk(it.node)]
            places = any(isinstance(x, ast.Call) and (res.external_name(x) in PLACERS or
                                                      (isinstance(x.func, ast.Attribute) and x.func.attr in ('write', 'writestr')))
                         for x in nodes)
            n += 1
            if places:
                run.ok(rule, w.where, w.qualname + ': ' + (' & '.join(('' if pol else 'not ') + u(t) for t, pol in p.guards()) or '<always>'),
                       'the file is placed')
                continue
            pv = PathValues(p)
            excl = any(isinstance(k, ast.Constant) and k.value == dname for t, pol in list(p.guards()) + list(pv.guards)
                       for k in ast.walk(t))
            # ... and open only to a file whose path is its content: with the hash of the file in its path an existing file IS this
            # file; under any other condition (same size, same head and tail, same mtime ...) the file on disk may differ from the one
            # whose size and hash were just recorded
            atoms_ = []

            def _split(t_, pol_):
                if isinstance(t_, ast.UnaryOp) and isinstance(t_.op, ast.Not):
                    _split(t_.operand, not pol_)
                elif isinstance(t_, ast.BoolOp) and ((isinstance(t_.op, ast.And) and pol_) or (isinstance(t_.op, ast.Or) and not pol_)):
                    for v_ in t_.values:
                        _split(v_, pol_)
                else:
                    atoms_.append((u(t_), pol_))
            for t_, pol_ in list(p.guards()) + list(pv.guards):
                _split(t_, pol_)
            addressed = any(tx.endswith('add_filehash_to_path') and pol_ for tx, pol_ in atoms_)
            run.check(addressed, rule, w.where, w.qualname, 'skip path only for content-addressed files: %s'
                      % ' & '.join(('' if pol else 'not ') + u(t) for t, pol in p.guards()),
                      'write_file_to_output can leave an existing data file in place although its path does not carry the hash of its '
                      'content: the file on disk is then not necessarily the file whose bytes, hash and row count this run recorded',
                      path=p.describe())
            run.check(excl, rule, w.where, w.qualname, 'skip path excludes %s: %s' % (dname, ' & '.join(('' if pol else 'not ') + u(t)
                                                                                                  for t, pol in p.guards())),
                      'write_file_to_output can return without writing the file and nothing on that path tells %s apart from a data '
                      'file: dumping again into a directory that already holds a dump (add_filehash_to_path) keeps the old descriptor, '
                      'which then describes neither the files of this run nor the stats process() returns' % dname,
                      path=p.describe())
    return n
