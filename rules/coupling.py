"""R11 PHASE-COUPLING: the configuration the row phase uses is data-dependent on what the package phase wrote into the schema,
and every configuration parameter of the row wrapper takes part in building the yielded row."""
import ast

from sa.deps import Facts, base_name, names_in, pseudo
from sa.loader import AnalysisError, FuncInfo, own_nodes
from sa.model import (_const, find_resloops, fq, matcher_names, resloop_signature, row_loops, rowloop_signature, u, where)


def schema_stores(fi):
    """Statements of the package phase that write schema fields: x['schema']['fields'] = v / x['fields'] = v /
    <...fields...>.append|extend(v) / f['name'] = v (rename) — returns (node, value expr)."""
    out = []
    for n in own_nodes(fi.node):
        if isinstance(n, ast.Assign):
            for t in n.targets:
                if isinstance(t, ast.Subscript) and _const(t.slice) == 'fields':
                    out.append((n, n.value))
                elif isinstance(t, ast.Subscript) and isinstance(t.value, ast.Subscript) and _const(t.value.slice) == 'fields':
                    out.append((n, n.value))
                elif isinstance(t, ast.Subscript) and _const(t.slice) == 'name' and isinstance(t.value, ast.Name):
                    out.append((n, n.value))
        elif isinstance(n, ast.Call) and isinstance(n.func, ast.Attribute) and n.func.attr in ('append', 'extend'):
            tgt = n.func.value
            if isinstance(tgt, ast.Subscript) and _const(tgt.slice) == 'fields':
                out.append((n, n.args[0]))
            elif isinstance(tgt, ast.Name) and tgt.id == 'fields':
                out.append((n, n.args[0]))
    return out


def _reads_live_schema(facts, expr, var):
    """cfg derived from the live descriptor of the stream's own resource: r.res.descriptor / r.res.schema"""
    srcs = [expr]
    for nm in facts.roots(expr):
        srcs.extend(facts.values_of(nm))
    for s in srcs:
        for x in ast.walk(s):
            if isinstance(x, ast.Attribute) and x.attr in ('descriptor', 'schema') and isinstance(x.value, ast.Attribute) \
                    and x.value.attr == 'res':
                return True
    return False


def wrapper_uses_params(ctx, rule, w, stream_idx, site):
    """Every non-stream parameter of row wrapper `w` is in the dependence set of what it yields / stores into the row."""
    run = ctx.run
    params = [p for p in w.params if p not in ('self', 'cls')]
    if stream_idx >= len(params):
        return
    sp = params[stream_idx]
    facts = Facts(w, include_nested=True)
    rls = row_loops(w, streams=[sp])
    if not rls:
        run.fail(rule, w.where, w.qualname, 'row loop over ' + sp, 'row wrapper has no loop over its stream parameter')
        return
    loop, var, _ = rls[0]
    produced = set()
    for n in ast.walk(w.node):
        if isinstance(n, ast.Yield) and n.value is not None:
            produced |= facts.roots(n.value)
    # stores into the row also build it
    for n in ast.walk(loop):
        if isinstance(n, ast.Assign):
            for t in n.targets:
                if isinstance(t, ast.Subscript) and base_name(t) in produced | {var}:
                    produced |= facts.roots(n.value) | facts.roots(t.slice)
    # control dependence: a parameter that drives an inner loop / test enclosing the yield or the row stores counts too
    for n in ast.walk(loop):
        if isinstance(n, (ast.For,)):
            produced |= facts.roots(n.iter)
        if isinstance(n, ast.If):
            produced |= facts.roots(n.test)
    for p in params:
        if p == sp:
            continue
        run.check(p in produced, rule, w.where, w.qualname, 'parameter %s of %s' % (p, w.name),
                  'row wrapper ignores its configuration parameter %r: the schema changes but the rows do not follow (%s)'
                  % (p, site))


TRIVIAL = {'package', 'resources', 'regex', 'self'}


def _is_free_var(ctx, fi, nm):
    f = fi.parent
    while isinstance(f, FuncInfo):
        if nm in ctx.res.local_bindings(f):
            return True
        f = f.parent
    return False


def _feeds(fi, name):
    """Statements that put values into `name`: name.append/add/extend(..), name[..] = .., name[..].add(..)"""
    out = []
    for n in own_nodes(fi.node):
        if isinstance(n, ast.Expr) and isinstance(n.value, ast.Call) and isinstance(n.value.func, ast.Attribute) \
                and n.value.func.attr in ('append', 'add', 'extend', 'update', 'setdefault', 'insert') \
                and base_name(n.value.func.value) == name:
            out.append((n, set().union(*[names_in(a) for a in n.value.args]) if n.value.args else set()))
        elif isinstance(n, ast.Assign) and any(isinstance(t, ast.Subscript) and base_name(t) == name for t in n.targets):
            out.append((n, names_in(n.value)))
    return out


def _same_block_feed(fi, facts, S, C, trivial):
    """Names shared by a statement feeding a stored-value name and a statement feeding a cfg name in the same block."""
    shared = set()
    for a in S:
        for sa_, na in _feeds(fi, a):
            for c in C:
                for sc_, nc in _feeds(fi, c):
                    if getattr(sa_, '_parent', None) is getattr(sc_, '_parent', 1) and sa_ is not sc_:
                        shared |= (na & nc) - trivial
    return shared


def r11_function_steps(ctx, steps, rule='R11'):
    run = ctx.run
    run.rule(rule, 'PHASE-COUPLING: for every field-changing step the configuration handed to the row wrapper on the MATCH path '
                   'is data-dependent on the values the package phase stored into the schema (or is read from the live '
                   'descriptor of that resource), and each configuration parameter of the wrapper takes part in building '
                   'the yielded row')
    n = 0
    for fi in steps:
        fi = ctx.N(fi)      # helpers of the step (a selector compiler, a name normaliser) are part of it
        stores = schema_stores(fi)
        if not stores:
            # the schema edit may live in a helper (add_computed_field.get_new_fields): follow calls one level
            pass
        facts = Facts(fi, include_nested=False)
        loops = [rl for rl in find_resloops(ctx.repo, ctx.res, fi, ['package']) if rl.kind == 'for']
        if not loops or not stores:
            raise AnalysisError('%s: field-changing step without schema store / resource loop (anchor moved)' % fi.qualname)
        rl = loops[0]
        sigs, at = resloop_signature(ctx.repo, ctx.res, rl)
        trivial = set(TRIVIAL) | matcher_names(ctx.repo, ctx.res, fi) | {rl.var}
        for lp in [x for x in own_nodes(fi.node) if isinstance(x, ast.For)]:
            if lp is not rl.node and any(st[0] in list(ast.walk(lp)) for st in stores):
                if isinstance(lp.target, ast.Name) and 'resources' in u(lp.iter) + ''.join(u(v) for v in facts.values_of(pseudo(lp.iter) or '')):
                    trivial.add(lp.target.id)
        S = set()
        stored_roots = set()
        for node, val in stores:
            S |= names_in(val)
            stored_roots |= facts.roots(val, stop=trivial)
        S -= trivial
        builtin_like = {nm for nm in S if nm not in facts.defs and nm not in fi.all_params and not _is_free_var(ctx, fi, nm)}
        S -= builtin_like
        for s in sigs:
            if s.atoms.get(('MATCH',)) is not True:
                continue
            for kind, y in s.yields:
                if kind != 'wrap' or not isinstance(y.value, ast.Call):
                    continue
                call = y.value
                try:
                    call = ctx.res.effective_call(call, fi.module, fi)      # configuration pre-bound with functools.partial counts
                except Exception:
                    pass
                cfg = [a for a in list(call.args) + [k.value for k in call.keywords]
                       if not (isinstance(a, ast.Name) and a.id == rl.var)]
                stream_idx = [i for i, a in enumerate(call.args) if isinstance(a, ast.Name) and a.id == rl.var]
                n += 1
                cfg_roots = set()
                C = set()
                for a in cfg:
                    cfg_roots |= facts.roots(a, stop=trivial)
                    C |= names_in(a)
                C -= trivial
                forward = (S & cfg_roots)
                backward = (C & stored_roots)
                # names that hold a part of a configuration object (`sel = configuration.setdefault(k, set())`) feed it too
                from sa.deps import base_name as _bn
                C_parts = set(C)
                for nm_, vals_ in facts.assigns.items():
                    if any(not isinstance(v_, ast.Name) and _bn(v_) in C for v_ in vals_):
                        C_parts.add(nm_)
                same_block = _same_block_feed(fi, facts, S, C_parts, trivial)
                live = any(_reads_live_schema(facts, a, rl.var) for a in cfg)
                run.check(bool(forward) or bool(backward) or bool(same_block) or live, rule, where(ctx.repo, call),
                          fi.qualname, call,
                          'the row wrapper\'s configuration (%s) is not derived from what the package phase stored into '
                          'the schema (%s), nor the other way round: schema and rows can disagree'
                          % (', '.join(u(a) for a in cfg), ', '.join(u(st[0]).split('\n')[0][:60] for st in stores)),
                          detail='stored->cfg %s, cfg->stored %s, same-block %s' % (sorted(forward), sorted(backward),
                                                                                   sorted(same_block)))
                for t in ctx.res.resolve_call(call):
                    if isinstance(t, FuncInfo) and stream_idx:
                        wrapper_uses_params(ctx, rule, t, stream_idx[0], fi.qualname)
    return n
