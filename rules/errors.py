"""R14 ERR-DISCIPLINE: every except handler re-raises, converts, funnels into a no-return helper, or is benign."""
import ast

from sa.deps import Facts, names_in, pseudo
from sa.loader import AnalysisError, ClassInfo, FuncInfo, own_nodes
from sa.model import fq, u, where
from sa.paths import BREAK, CONTINUE, FALL, RAISE, RETURN, Enumerator, path_nodes

NARROW = {'KeyError', 'IndexError', 'StopIteration', 'ValueError', 'decimal.InvalidOperation', 'ImportError',
          'NameError', 'AttributeError', 'ModuleNotFoundError'}

# (iii) frozen benign handlers, each individually justified.  An entry names the module and the caught type and gives a predicate
# over (try statement, handler) that describes the idiom; the enclosing function's name is deliberately not part of the key, so that
# moving the handler into a helper of the same module does not matter, while any other handler of that module is still judged.
def _delegates_to_policy(ctx, tr, h):
    """The try body is a Field.cast_value() call and every path through the handler passes the caught exception to a callable that
    is a parameter of the enclosing function (the on_error policy)."""
    if h.name is None or not any(isinstance(c, ast.Call) and isinstance(c.func, ast.Attribute) and c.func.attr == 'cast_value'
                                 for st in tr.body for c in ast.walk(st)):
        return False
    params = set(_param_names(ctx, tr))
    # a local bound once to something built from a parameter (handler = wrap_handler(on_error or raise_exception)) is the policy too
    fn_ = ctx.repo.enclosing_func(tr)
    if fn_ is not None:
        binds_ = {}
        for a_ in ast.walk(fn_.node):
            if isinstance(a_, ast.Assign) and len(a_.targets) == 1 and isinstance(a_.targets[0], ast.Name):
                binds_.setdefault(a_.targets[0].id, []).append(a_.value)
        for nm_, vs_ in binds_.items():
            if len(vs_) == 1 and any(isinstance(x, ast.Name) and x.id in params for x in ast.walk(vs_[0])):
                params.add(nm_)
    paths = Enumerator(where='handler').paths(h.body)
    if not paths:
        return False
    for p in paths:
        ok = False
        for n in path_nodes(p):
            if isinstance(n, ast.Call) and isinstance(n.func, ast.Name) and n.func.id in params and \
                    any(isinstance(a, ast.Name) and a.id == h.name for a in n.args):
                ok = True
        if not ok:
            return False
    return True


_CLEANUP = {'join', 'kill', 'terminate', 'close'}


def _process_cleanup_only(ctx, tr, h):
    """Everything inside the try statement (body, handlers, finally) is join / kill / terminate / close on a handle, hasattr or
    pass: cleanup of helpers after the data has been delivered, nothing that produces or moves rows."""
    for n in ast.walk(tr):
        if isinstance(n, (ast.Yield, ast.YieldFrom, ast.For, ast.While, ast.Return, ast.Assign, ast.AugAssign)):
            return False
        if isinstance(n, ast.Call):
            f = n.func
            if isinstance(f, ast.Attribute) and f.attr in _CLEANUP:
                continue
            if isinstance(f, ast.Name) and f.id == 'hasattr':
                continue
            return False
    return True


def _in_function(*names):
    def pred(ctx, tr, h):
        fi = ctx.repo.enclosing_func(h)
        return fi is not None and fi.qualname.split(':', 1)[1] in names
    return pred


FROZEN = [
    ('dataflows.base.schema_validator', 'CastError', _delegates_to_policy,
     'delegates to the on_error policy, which raises / drops / clears as configured (decided by C14)'),
    ('dataflows.helpers.iterable_loader', 'Exception', _in_function('iterable_storage.describe'),
     'schema inference fallback; the source error was stashed by handle_iterable and is re-raised after infer() '
     '(checked separately as the stash obligation)'),
    ('dataflows.processors.set_type', 'Exception', _in_function('set_type.wrap_transformer'),
     'the try body is a bare inspect.signature() probe of the user transform; falls back to "no keyword arguments"'),
    ('dataflows.processors.parallelize', 'Exception', _process_cleanup_only,
     'cleanup of worker processes after all rows were delivered'),
    ('dataflows.cli', 'subprocess.CalledProcessError', _in_function('init'),
     'CLI wizard, not on a Flow run path'),
]


def frozen_reason(ctx, m, tr, h, t):
    for mod, typ, pred, reason in FROZEN:
        if mod == m.name and typ == t and pred(ctx, tr, h):
            return reason
    return None


def caught_types(h):
    if h.type is None:
        return ['<bare>']
    if isinstance(h.type, ast.Tuple):
        return [u(e) for e in h.type.elts]
    return [u(h.type)]


def no_return(ctx, fi, _depth=0):
    """Do all paths through fi end in raise?"""
    if _depth > 3:
        return False
    paths = Enumerator(where=fi.qualname).paths(fi.node.body)
    return bool(paths) and all(p.term == RAISE for p in paths)


def _noreturn_call(ctx, node):
    if not isinstance(node, ast.Expr) or not isinstance(node.value, ast.Call):
        return False
    tg = ctx.res.resolve_call(node.value)
    fis = [t for t in tg if isinstance(t, FuncInfo)]
    return bool(fis) and len(fis) == len(tg) and all(no_return(ctx, t) for t in fis)


def handler_always_raises(ctx, h):
    """Every path through the handler body ends in raise or in a call to a proven no-return helper."""
    paths = Enumerator(where='handler').paths(h.body)
    if not paths:
        return False
    for p in paths:
        if p.term == RAISE:
            continue
        # last statement a no-return helper call?
        stmts = [it for it in p.items if it.kind == 'stmt']
        if p.term == FALL and stmts and _noreturn_call(ctx, stmts[-1].node) and p.items[-1] is stmts[-1]:
            continue
        return False
    return True


def _param_names(ctx, node):
    names = set()
    fi = ctx.repo.enclosing_func(node)
    while fi is not None:
        names.update(fi.all_params)
        fi = fi.parent if isinstance(fi.parent, FuncInfo) else None
    return names - {'self', 'cls'}


def _internal_callable_param(ctx, call, pname):
    """The parameter `pname` called here belongs to a module-level helper (or to a function nested in one) that is only ever called,
    within its module, with functions / classes of the repository or of libraries in that position - never with something a user
    passed in: `_lenient(decimal.Decimal)`, `_lenient(_decode_date)`.  Such a callable is part of the library, not user-supplied."""
    fi = ctx.repo.enclosing_func(call)
    owner = None
    while fi is not None:
        if pname in fi.all_params:
            owner = fi
            break
        fi = fi.parent if isinstance(fi.parent, FuncInfo) else None
    if owner is None or owner.cls is not None or owner.parent is not None or isinstance(owner.node, ast.Lambda):
        return False
    pos = owner.all_params.index(pname)
    sites = [c for c in ast.walk(owner.module.tree) if isinstance(c, ast.Call) and isinstance(c.func, ast.Name)
             and c.func.id == owner.node.name]
    if not sites:
        return False
    for c in sites:
        arg = c.args[pos] if pos < len(c.args) else next((k.value for k in c.keywords if k.arg == pname), None)
        if arg is None or not isinstance(arg, (ast.Name, ast.Attribute)):
            return False
        cf = ctx.repo.enclosing_func(c)
        if cf is not None and isinstance(arg, ast.Name) and arg.id in _param_names(ctx, c):
            return False
        try:
            r = ctx.res.resolve_expr_static(arg, owner.module, cf)
        except Exception:
            return False
        if not (isinstance(r, (FuncInfo,)) or type(r).__name__ == 'ClassInfo' or (isinstance(r, tuple) and r and r[0] == 'external')):
            return False
    return True


IO_ATTRS = {'put', 'write', 'flush', 'close', 'rename', 'writerow', 'write_row', 'send', 'join', 'kill', 'start'}


def body_is_simple(ctx, tr):
    """The try body cannot be hiding a step failure: no yield, no loop / next() over data, no call through a
    user-supplied callable, no file / queue operation."""
    params = _param_names(ctx, tr)
    for st in tr.body:
        for n in ast.walk(st):
            if isinstance(n, (ast.Yield, ast.YieldFrom, ast.For, ast.While, ast.AsyncFor)):
                return False, 'contains %s' % type(n).__name__
            if isinstance(n, (ast.ListComp, ast.SetComp, ast.DictComp, ast.GeneratorExp)):
                # comprehension over a literal-sized config is fine; over a parameter stream is not
                for g in n.generators:
                    if pseudo(g.iter) in params:
                        return False, 'iterates parameter %s' % pseudo(g.iter)
            if isinstance(n, ast.Call):
                f = n.func
                if isinstance(f, ast.Name) and f.id in params and not _internal_callable_param(ctx, n, f.id):
                    return False, 'calls user-supplied callable %s' % f.id
                if isinstance(f, ast.Name) and f.id == 'next':
                    # next(filter(..)) / next(iter(..)) / next(<generator expression>): a first-match lookup on a fresh local
                    # iterator (a generator expression over a parameter stream was refused above)
                    if not (n.args and ((isinstance(n.args[0], ast.Call) and isinstance(n.args[0].func, ast.Name)
                                         and n.args[0].func.id in ('filter', 'iter')) or isinstance(n.args[0], ast.GeneratorExp))):
                        return False, 'advances an iterator with next()'
                if isinstance(f, ast.Attribute) and f.attr in IO_ATTRS:
                    return False, 'file/queue/process operation .%s()' % f.attr
                if isinstance(f, ast.Attribute) and pseudo(f) and pseudo(f).startswith('self.'):
                    cls = ctx.repo.enclosing_class(n)
                    if cls is not None and ctx.res.lookup_method(cls, f.attr) is None:
                        return False, 'calls stored callable %s' % pseudo(f)
    return True, ''


def protected_effects(ctx, tr, depth=0):
    """What the try body does that a swallowing handler would hide: a stable, name-free description used to identify a finding
    (loop / yield / call of a user-supplied callable - directly or one repository call deep - / queue get / queue put / io)."""
    kinds = set()
    params = _param_names(ctx, tr)
    for st in tr.body:
        for n in ast.walk(st):
            if isinstance(n, (ast.For, ast.While)):
                kinds.add('loop')
            elif isinstance(n, (ast.Yield, ast.YieldFrom)):
                kinds.add('yield')
            elif isinstance(n, ast.Call):
                f = n.func
                if isinstance(f, ast.Name) and f.id in params:
                    kinds.add('user-callable')
                elif isinstance(f, ast.Attribute) and f.attr in ('get', 'put') and isinstance(f.value, ast.Name):
                    kinds.add('queue-' + f.attr)
                elif isinstance(f, ast.Attribute) and f.attr in IO_ATTRS:
                    kinds.add('io')
                elif depth == 0:
                    try:
                        tg = ctx.res.resolve_call(n)
                    except Exception:
                        tg = []
                    for t in tg:
                        if isinstance(t, FuncInfo) and not isinstance(t.node, ast.Lambda):
                            # a helper called with one of our user callables as argument applies it
                            if any(isinstance(a, ast.Name) and a.id in params for a in n.args) and \
                                    any(isinstance(c, ast.Call) and isinstance(c.func, ast.Name) and c.func.id in t.all_params
                                        for c in ast.walk(t.node)):
                                kinds.add('user-callable')
    return sorted(kinds)


def run_path_handlers(ctx):
    """All except handlers of the package with their try statement."""
    out = []
    for m in ctx.repo.modules.values():
        for n in ast.walk(m.tree):
            if isinstance(n, ast.Try):
                for h in n.handlers:
                    out.append((m, n, h))
            elif isinstance(n, (ast.With, ast.AsyncWith)):
                # `with contextlib.suppress(T..):` is `try: ... except (T..): pass`
                for it in n.items:
                    c = it.context_expr
                    if isinstance(c, ast.Call) and ctx.res.external_name(c) in ('contextlib.suppress', 'suppress'):
                        typ = c.args[0] if len(c.args) == 1 else ast.Tuple(elts=list(c.args), ctx=ast.Load())
                        h = ast.ExceptHandler(type=typ, name=None, body=[ast.Pass()])
                        tr = ast.Try(body=n.body, handlers=[h], orelse=[], finalbody=[])
                        for x in (h, tr, h.body[0]):
                            ast.copy_location(x, n)
                        h._parent = tr
                        tr._parent = getattr(n, '_parent', None)
                        h.body[0]._parent = h
                        out.append((m, tr, h))
    return out


def r14_err_discipline(ctx, rule='R14', include=lambda m: True, floor=26):
    run = ctx.run
    run.rule(rule, 'ERR-DISCIPLINE: every except handler (i) re-raises / converts with raise..from / calls a helper all of '
                   'whose paths raise, or (ii) catches a narrow lookup-type exception around a try body that cannot hide a '
                   'step failure (no yield, loop, user callable, file/queue operation), or (iii) is one of the frozen, '
                   'individually justified handlers')
    n = 0
    pending = []
    for m, tr, h in run_path_handlers(ctx):
        if not include(m):
            continue
        n += 1
        fi = ctx.repo.enclosing_func(h)
        fname = fi.qualname.split(':', 1)[1] if fi else '<module>'
        types = caught_types(h)
        w = where(ctx.repo, h)
        fqn = fi.qualname if fi else m.name + ':<module>'
        body_txt = ' ; '.join(u(s).split('\n')[0] for s in h.body)[:160]
        if fi is not None:
            sibs = sorted([x for x in ast.walk(fi.node) if isinstance(x, ast.ExceptHandler)
                           and ctx.repo.enclosing_func(x) is fi], key=lambda x: (x.lineno, x.col_offset))
        else:
            sibs = [h]
        # the finding is identified by function, caught type and position among the function's handlers - not by the text of
        # the handler body, which a rename or another way of formatting a message would change
        construct = 'except %s (handler %d of %d in this function, in source order)' % (
            ', '.join(types), [i for i, x in enumerate(sibs) if x is h][0] + 1 if any(x is h for x in sibs) else 0, len(sibs))
        if handler_always_raises(ctx, h):
            run.ok(rule, w, fqn + ' ' + construct, '(i) always raises')
            continue
        reasons = [frozen_reason(ctx, m, tr, h, t) for t in types]
        if all(r is not None for r in reasons):
            run.ok(rule, w, fqn + ' ' + construct, '(iii) frozen: ' + reasons[0])
            continue
        if all(t in NARROW for t in types):
            simple, why = body_is_simple(ctx, tr)
            if simple:
                run.ok(rule, w, fqn + ' ' + construct, '(ii) narrow local fallback')
                continue
            reason = 'narrow type but the try body %s' % why
        else:
            reason = 'broad exception type %s' % ', '.join(types)
        pending.append((m, tr, h, w, fqn, types, reason, body_txt, tuple(protected_effects(ctx, tr))))
    # a swallowing handler is identified by its module, the caught type and what its try body protects - not by the name of the
    # function it sits in (a refactoring may move it into a helper) nor by the text of its body; the number of handlers of the
    # module that share the description is part of the key, so that an additional one is reported
    from collections import Counter
    cnt = Counter((m.name, tuple(types), eff) for m, tr, h, w, fqn, types, reason, body_txt, eff in pending)
    for m, tr, h, w, fqn, types, reason, body_txt, eff in pending:
        construct = 'except %s swallowed around {%s} (%d such handler(s) in the module)' % (
            ', '.join(types), ', '.join(eff) or 'plain statements', cnt[(m.name, tuple(types), eff)])
        run.fail(rule, w, m.name, construct,
                 'handler swallows the exception (%s): a failing step can end in a run that returns normally [in %s; handler body: %s]'
                 % (reason, fqn, body_txt))
    run.floor(rule, n, floor, 'except handlers')
    return n


def r14_funnel(ctx, rule='R14f'):
    """raise_exception is no-return and carries step identity; _process and safe_process funnel through it."""
    run = ctx.run
    run.rule(rule, 'FUNNEL: DataStreamProcessor.raise_exception raises on all paths, wraps non-ProcessorError causes in '
                   'ProcessorError(cause, processor_name, processor_object, processor_position) with `from cause`; the '
                   'package phase (_process) and the driver (safe_process) are wrapped by handlers that end in it')
    dsp = ctx.repo.cls('dataflows.base.datastream_processor:DataStreamProcessor')
    re_ = dsp.methods.get('raise_exception')
    if re_ is None:
        raise AnalysisError('DataStreamProcessor.raise_exception not found')
    run.check(no_return(ctx, re_), rule, re_.where, re_.qualname, 'all paths raise',
              'raise_exception can return normally: errors funnelled into it are swallowed')
    cause = re_.params[1] if len(re_.params) > 1 else None
    ctor = [n for n in own_nodes(re_.node) if isinstance(n, ast.Call) and 'ProcessorError' in u(n.func)
            and not (isinstance(n.func, ast.Name) and n.func.id == 'isinstance')]
    ok = False
    for c in ctor:
        kws = {k.arg: k.value for k in c.keywords}
        ok = bool(c.args) and isinstance(c.args[0], ast.Name) and c.args[0].id == cause and \
            {'processor_name', 'processor_object', 'processor_position'} <= set(kws) and \
            pseudo(kws['processor_position']) == 'self.position' and 'self' in names_in(kws['processor_name']) and \
            pseudo(kws['processor_object']) == 'self'
    run.check(ok, rule, re_.where, re_.qualname, 'ProcessorError(cause, processor_name=, processor_object=, processor_position=)',
              'the ProcessorError does not carry the original exception and the step identity')
    raises = [n for n in own_nodes(re_.node) if isinstance(n, ast.Raise)]
    run.check(any(r.cause is not None and isinstance(r.cause, ast.Name) and r.cause.id == cause for r in raises),
              rule, re_.where, re_.qualname, 'raise error from cause', 'the original exception is not chained as __cause__')
    from sa.pattern import has_stmt
    call = dsp.methods.get('__call__')
    okc = call is not None
    if okc:
        from sa.pathvals import PathValues
        from sa.model import norm_compare
        from sa.pattern import match_expr
        calln = ctx.N(call)
        srcp, posp = calln.params[1], calln.params[2]
        n_p = 0
        for p in Enumerator(where=calln.qualname).paths(calln.node.body):
            pv = PathValues(p)
            n_p += 1
            given = None
            for t, pol in pv.guards:
                t, pol = norm_compare(t, pol)
                if match_expr('%s is None' % srcp, t) is not None:
                    given = not pol
                elif pseudo(t) == srcp:
                    given = pol
            sv = pv.value('self.source')
            good_src = sv is not None and ((u(sv) == srcp) if given is not False else isinstance(sv, ast.Call))
            if given is None and sv is not None and isinstance(sv, ast.BoolOp):
                good_src = pseudo(sv.values[0]) == srcp
            okc = okc and good_src and pv.value('self.position') is not None and u(pv.value('self.position')) == posp and \
                len(pv.returns) == 1 and u(pv.returns[0]) == 'self'
        okc = okc and n_p >= 1
    run.check(okc, rule, dsp.where, dsp.qualname + '.__call__', 'stores source and position',
              'a step does not remember its position in the flow (errors would name the wrong step) or its upstream')
    # ProcessorError keeps .cause
    pe = ctx.repo.cls('dataflows.base.exceptions:ProcessorError')
    init = pe.methods.get('__init__')
    ok = init is not None and any(isinstance(n, ast.Assign) and pseudo(n.targets[0]) == 'self.cause'
                                  and isinstance(n.value, ast.Name) and n.value.id == init.params[1]
                                  for n in own_nodes(init.node))
    run.check(ok, rule, pe.where, pe.qualname, 'self.cause = cause', 'ProcessorError does not record its cause')
    # _process: the try covers Package(), process_datapackage() and commit(); safe_process: try covers _process() and the loop
    pr = dsp.methods.get('_process')
    sp = dsp.methods.get('safe_process')
    for f, needles in ((pr, ['process_datapackage', 'Package']), (sp, ['_process', 'res_iter'])):
        trys = [n for n in own_nodes(f.node) if isinstance(n, ast.Try)]
        ok = False
        for t in trys:
            body_txt = ' '.join(u(s) for s in t.body)
            catch_all = [h for h in t.handlers if caught_types(h) in (['Exception'], ['BaseException'], ['<bare>'])]
            if all(nd in body_txt for nd in needles) and catch_all and all(handler_always_raises(ctx, h) for h in catch_all):
                ok = True
        run.check(ok, rule, f.where, f.qualname, 'try covering %s with except Exception -> raise_exception' % needles,
                  'the step\'s %s is not covered by the exception funnel' % ('package phase' if f is pr else 'driver loop'))


def r14_stash(ctx, rule='R14s'):
    """Every `self.<x> = e` inside a handler has a reachable `raise self.<x>` guarded by `self.<x> is not None`
    after the call that drives the generator."""
    run = ctx.run
    run.rule(rule, 'STASH: an exception stored on self by a handler is re-raised by the code that triggered the generator')
    n = 0
    for m, tr, h in run_path_handlers(ctx):
        if h.name is None:
            continue
        for st in ast.walk(h):
            if isinstance(st, ast.Assign) and isinstance(st.value, ast.Name) and st.value.id == h.name:
                attr = pseudo(st.targets[0])
                if not attr or not attr.startswith('self.'):
                    continue
                n += 1
                cls = ctx.repo.enclosing_class(h)
                raised = False
                aliases = set()
                wheref = None
                for meth in cls.methods.values():
                    # a local that holds the stash (failure = self.exc), bound once in the method
                    binds = {}
                    for a_ in own_nodes(meth.node):
                        if isinstance(a_, ast.Assign) and len(a_.targets) == 1 and isinstance(a_.targets[0], ast.Name):
                            binds.setdefault(a_.targets[0].id, []).append(a_.value)
                    alias = set(k_ for k_, v_ in binds.items() if len(v_) == 1 and pseudo(v_[0]) == attr)
                    for r in own_nodes(meth.node):
                        if isinstance(r, ast.Raise) and r.exc is not None and (pseudo(r.exc) == attr or pseudo(r.exc) in alias):
                            aliases = alias
                            # must come after a call that can run the generator (infer) on every path reaching it
                            raised = True
                            wheref = meth
                run.check(raised, rule, where(ctx.repo, st), fq(ctx.repo, st), st,
                          'the stashed exception %s is never re-raised: a failing source yields an empty resource '
                          'instead of an error' % attr, detail='re-raised in %s' % (wheref.qualname if wheref else None))
                if raised and wheref is not None:
                    # ordering: infer() (which pulls the generator) before the raise test
                    from rules.order import check_order, report_order
                    preds = {'INFER': lambda x: isinstance(x, ast.Call) and isinstance(x.func, ast.Attribute)
                             and x.func.attr == 'infer',
                             'RERAISE': lambda x: isinstance(x, ast.Raise) and x.exc is not None and
                             (pseudo(x.exc) == attr or pseudo(x.exc) in aliases),
                             'READ': lambda x: isinstance(x, ast.Assign) and len(x.targets) == 1 and isinstance(x.targets[0], ast.Name)
                             and x.targets[0].id in aliases and pseudo(x.value) == attr,
                             'ADD': lambda x: isinstance(x, ast.Call) and isinstance(x.func, ast.Attribute)
                             and x.func.attr in ('append', 'extend') and 'resources' in u(x.func.value)}
                    pes, problems = check_order(ctx, rule, wheref, preds, before=[('INFER', 'RERAISE'), ('INFER', 'READ')])
                    # on every path that adds the descriptor, the stash must have been tested before
                    for p, evs in pes:
                        names = [e.name for e in evs]
                        if 'ADD' in names:
                            tested = any(it.kind == 'guard' and ({attr} | aliases) & names_in(it.node) for it in p.items)
                            if not tested:
                                problems[('stash tested before the descriptor is added', wheref.node)] = p
                            # the stash holds an exception object or None: an exception class may define __len__ / __bool__
                            # (an aggregate error raised with an empty list), so the test is against None, never for truth
                            for it in p.items:
                                if it.kind == 'guard' and (pseudo(it.node) == attr or pseudo(it.node) in aliases):
                                    problems[('stash compared with None, not tested for truth', it.node)] = p
                    report_order(ctx, rule, wheref, problems, pes, 'infer() before `raise %s`' % attr,
                                 'the stashed source error is not re-raised after inference')
    run.floor(rule, n, 1, 'stashed exceptions')
    return n


# ---------------------------------------------------------------------- R14m: iteration drivers that swallow StopIteration

SI_DRIVERS = {'builtins.map', 'builtins.filter', 'itertools.starmap', 'itertools.takewhile', 'itertools.dropwhile',
              'itertools.filterfalse', 'itertools.accumulate', 'itertools.groupby'}


def _calls_user_callable(ctx, fi, depth=0, seen=None):
    """Does function fi (or a repository function it calls, depth <= 2, or an override of it) call a user-supplied callable:
    a parameter of an enclosing function, or a `self.<attr>` that is not a method?"""
    seen = seen if seen is not None else set()
    if fi.qualname in seen or depth > 2:
        return None
    seen.add(fi.qualname)
    params = set()
    f = fi
    while isinstance(f, FuncInfo):
        params |= set(f.all_params)
        f = f.parent
    params -= {'self', 'cls'}
    nodes = list(ast.walk(fi.node.body)) if isinstance(fi.node, ast.Lambda) else list(own_nodes(fi.node))
    for c in nodes:
        if not isinstance(c, ast.Call):
            continue
        fn = c.func
        if isinstance(fn, ast.Name) and fn.id in params:
            return '%s calls its parameter %s' % (fi.qualname, fn.id)
        p = pseudo(fn)
        if p and p.startswith('self.') and isinstance(fn, ast.Attribute):
            cls = ctx.repo.enclosing_class(c)
            if cls is not None and ctx.res.lookup_method(cls, fn.attr) is None:
                return '%s calls the stored callable %s' % (fi.qualname, p)
        for t in ctx.res.resolve_call(c):
            if isinstance(t, FuncInfo):
                r = _calls_user_callable(ctx, t, depth + 1, seen)
                if r:
                    return r
    return None


def r14_stopiteration_drivers(ctx, rule='R14m'):
    """map()/filter()/starmap()... drive a callable from C: a StopIteration raised inside the callable propagates as the
    driver's own StopIteration and the consumer takes it for the end of the stream.  A generator frame (for-loop with yield,
    generator expression) converts it into RuntimeError instead (PEP 479)."""
    run = ctx.run
    run.rule(rule, 'NO-SILENT-STOP: no row stream is driven through map / filter / starmap / takewhile ... with a callable that is '
                   '(or reaches) a user-supplied function: a StopIteration raised by it would end the stream silently instead of '
                   'failing the run (generator frames turn it into RuntimeError, PEP 479)')
    n = 0
    for m in ctx.repo.modules.values():
        if m.name == 'dataflows.cli':
            continue
        for c in ast.walk(m.tree):
            if not (isinstance(c, ast.Call) and ctx.res.external_name(c) in SI_DRIVERS and c.args):
                continue
            n += 1
            fn = c.args[0] if ctx.res.external_name(c) not in ('itertools.accumulate', 'itertools.groupby') else \
                (c.args[1] if len(c.args) > 1 else next((k.value for k in c.keywords if k.arg in ('func', 'key')), None))
            if fn is None:
                run.ok(rule, where(ctx.repo, c), u(c)[:100], 'no callable')
                continue
            why = None
            fi = ctx.repo.enclosing_func(c)
            params = set()
            f = fi
            while isinstance(f, FuncInfo):
                params |= set(f.all_params)
                f = f.parent
            if isinstance(fn, ast.Name) and fn.id in params - {'self', 'cls'}:
                why = 'the callable is the parameter %s' % fn.id
            elif isinstance(fn, ast.Lambda):
                why = _calls_user_callable(ctx, ctx.repo.func_of_node[id(fn)])
            else:
                p = pseudo(fn)
                tg = ctx.res._resolve_callee(fn, m, fi)
                fis = [t for t in tg if isinstance(t, FuncInfo)]
                if p and p.startswith('self.') and not fis:
                    why = 'the callable is the stored attribute %s' % p
                for t in fis:
                    why = why or _calls_user_callable(ctx, t)
            run.check(why is None, rule, where(ctx.repo, c), fq(ctx.repo, c), c,
                      'a stream is driven by %s with a callable that can run user code (%s): a StopIteration raised there is '
                      'taken for the end of the stream, the run returns normally with rows missing'
                      % (ctx.res.external_name(c).split('.')[-1], why))
    return n


# ---------------------------------------------------------------------- R14x: __exit__ methods do not swallow
_R14X_CONTROL = '''
class Scope:
    def __exit__(self, exc_type, exc_value, traceback):
        return self.discard()

class Plain:
    def __exit__(self, *exc):
        self.close()
        return False
'''


def _exit_suppresses(fnode):
    """Return expressions of an __exit__ method that may be true: anything but no value / None / False (a true result makes the
    `with` statement swallow the exception in flight)."""
    bad = []
    for n in ast.walk(fnode):
        if isinstance(n, (ast.FunctionDef, ast.AsyncFunctionDef, ast.Lambda)) and n is not fnode:
            continue
        if isinstance(n, ast.Return) and n.value is not None and \
                not (isinstance(n.value, ast.Constant) and n.value.value in (None, False)):
            bad.append(n)
    return bad


def r14_exit_methods(ctx, rule='R14x'):
    """A context manager of the library that answers true from __exit__ swallows whatever was raised inside its `with` block: a
    failing step then looks like a successful run.  (contextlib.suppress and handlers inside @contextmanager generators are handlers
    and belong to R14.)"""
    run, repo = ctx.run, ctx.repo
    run.rule(rule, 'EXIT-NO-SUPPRESS: no __exit__ method defined in the library returns a value that may be true')
    ctl = ast.parse(_R14X_CONTROL)
    got = [c.name for c in ctl.body if isinstance(c, ast.ClassDef) for m in c.body if isinstance(m, ast.FunctionDef) and _exit_suppresses(m)]
    if got != ['Scope']:
        raise AnalysisError('R14x self-check failed: %s' % got)
    n = 0
    for f in sorted(repo.functions.values(), key=lambda f: f.qualname):
        if isinstance(f.node, ast.Lambda) or f.node.name not in ('__exit__', '__aexit__') or f.cls is None:
            continue
        n += 1
        bad = _exit_suppresses(f.node)
        run.check(not bad, rule, where(repo, bad[0]) if bad else f.where, f.qualname, '__exit__ returns None / False',
                  '%s.__exit__ returns %s: when that is true the `with` statement swallows the exception raised inside the block - a '
                  'failure of a step (or of the dumper itself) disappears and the run is reported as successful'
                  % (f.cls.name, u(bad[0].value) if bad else ''))
    if n == 0:
        run.ok(rule, 'dataflows/', 'dataflows', 'no __exit__ method is defined in the library (control example: detected)')
    return n


# ---------------------------------------------------------------------- R14g: leaving a generator early does not keep the work going
def r14_generator_exit(ctx, modules, rule='R14g'):
    """When the consumer of a generator goes away (a later step failed, the run was aborted) the generator is closed: GeneratorExit is
    raised at its yield.  Code that answers this by pulling more from the upstream - draining the current or the remaining resources
    "to finish the job" - resumes the steps before it, and those commit what they were in the middle of: an interrupted checkpoint is
    closed and renamed into place.  Handlers of GeneratorExit / BaseException / a bare except and `finally` blocks of the generators
    in the given modules therefore neither loop over, drain or advance anything, nor yield."""
    from sa.model import is_drain_call
    run, repo, res = ctx.run, ctx.repo, ctx.res
    run.rule(rule, 'NO-WORK-ON-CLOSE: in the generators of %s no handler of GeneratorExit / BaseException / bare except and no finally '
                   'block contains a loop, a drain, next() or a yield' % ', '.join(sorted(m.rsplit('.', 1)[-1] for m in modules)))
    n = 0
    for f in sorted(repo.functions.values(), key=lambda f: f.qualname):
        if f.module.name not in modules or isinstance(f.node, ast.Lambda) or not f.is_generator:
            continue
        n += 1
        bad = None
        for t in own_nodes(f.node):
            if not isinstance(t, ast.Try):
                continue
            blocks = [t.finalbody]
            for h in t.handlers:
                names = []
                if h.type is None:
                    names = ['BaseException']
                else:
                    names = [u(x) for x in (h.type.elts if isinstance(h.type, ast.Tuple) else [h.type])]
                if any(nm.split('.')[-1] in ('GeneratorExit', 'BaseException') for nm in names):
                    blocks.append(h.body)
            for b in blocks:
                for st in b:
                    for x in ast.walk(st):
                        if isinstance(x, (ast.For, ast.While, ast.Yield, ast.YieldFrom)):
                            bad = bad or x
                        if isinstance(x, ast.Call) and (is_drain_call(res, x) or (isinstance(x.func, ast.Name) and x.func.id == 'next')):
                            bad = bad or x
        run.check(bad is None, rule, where(repo, bad) if bad is not None else f.where, f.qualname,
                  'nothing is pulled or yielded while the generator is being closed',
                  'a handler that runs when the generator is closed (its consumer is gone: a later step failed) goes on pulling from the '
                  'upstream: the steps before it resume and commit what the failure interrupted - a checkpoint is closed and renamed '
                  'although the run did not complete')
    return n
