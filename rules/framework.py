"""R1 DISPATCH-EXHAUSTIVE, R2 ISOLATION, R3 ENTRYPOINTS, R4 PAIRING, R5 PKG-PROTOCOL."""
import ast

from sa.deps import Facts, base_name, names_in, pseudo
from sa.loader import AnalysisError, ClassInfo, FuncInfo, own_nodes
from sa.model import (StepPhases, descriptor_aliases, fq, is_drain_call, package_steps, processor_classes, u, where)
from sa.paths import (BREAK, CONTINUE, FALL, RAISE, RETURN, Enumerator, calls_in, eval_order, item_nodes,
                      path_nodes)


def _flow_class(ctx):
    cs = [c for c in ctx.repo.find_class('Flow') if c.module.name == 'dataflows.base.flow']
    if len(cs) != 1:
        raise AnalysisError('class Flow not found in dataflows/base/flow.py')
    return cs[0]


def find_dispatch_loop(ctx):
    """The method of Flow that iterates self._preprocess_chain() and rebinds one variable from calls taking it."""
    flow = _flow_class(ctx)

    def loop_in(m):
        for n in own_nodes(m.node):
            if isinstance(n, ast.For):
                for c in calls_in(n.iter):
                    if isinstance(c.func, ast.Attribute) and c.func.attr == '_preprocess_chain':
                        return n
        return None
    # the method that contains the loop as written; its normalised view (helpers of the loop body inlined) is analysed
    for m0 in flow.methods.values():
        if loop_in(m0) is not None:
            m = ctx.N(m0)
            return flow, m, loop_in(m)
    raise AnalysisError('dispatch loop over self._preprocess_chain() not found in class Flow')


def r1_dispatch(ctx):
    run = ctx.run
    run.rule('R1', 'DISPATCH-EXHAUSTIVE: in the step-dispatch loop of Flow every path through one iteration either '
                   'rebinds the running stream from an expression that uses both the link and the previous stream, '
                   'or raises; the loop walks the chain in source order')
    flow, m, loop = find_dispatch_loop(ctx)
    # loop variable for the link
    tgt = loop.target
    if isinstance(tgt, ast.Tuple):
        link = tgt.elts[-1].id
    else:
        link = tgt.id
    # the running stream variable: the name returned by the method after the loop
    rets = [n for n in own_nodes(m.node) if isinstance(n, ast.Return) and isinstance(n.value, ast.Name)]
    if not rets:
        raise AnalysisError('%s does not return a name' % m.qualname)
    ds = rets[-1].value.id
    # order: iter expression must be the call itself or enumerate(call, ...)
    it = loop.iter
    if isinstance(it, ast.Call) and isinstance(it.func, ast.Name) and it.func.id == 'enumerate':
        it = it.args[0]
    run.check(isinstance(it, ast.Call) and isinstance(it.func, ast.Attribute) and it.func.attr == '_preprocess_chain',
              'R1', where(ctx.repo, loop), m.qualname, loop.iter,
              'the dispatch loop does not iterate the preprocessed chain directly (order-changing wrapper %s)' % u(loop.iter))
    en = Enumerator(cap=4096, where=m.qualname)
    facts = Facts(m, include_nested=False)
    n_paths = 0
    for p in en.body_paths(loop):
        n_paths += 1
        guards = [('' if pol else 'not ') + u(t) for t, pol in p.guards()]
        if p.term == RAISE:
            run.ok('R1', where(ctx.repo, loop), ' & '.join(guards) or '<always>', 'raises')
            continue
        # value of the running stream at the end of the iteration, as an expression over its value at the start
        from sa.pathvals import PathValues
        v = PathValues(p).value(ds)
        good = v is not None and isinstance(v, ast.Call) and ds in names_in(v) and link in names_in(v)
        if good and p.term in (FALL, CONTINUE):
            run.ok('R1', where(ctx.repo, loop), ' & '.join(guards), '%s = %s' % (ds, u(v)))
        else:
            last = p.items[-1].node if p.items else loop
            run.fail('R1', where(ctx.repo, last), m.qualname, ' & '.join(guards) or '<always>',
                     'a link satisfying these tests is silently skipped: the path neither rebinds %r from (link, %s) '
                     'nor raises' % (ds, ds), path=p.describe())
    run.floor('R1', n_paths, 6, 'dispatch paths')
    # nested Flow branch must pass the running stream on
    spliced = False
    for n in ast.walk(loop):
        if isinstance(n, ast.Call) and isinstance(n.func, ast.Attribute) and n.func.attr == '_chain' \
                and isinstance(n.func.value, ast.Name) and n.func.value.id == link:
            spliced = True
            run.check(any(isinstance(a, ast.Name) and a.id == ds for a in n.args) or
                      any(isinstance(k.value, ast.Name) and k.value.id == ds for k in n.keywords),
                      'R1', where(ctx.repo, n), m.qualname, n,
                      'nested Flow is not spliced onto the running stream (%s not passed)' % ds)
    run.check(spliced, 'R1', where(ctx.repo, loop), m.qualname, 'nested-flow branch',
              'no branch splices a nested Flow via link._chain(%s)' % ds)

    # _preprocess_chain of Flow: iterate self.chain in order; each path keeps the link
    pre = flow.methods.get('_preprocess_chain')
    if pre is None:
        raise AnalysisError('Flow._preprocess_chain not found')
    pre = ctx.N(pre)        # (the fold may live in a helper)
    loops = [n for n in own_nodes(pre.node) if isinstance(n, ast.For)]
    if len(loops) != 1:
        raise AnalysisError('Flow._preprocess_chain: expected one loop')
    pl = loops[0]
    from rules.stream import subst_once as _so1
    run.check(pseudo(_so1(pre.node, pl.iter)) == 'self.chain', 'R1', where(ctx.repo, pl), pre.qualname, pl.iter,
              '_preprocess_chain does not iterate self.chain in source order')
    lv = pl.target.id if isinstance(pl.target, ast.Name) else None
    ret = [n for n in own_nodes(pre.node) if isinstance(n, ast.Return) and isinstance(n.value, ast.Name)]
    acc = ret[-1].value.id if ret else None
    for p in Enumerator(where=pre.qualname).body_paths(pl):
        kept = False
        for n in path_nodes(p):
            if isinstance(n, ast.Call) and isinstance(n.func, ast.Attribute) and n.func.attr == 'append' \
                    and pseudo(n.func.value) == acc and n.args and lv in names_in(n.args[0]):
                kept = True
            if isinstance(n, ast.Assign) and any(isinstance(t, ast.Name) and t.id == acc for t in n.targets) \
                    and isinstance(n.value, ast.Call) and lv in names_in(n.value) and acc in names_in(n.value):
                kept = True
        guards = ' & '.join(('' if pol else 'not ') + u(t) for t, pol in p.guards())
        run.check(kept or p.term == RAISE, 'R1', where(ctx.repo, pl), pre.qualname, guards or '<always>',
                  'a chain link is dropped by _preprocess_chain on this path', path=p.describe())


def r1k_dispatch_by_kind(ctx):
    """R1k: the dispatch decided per *kind of link*.  Every path through one iteration of the dispatch loop is replayed, without
    running anything, on a finite set of abstract link values (sa/kinds.py: nested Flow, processor instance, function, bound
    method, partial / callable object, empty and non-empty list / tuple of rows, generator, None, integer): the type tests on
    the path are evaluated three-valued on the kind, and a path that a kind definitely takes must end in the outcome that kind
    calls for - a Flow is spliced, a processor is called on the stream, a callable is wrapped by signature (or rejected), any
    iterable of rows (empty ones included) is loaded as a resource, anything else is rejected."""
    from sa.kinds import KindEval, link_kinds
    from sa.pathvals import PathValues
    from sa.pattern import match_expr
    run = ctx.run
    run.rule('R1k', 'DISPATCH-BY-KIND: for each kind of link (nested Flow, processor, function, bound method, partial / callable '
                    'object, empty / non-empty list or tuple of rows, generator, None, integer) every path of the dispatch loop '
                    'that the kind definitely takes (its type tests evaluated on the kind, vacuous all()/any() over an empty '
                    'collection included) ends in the outcome the kind calls for: splice / call / wrap by signature or reject / '
                    'load as a resource / reject')
    flow, m, loop = find_dispatch_loop(ctx)
    tgt = loop.target
    link = tgt.elts[-1].id if isinstance(tgt, ast.Tuple) else tgt.id
    rets = [n for n in own_nodes(m.node) if isinstance(n, ast.Return) and isinstance(n.value, ast.Name)]
    ds = rets[-1].value.id
    mod = flow.module

    def resolve_helper(f):
        if isinstance(f, ast.Attribute) and isinstance(f.value, ast.Name) and f.value.id in ('self', 'cls', flow.name):
            mi = ctx.res.lookup_method(flow, f.attr)
            return mi.node if mi is not None else None
        if isinstance(f, ast.Name):
            fi = ctx.repo.functions.get('%s:%s' % (mod.name, f.id))
            if fi is not None:
                return fi.node
            # a local lambda / def of the dispatching method
            for n in ast.walk(m.node):
                if isinstance(n, ast.Assign) and len(n.targets) == 1 and isinstance(n.targets[0], ast.Name) and \
                        n.targets[0].id == f.id and isinstance(n.value, ast.Lambda):
                    return n.value
                if isinstance(n, ast.FunctionDef) and n.name == f.id and n is not m.node:
                    return n
        return None

    consts = {}
    for nm, defs in mod.defs.items():
        for d in defs:
            if isinstance(d, tuple) and d[0] == 'assign' and isinstance(d[1], (ast.Tuple, ast.Name, ast.Attribute)):
                consts[nm] = d[1]
    for nm, v in flow.attrs.items():
        if isinstance(v, (ast.Tuple, ast.Name, ast.Attribute)):
            consts.setdefault(nm, v)
    ke = KindEval(resolve_helper, consts)
    KIND_TESTS = {'isinstance', 'callable', 'isfunction', 'isroutine', 'hasattr', 'all', 'any', 'issubclass', 'type', 'len', 'bool'}

    def is_kind_test(t):
        if link not in names_in(t):
            return False
        if isinstance(t, ast.Name):
            return True
        for n in ast.walk(t):
            if isinstance(n, ast.Call):
                fn = n.func.id if isinstance(n.func, ast.Name) else (n.func.attr if isinstance(n.func, ast.Attribute) else None)
                direct = any(isinstance(a, ast.Name) and a.id == link for a in n.args)
                if fn in ('all', 'any') and n.args:
                    a0 = n.args[0]
                    if isinstance(a0, ast.Call) and isinstance(a0.func, ast.Name) and a0.func.id in ('map', 'filter'):
                        direct = direct or any(isinstance(a, ast.Name) and a.id == link for a in a0.args)
                    if isinstance(a0, (ast.GeneratorExp, ast.ListComp)):
                        direct = direct or any(isinstance(g.iter, ast.Name) and g.iter.id == link for g in a0.generators)
                if direct and (fn in KIND_TESTS or resolve_helper(n.func) is not None):
                    return True
            if isinstance(n, ast.UnaryOp) and isinstance(n.op, ast.Not) and isinstance(n.operand, ast.Name) and n.operand.id == link:
                return True
            if isinstance(n, ast.Compare) and isinstance(n.left, ast.Name) and n.left.id == link:
                return True
        return False

    def outcome(p, pv):
        if p.term == RAISE:
            return 'reject'
        v = pv.value(ds)
        if v is None:
            return 'skip'
        if match_expr('%s._chain(%s)' % (link, ds), v) is not None:
            return 'splice'
        if isinstance(v, ast.Call) and v.args and isinstance(v.args[0], ast.Name) and v.args[0].id == ds and len(v.args) == 1:
            f = v.func
            if isinstance(f, ast.Name) and f.id == link:
                return 'call'
            if isinstance(f, ast.Call) and len(f.args) == 1 and isinstance(f.args[0], ast.Name) and f.args[0].id == link \
                    and not f.keywords:
                w = f.func
                return 'load' if (isinstance(w, ast.Name) and w.id == 'iterable_loader') else 'wrap'
        return 'other: %s = %s' % (ds, u(v))

    WANT = {'a nested Flow': {'splice'}, 'a processor instance': {'call'},
            'a plain function / lambda': {'wrap', 'reject'}, 'a bound method': {'wrap', 'reject'},
            'a functools.partial / callable object': {'wrap', 'reject'},
            'an empty list of rows': {'load'}, 'an empty tuple of rows': {'load'}, 'a non-empty list of rows': {'load'},
            'a non-empty tuple of rows': {'load'}, 'a generator of rows': {'load'}, 'None': {'reject'}, 'an integer': {'reject'}}
    paths = list(Enumerator(cap=4096, where=m.qualname).body_paths(loop))
    decided = 0
    for kind in link_kinds():
        taken = []
        for p in paths:
            pv = PathValues(p)
            verdict = True
            for t, pol in pv.guards:
                val = ke.kev(t, {link: kind})
                if val is None:
                    if is_kind_test(t):
                        verdict = None      # a type test this evaluator cannot decide for the kind: say nothing about the path
                        break
                    continue                # a test on something else (signature, parameter names): either way
                if val != pol:
                    verdict = False
                    break
            if verdict:
                taken.append((p, outcome(p, pv)))
        for p, out in taken:
            decided += 1
            guards = ' & '.join(('' if pol else 'not ') + u(t) for t, pol in p.guards())
            if out in WANT[kind.name]:
                run.ok('R1k', where(ctx.repo, loop), '%s -> %s' % (kind.name, out), guards)
            else:
                last = p.items[-1].node if p.items else loop
                run.fail('R1k', where(ctx.repo, last), m.qualname, '%s -> %s' % (kind.name, out),
                         'a link that is %s takes a path that does not %s it (outcome: %s): the link does not take effect as the '
                         'kind of step it is' % (kind.name, ' / '.join(sorted(WANT[kind.name])), out), path=p.describe())
    run.floor('R1k', decided, 12, '(kind, path) pairs decided')


def r2_isolation(ctx):
    run = ctx.run
    run.rule('R2', 'ISOLATION: the Package a step edits is built from copy.deepcopy(<upstream descriptor>); the value '
                   'handed to process_datapackage is that Package; delegating _process overrides return a stream '
                   'obtained from the upstream stream')
    res = ctx.res
    n = 0
    for c in processor_classes(ctx.repo, res) + [k for k in ctx.repo.find_class('DataStream')]:
        m = c.methods.get('_process')
        if m is None:
            continue
        n += 1
        facts = Facts(m, include_nested=False)
        # upstream variable: assigned from self.source._process()
        ups = None
        for nd in own_nodes(m.node):
            if isinstance(nd, ast.Assign) and isinstance(nd.value, ast.Call) and isinstance(nd.value.func, ast.Attribute) \
                    and nd.value.func.attr == '_process' and pseudo(nd.value.func.value) == 'self.source':
                ups = nd.targets[0].id if isinstance(nd.targets[0], ast.Name) else None
        pkgs = [nd for nd in own_nodes(m.node) if isinstance(nd, ast.Call) and res.external_name(nd) in
                ('datapackage.Package', 'datapackage.package.Package')]
        pd_calls = [nd for nd in own_nodes(m.node) if isinstance(nd, ast.Call) and isinstance(nd.func, ast.Attribute)
                    and nd.func.attr == 'process_datapackage']
        if c.name == 'DataStream':
            # the empty source: returns itself
            rets = [nd for nd in own_nodes(m.node) if isinstance(nd, ast.Return)]
            run.check(all(isinstance(r.value, ast.Name) and r.value.id == 'self' for r in rets) and rets,
                      'R2', m.where, m.qualname, 'return self', 'DataStream._process must return the stream itself')
            continue
        if pd_calls:
            if ups is None:
                run.fail('R2', m.where, m.qualname, '_process', 'upstream stream (self.source._process()) not found')
                continue
            for pc in pd_calls:
                arg = pc.args[0] if pc.args else None
                # the argument must (solely) come from a Package(descriptor=deepcopy(ups...))
                ok = False
                src = None
                if arg is not None:
                    cands = [arg] if isinstance(arg, ast.Call) else facts.values_of(pseudo(arg) or '')
                    for v in cands:
                        if isinstance(v, ast.Call) and res.external_name(v) in ('datapackage.Package',
                                                                                  'datapackage.package.Package'):
                            d = None
                            for k in v.keywords:
                                if k.arg == 'descriptor':
                                    d = k.value
                            if d is None and v.args:
                                d = v.args[0]
                            from rules.stream import once_bound as _ob2
                            d = _ob2(m.node, d) if d is not None else d        # (the copy bound to a local first)
                            src = d
                            if isinstance(d, ast.Call) and res.external_name(d) == 'copy.deepcopy' and d.args \
                                    and ups in facts.roots(d.args[0]):
                                ok = True
                run.check(ok, 'R2', where(ctx.repo, pc), m.qualname, pc,
                          'the package handed to process_datapackage is not built from copy.deepcopy of the upstream '
                          'descriptor (found descriptor source: %s): a step would edit its predecessor\'s descriptor'
                          % (u(src) if src is not None else 'none'))
            # no iteration of the upstream res_iter inside _process (laziness, also C06)
        else:
            # delegating override: every return is the upstream stream or <x>.datastream(upstream)
            rets = [nd for nd in own_nodes(m.node) if isinstance(nd, ast.Return)]
            if ups is None or not rets:
                run.fail('R2', m.where, m.qualname, '_process', 'delegating _process: upstream / returns not found')
                continue
            for r in rets:
                v = r.value
                ok = isinstance(v, ast.Name) and v.id == ups
                if isinstance(v, ast.Call) and isinstance(v.func, ast.Attribute) and v.func.attr == 'datastream':
                    ok = any(isinstance(a, ast.Name) and a.id == ups for a in v.args)
                run.check(ok, 'R2', where(ctx.repo, r), m.qualname, r,
                          'delegating _process returns a stream not derived from the upstream stream %r' % ups)
    run.floor('R2', n, 3, '_process implementations')


def r3_entrypoints(ctx):
    run = ctx.run
    run.rule('R3', 'ENTRYPOINTS: Flow.results/process/datastream all go through _chain; DataStreamProcessor.results and '
                   'process share safe_process; safe_process consumes every stream fully on each branch')
    flow = _flow_class(ctx)
    expect = {'results': 'results', 'process': 'process', 'datastream': '_process'}
    for name, inner in expect.items():
        m = flow.methods.get(name)
        if m is None:
            raise AnalysisError('Flow.%s not found' % name)
        from sa.pathvals import returned_values
        vals = returned_values(ctx.N(m, keep=('_chain',)).node, m.qualname)
        ok = bool(vals)
        for v in vals:
            good = False
            if isinstance(v, ast.Call) and isinstance(v.func, ast.Attribute) and v.func.attr == inner:
                b = v.func.value
                if isinstance(b, ast.Call) and isinstance(b.func, ast.Attribute) and b.func.attr == '_chain' \
                        and isinstance(b.func.value, ast.Name) and b.func.value.id == 'self':
                    good = True
                    if name == 'datastream':
                        # the caller's upstream must be passed on
                        p = m.params[1] if len(m.params) > 1 else None
                        good = p is not None and any(isinstance(a, ast.Name) and a.id == p for a in b.args)
            ok = ok and good
        run.check(ok, 'R3', m.where, m.qualname, 'return self._chain(..).%s(..)' % inner,
                  'Flow.%s does not evaluate the same folded chain (self._chain(...).%s(...))' % (name, inner))
    dsp = ctx.repo.cls('dataflows.base.datastream_processor:DataStreamProcessor')
    sp = dsp.methods.get('safe_process')
    if sp is None:
        raise AnalysisError('DataStreamProcessor.safe_process not found')
    for name in ('results', 'process'):
        m = dsp.methods.get(name)
        if m is None:
            raise AnalysisError('DataStreamProcessor.%s not found' % name)
        calls = [n for n in own_nodes(m.node) if isinstance(n, ast.Call) and isinstance(n.func, ast.Attribute)
                 and n.func.attr == 'safe_process' and isinstance(n.func.value, ast.Name) and n.func.value.id == 'self']
        run.check(len(calls) == 1, 'R3', m.where, m.qualname, 'self.safe_process(...)',
                  'DataStreamProcessor.%s does not drive the pipeline through the shared safe_process' % name)
    from sa.pattern import has_stmt, has_expr
    res_m, proc_m = dsp.methods['results'], dsp.methods['process']
    run.check(has_expr('self.safe_process(return_results=True, on_error=on_error)', res_m.node) and
              has_stmt('return (_r, _ds.dp, _ds.merge_stats())', res_m.node), 'R3', res_m.where, res_m.qualname,
              'results(): safe_process(return_results=True, on_error=on_error); return results, dp, merged stats',
              'results() does not collect the rows of every resource with the requested validation policy')
    run.check(has_stmt('return (_ds.dp, _ds.merge_stats())', proc_m.node), 'R3', proc_m.where, proc_m.qualname,
              'process(): return dp, merged stats', 'process() does not return the final package and the merged stats')
    ms = ctx.repo.cls('dataflows.base.datastream:DataStream').methods['merge_stats']
    run.check(has_stmt('for _s in self.stats:\n    _ret.update(_s)', ms.node), 'R3', ms.where, ms.qualname,
              'merge_stats: update in step order', 'stats of the steps are not merged in pipeline order')
    # the driver loop consumes every stream on every path (helpers the loop body was split into are inlined)
    sp = ctx.N(sp)
    facts = Facts(sp, include_nested=False)
    loops = [n for n in own_nodes(sp.node) if isinstance(n, ast.For) and 'res_iter' in u(n.iter)]
    if len(loops) != 1:
        raise AnalysisError('safe_process: driver loop over ds.res_iter not found')
    loop = loops[0]
    var = loop.target.id
    # the stream set must come from self._process()
    src_ok = False
    b = base_name(loop.iter)
    for v in facts.values_of(b or ''):
        if isinstance(v, ast.Call) and isinstance(v.func, ast.Attribute) and v.func.attr == '_process' \
                and isinstance(v.func.value, ast.Name) and v.func.value.id == 'self':
            src_ok = True
    run.check(src_ok, 'R3', where(ctx.repo, loop), sp.qualname, loop.iter,
              'the driver does not iterate the streams of self._process()')
    n = 0
    for p in Enumerator(where=sp.qualname).body_paths(loop):
        n += 1
        consumed = False
        for nd in path_nodes(p, into_loops=True):
            if isinstance(nd, ast.Call):
                if is_drain_call(ctx.res, nd) and nd.args and var in facts.roots(nd.args[0]):
                    consumed = True
                if isinstance(nd.func, ast.Name) and nd.func.id == 'list' and nd.args and var in facts.roots(nd.args[0]):
                    consumed = True
        guards = ' & '.join(('' if pol else 'not ') + u(t) for t, pol in p.guards())
        run.check(consumed and p.term in (FALL, CONTINUE), 'R3', where(ctx.repo, loop), sp.qualname, guards or '<always>',
                  'the driver does not fully consume a resource stream on this path (term=%s)' % p.term,
                  path=p.describe())
    run.floor('R3', n, 3, 'driver paths')


def r4_pairing(ctx):
    run = ctx.run
    run.rule('R4', 'PAIRING: descriptors and streams are paired by a non-truncating zip (zip_longest) and a stream '
                   'without descriptor is rejected by an assertion in ResourceWrapper')
    dsp = ctx.repo.cls('dataflows.base.datastream_processor:DataStreamProcessor')
    gi = dsp.methods.get('get_iterator')
    if gi is None:
        raise AnalysisError('DataStreamProcessor.get_iterator not found')
    zips = []
    # the pairing may sit in get_iterator's closure or in a method it hands out (functools.partial): look in the whole class
    for m_ in dsp.methods.values():
        for n in ast.walk(m_.node):
            if isinstance(n, ast.Call):
                en = ctx.res.external_name(n)
                if en in ('itertools.zip_longest', 'builtins.zip'):
                    zips.append((n, en))
    pair = [z for z in zips if any('datapackage.resources' in u(a) for a in z[0].args)]
    if not pair:
        raise AnalysisError('get_iterator: pairing of self.datapackage.resources with the streams not found')
    for z, en in pair:
        run.check(en == 'itertools.zip_longest', 'R4', where(ctx.repo, z), fq(ctx.repo, z), z,
                  'descriptors and streams are paired with a truncating zip: a surplus stream or descriptor is '
                  'dropped silently instead of failing')
        run.check(len(z.args) == 2 and 'datapackage.resources' in u(z.args[0]), 'R4', where(ctx.repo, z),
                  fq(ctx.repo, z), 'argument order of ' + u(z),
                  'pairing must be (descriptors, streams) in this order')
    rw = ctx.repo.cls('dataflows.base.resource_wrapper:ResourceWrapper')
    init = rw.methods.get('__init__')
    asserts = [n for n in own_nodes(init.node) if isinstance(n, ast.Assert)] if init else []
    param = init.params[1] if init and len(init.params) > 1 else None
    ok = any(param in names_in(a.test) and ('None' in u(a.test) or 'isinstance' in u(a.test)) for a in asserts)
    run.check(ok, 'R4', rw.where, rw.qualname + '.__init__', 'assert %s is not None' % param,
              'ResourceWrapper no longer rejects a stream that has no descriptor')
    # get_res must not return None silently
    gr = dsp.methods.get('get_res')
    if gr is not None:
        asserts = [n for n in own_nodes(gr.node) if isinstance(n, ast.Assert)]
        run.check(any('None' in u(a.test) for a in asserts), 'R4', gr.where, gr.qualname, 'assert ret is not None',
                  'get_res may hand out None for an unknown resource name')


DESCR_MUTATORS = {'append', 'extend', 'update', 'setdefault', 'pop', 'remove', 'insert', 'clear', 'popitem', 'sort',
                  'reverse'}


def descriptor_writes(node, aliases):
    """Stores into objects of the alias class inside `node`: (node, text)."""
    out = []
    for n in ast.walk(node):
        if isinstance(n, (ast.FunctionDef, ast.Lambda)) and n is not node:
            continue
        if isinstance(n, (ast.Assign, ast.AugAssign, ast.AnnAssign)):
            tg = n.targets if isinstance(n, ast.Assign) else [n.target]
            for t in tg:
                for x in ast.walk(t):
                    if isinstance(x, (ast.Subscript, ast.Attribute)) and isinstance(x.ctx, ast.Store):
                        b = base_name(x)
                        if b in aliases and not (isinstance(x, ast.Attribute) and x.attr in ('it',)):
                            out.append((n, u(n)))
        elif isinstance(n, ast.Delete):
            for t in n.targets:
                b = base_name(t)
                if b in aliases and not isinstance(t, ast.Name):
                    out.append((n, u(n)))
        elif isinstance(n, ast.Call) and isinstance(n.func, ast.Attribute) and n.func.attr in DESCR_MUTATORS:
            b = base_name(n.func.value)
            if b in aliases:
                out.append((n, u(n)))
    return out


def _is_pkg_yield(ctx, y, fi):
    """`yield package.pkg` or `yield Package(...)`"""
    v = getattr(y, 'value', None)
    if v is None or isinstance(y, ast.YieldFrom):
        return False
    if isinstance(v, ast.Name) and fi is not None:
        # a local bound (only ever) to `package.pkg`
        vals = [a.value for a in ast.walk(fi.node) if isinstance(a, ast.Assign) and any(isinstance(t, ast.Name) and t.id == v.id for t in a.targets)]
        stores = sum(1 for t in ast.walk(fi.node) if isinstance(t, ast.Name) and t.id == v.id and isinstance(t.ctx, ast.Store))
        if vals and stores == len(vals) and v.id not in fi.params:
            return all(isinstance(x, ast.Attribute) and x.attr == 'pkg' and isinstance(x.value, ast.Name) and x.value.id == 'package' for x in vals)
        return False
    if isinstance(v, ast.Attribute) and v.attr == 'pkg' and isinstance(v.value, ast.Name) and v.value.id == 'package':
        return True
    if isinstance(v, ast.Call) and ctx.res.external_name(v) in ('datapackage.Package', 'datapackage.package.Package'):
        return True
    return False


def r5_pkg_protocol(ctx, floor=21):
    run = ctx.run
    run.rule('R5', 'PKG-PROTOCOL (typestate): in every function-style package step the first yield on every path is the '
                   'package, and no write into the package descriptor is reachable after it (the next step has already '
                   'deep-copied the descriptor by then, so a late write diverges from step-by-step evaluation)')
    steps = package_steps(ctx.repo)
    run.floor('R5', len(steps), floor, 'function-style package steps')
    for fi in steps:
        fi = ctx.N(fi)      # (a step that delegates to a generator helper is read with the helper in place)
        sp = StepPhases(ctx.repo, ctx.res, fi)
        aliases = descriptor_aliases(fi)
        n_ok = 0
        bad = False
        for pre, first, post, term in sp.splits:
            if first is None:
                if term == RAISE:
                    continue
                run.fail('R5', fi.where, fi.qualname, 'path without yield',
                         'a path through the step never yields the package')
                bad = True
                continue
            y, item = first
            if not _is_pkg_yield(ctx, y, fi) or item.kind in ('loop', 'loop_exit'):
                run.fail('R5', where(ctx.repo, y), fi.qualname, y,
                         'the first yield of the step is not the package (found %s)' % u(y))
                bad = True
                continue
            # late descriptor writes
            for it in post:
                nodes = [it.node] if it.kind in ('stmt', 'loop', 'opaque_if', 'assert', 'return') else []
                if it.kind == 'loop_exit':
                    nodes = [it.node]
                for nd in nodes:
                    for w, txt in descriptor_writes(nd, aliases):
                        run.fail('R5', where(ctx.repo, w), fi.qualname, txt,
                                 'package descriptor is written after the package was yielded; downstream steps '
                                 'never see this edit')
                        bad = True
                # a second yield of the package
                for nd in ([it.node] if it.kind in ('stmt', 'loop') else []):
                    for x in ast.walk(nd):
                        if isinstance(x, ast.Yield) and _is_pkg_yield(ctx, x, fi):
                            run.fail('R5', where(ctx.repo, x), fi.qualname, x, 'the package is yielded twice')
                            bad = True
            n_ok += 1
        if not bad:
            run.ok('R5', fi.where, fi.qualname, '%d paths, first yield = package, no late descriptor write' % n_ok)
    # helper class datapackage_processor
    dpp = ctx.repo.cls('dataflows.helpers.datapackage_processor:datapackage_processor')
    pd = dpp.methods.get('process_datapackage')
    pr = dpp.methods.get('process_resources')
    if pd is None or pr is None:
        raise AnalysisError('datapackage_processor methods not found')
    has_next = any(isinstance(n, ast.Call) and isinstance(n.func, ast.Name) and n.func.id == 'next'
                   and n.args and pseudo(n.args[0]) == 'self.dp_processor' for n in own_nodes(pd.node))
    run.check(has_next, 'R5', pd.where, pd.qualname, 'next(self.dp_processor)',
              'the package phase of a package function is not run (next() on the generator) during process_datapackage')
    # self.dp.it = res_iter precedes `yield from self.dp_processor`
    order_ok = False
    from rules.stream import once_bound as _so5
    param = pr.params[1] if len(pr.params) > 1 else None
    for p in Enumerator(where=pr.qualname).paths(pr.node.body):
        seen_bind = False
        for n in path_nodes(p):
            if isinstance(n, ast.Assign) and any(isinstance(t, ast.Attribute) and t.attr == 'it' for t in n.targets) \
                    and isinstance(n.value, ast.Name) and n.value.id == param:
                seen_bind = True
            if isinstance(n, ast.YieldFrom) and pseudo(_so5(pr.node, n.value)) == 'self.dp_processor':     # (or a local bound once to it)
                order_ok = seen_bind
    run.check(order_ok, 'R5', pr.where, pr.qualname, 'self.dp.it = res_iter; yield from self.dp_processor',
              'the upstream streams are not bound to the package wrapper before the package function resumes')
    return steps


# ---------------------------------------------------------------------- R1m the interpretation of a link depends on the link alone

def r1m_stateless_dispatch(ctx, rule='R1m'):
    """How Flow._chain interprets a link (nested flow / processor / row, rows or package function / iterable) is a function of that
    link.  A module-level container that the dispatch code (with its helpers) both fills and consults - a memo keyed by code object,
    by class, by name - makes the answer for one link depend on the links that were chained before it, in this or any other Flow of
    the process: two partials, two callable objects of one class, two lambdas sharing a code object then get one answer."""
    run, repo = ctx.run, ctx.repo
    run.rule(rule, 'STATELESS-DISPATCH: the code that decides what a link is reads no module-level mutable container that the library '
                   'also writes (no memo of earlier decisions): the interpretation of a link depends on the link alone')
    fl = repo.cls('dataflows.base.flow:Flow')
    ch = fl.methods.get('_chain')
    if ch is None:
        raise AnalysisError('Flow._chain not found')
    chn = ctx.N(ch)
    mod = ch.module
    containers = {}
    for st in mod.tree.body:
        if isinstance(st, ast.Assign) and len(st.targets) == 1 and isinstance(st.targets[0], ast.Name):
            v = st.value
            if isinstance(v, (ast.Dict, ast.List, ast.Set)) or (isinstance(v, ast.Call) and u(v.func) in (
                    'dict', 'list', 'set', 'collections.OrderedDict', 'collections.defaultdict', 'weakref.WeakKeyDictionary',
                    'weakref.WeakValueDictionary', 'OrderedDict', 'defaultdict')):
                containers[st.targets[0].id] = st
    written = set()
    for n in ast.walk(mod.tree):
        if isinstance(n, ast.Subscript) and isinstance(n.ctx, (ast.Store, ast.Del)) and isinstance(n.value, ast.Name) and n.value.id in containers:
            written.add(n.value.id)
        if isinstance(n, ast.Call) and isinstance(n.func, ast.Attribute) and isinstance(n.func.value, ast.Name) and \
                n.func.value.id in containers and n.func.attr in ('append', 'extend', 'add', 'update', 'setdefault', 'insert', 'pop', 'clear'):
            written.add(n.func.value.id)
    # also reached through functools.lru_cache / functools.cache on a helper the dispatch calls
    cached = []
    for c in ast.walk(chn.node):
        if isinstance(c, ast.Call):
            for t in ctx.res.resolve_call(c):
                if isinstance(t, FuncInfo) and not isinstance(t.node, ast.Lambda) and t.module is mod and \
                        any('cache' in u(d) for d in t.node.decorator_list):
                    cached.append((c, t))
    bad = [n for n in ast.walk(chn.node) if isinstance(n, ast.Name) and isinstance(n.ctx, ast.Load) and n.id in written]
    for n in bad[:1]:
        run.fail(rule, where(repo, n), ch.qualname, 'dispatch consults %s' % n.id,
                 'the dispatch of a link consults the module-level container %s, which the library fills while chaining: what a link is '
                 'taken for depends on the links chained before it (a memo keyed by code object / class answers for every partial, '
                 'every instance of a class, every lambda sharing a code object alike)' % n.id)
    for c, t in cached[:1]:
        run.fail(rule, where(repo, c), ch.qualname, 'dispatch through cached %s' % t.qualname,
                 'the dispatch of a link goes through a memoised helper (%s): links that compare equal as cache keys get one answer' % t.qualname)
    if not bad and not cached:
        run.ok(rule, ch.where, ch.qualname, 'no module-level container of %s is consulted (%d defined, %d written)'
               % (mod.name, len(containers), len(written)))


def r1c_chain_complete(ctx, rule='R1c'):
    """Every link given to Flow(...) reaches the dispatch: the constructor stores the argument tuple as it is (or a plain copy), and
    the pass that folds the chain around its checkpoints hands every link on.  A link that is dropped on the way (a falsy one, say:
    an empty list is a valid source of a resource without rows) is a step that lazy evaluation skips and step-by-step evaluation
    performs."""
    run, repo = ctx.run, ctx.repo
    run.rule(rule, 'CHAIN-COMPLETE: Flow.__init__ keeps all its links (the vararg itself, tuple(..) / list(..) of it); the '
                   'checkpoint fold appends every link or hands the links so far to the checkpoint; nothing is filtered')
    fl = repo.cls('dataflows.base.flow:Flow')
    ini = fl.methods.get('__init__')
    if ini is None or ini.node.args.vararg is None:
        raise AnalysisError('Flow.__init__(*links) not found')
    va = ini.node.args.vararg.arg
    inn = ctx.N(ini)
    stores = [a for a in ast.walk(inn.node) if isinstance(a, ast.Assign) and any(pseudo(t) == 'self.chain' for t in a.targets)]
    if len(stores) != 1:
        raise AnalysisError('Flow.__init__: the one store into self.chain was not found')
    from rules.stream import subst_once
    v = subst_once(inn.node, stores[0].value)
    plain = pseudo(v) == va or (isinstance(v, ast.Call) and isinstance(v.func, ast.Name) and v.func.id in ('tuple', 'list')
                                and len(v.args) == 1 and not v.keywords and pseudo(v.args[0]) == va) or \
        (isinstance(v, (ast.List, ast.Tuple)) and len(v.elts) == 1 and isinstance(v.elts[0], ast.Starred) and pseudo(v.elts[0].value) == va)
    run.check(plain, rule, where(repo, stores[0]), ini.qualname, 'self.chain = <all links>',
              'the links a Flow was given are filtered or transformed before they are stored (%s): a link that is dropped - an empty '
              'list is a valid source of a resource without rows - is performed by step-by-step evaluation and skipped by the chain'
              % u(stores[0].value))
    pp = fl.methods.get('_preprocess_chain')
    if pp is None:
        raise AnalysisError('Flow._preprocess_chain not found')
    ppn = ctx.N(pp)
    loops = [l for l in own_nodes(ppn.node) if isinstance(l, ast.For) and 'self.chain' in u(subst_once(ppn.node, l.iter))
             and isinstance(l.target, ast.Name)]
    if len(loops) != 1:
        raise AnalysisError('Flow._preprocess_chain: the loop over self.chain was not found')
    lp = loops[0]
    link = lp.target.id
    ok = True
    n = 0
    for p in Enumerator(where=pp.qualname).body_paths(lp):
        n += 1
        nodes = [x for x in path_nodes(p)]
        kept = any(isinstance(c, ast.Call) and isinstance(c.func, ast.Attribute) and c.func.attr == 'append' and c.args
                   and pseudo(c.args[0]) == link for c in nodes)
        handed = any(isinstance(c, ast.Call) and isinstance(c.func, ast.Attribute) and c.func.attr == 'handle_flow_checkpoint'
                     and pseudo(c.func.value) == link for c in nodes)
        ok = ok and (kept or handed) and p.term in (FALL, CONTINUE)
    run.check(ok and n >= 2, rule, where(repo, lp), pp.qualname, 'every link is appended or folds the links before it',
              'a link is dropped while the chain is folded around its checkpoints')


def r1a_arity(ctx, rule='R1a'):
    """A user callable is taken for a row / rows / package step only if it has exactly one parameter: with more, the framework
    cannot call it (the wrappers pass one argument), and the failure would surface only when the first row arrives - not at all on
    an empty stream, where the link is then silently skipped."""
    run, repo = ctx.run, ctx.repo
    run.rule(rule, 'ARITY: the dispatch takes a function for a step only under `len(<its parameters>) == 1`')
    ch = repo.cls('dataflows.base.flow:Flow').methods.get('_chain')
    chn = ctx.N(ch)
    tests = [t for t in ast.walk(chn.node) if isinstance(t, ast.Compare) and isinstance(t.left, ast.Call) and u(t.left.func) == 'len'
             and len(t.ops) == 1 and isinstance(t.comparators[0], ast.Constant)]
    from rules.stream import subst_once
    arity = [t for t in tests if 'signature' in u(subst_once(chn.node, t.left)).lower() or 'param' in u(t.left).lower()]
    if not arity:
        raise AnalysisError('Flow._chain: the test on the number of parameters of a user callable was not found')
    for t in arity:
        # (`== 1` on the accepting side or `!= 1` on the rejecting side: the partition is at exactly one parameter either way; which
        # side does what is R1's question)
        run.check(isinstance(t.ops[0], (ast.Eq, ast.NotEq)) and t.comparators[0].value == 1, rule, where(repo, t), ch.qualname, u(t),
                  'a callable with more (or fewer) than one parameter is accepted as a step: the framework cannot call it, and on an '
                  'empty stream nobody notices - the link is silently skipped instead of being rejected')
