"""Generic defect patterns decided on the files a property is anchored in (properties.jsonl: anchors.files), before the
property-specific rules run: R31 SHARED-CLASS-STATE, R32 LATE-BINDING, R33 GROUPBY-RUNS, R34 RUN-IDEMPOTENCE, R35 STATEFUL-DEFAULTS.  They are not tied to one statement of
the library: each names a construct whose meaning differs from what it looks like (one dict for all instances; a closure that sees
the last iteration; groups that are only runs), and each is a necessary condition of every property whose code it sits in."""
import json
import os

from rules import independence

VERIF = os.path.dirname(os.path.dirname(os.path.abspath(__file__)))

# code the anchored files delegate to and that upholds the same property
EXTRA = {
    # (validate is one of the observers the property names; the anchors list the others)
    'C05': ['dataflows/processors/dumpers/formats/', 'dataflows/processors/validate.py', 'dataflows/processors/dumpers/to_path.py',
            'dataflows/processors/dumpers/to_zip.py'],
    'C09': ['dataflows/processors/dumpers/formats/'],
    'C19': ['dataflows/processors/dumpers/formats/', 'dataflows/processors/dumpers/to_zip.py'],
    'C03': ['dataflows/processors/dumpers/formats/'],
    'C06': ['dataflows/processors/dumpers/formats/', 'dataflows/processors/dumpers/dumper_base.py'],
    # the checkpoint is handed the links that precede it by Flow._preprocess_chain, on every run
    'C08': ['dataflows/base/flow.py'],
}


def anchor_files(prop):
    with open(os.path.join(VERIF, 'properties.jsonl')) as fh:
        for ln in fh:
            p = json.loads(ln)
            if p['id'] == prop:
                return list(p['anchors'].get('files', [])) + EXTRA.get(prop, [])
    return []


def run_generic(ctx, prop):
    files = anchor_files(prop)

    def in_scope(relpath):
        return any(relpath == f or (f.endswith('/') and relpath.startswith(f)) for f in files)
    n31 = independence.r31_shared_class_state(ctx, include=lambda c: in_scope(c.module.relpath))
    n32 = independence.r32_late_binding(ctx, include=lambda f: in_scope(f.module.relpath))
    n33 = independence.r33_groupby_runs(ctx, include=lambda f: in_scope(f.module.relpath))
    n34 = 0
    if prop != 'C07':       # C07 applies R34 to the whole library
        n34 = independence.r34_run_idempotence(ctx, include=lambda c: in_scope(c.module.relpath))
        n34 += independence.r34_closure_state(ctx, include=lambda f: in_scope(f.module.relpath))
    n35 = independence.r35_stateful_defaults(ctx, include=lambda m: in_scope(m.relpath))
    independence.r36_module_state(ctx, include=lambda m: in_scope(m.relpath))
    ctx.run.note('generic patterns on the anchored files: %d modules checked for default-argument objects their function changes (R35); ' % n35 +
                 ' %d class-level containers (R31), %d functions creating closures in loops '
                 '(R32), %d itertools.groupby sites (R33), %d step classes / step factories checked for state a run leaves to the '
                 'next (R34)' % (n31, n32, n33, n34))
