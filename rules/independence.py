"""R28 ITERATION-INDEPENDENCE: what a row-wise (or field-wise) loop produces for one item depends on that item alone —
no state written while handling earlier items is read when handling a later one, except the state listed per function."""
import ast

from sa.deps import Facts, base_name, names_in, pseudo
from sa.loader import AnalysisError, FuncInfo, own_nodes
from sa.model import fq, u, where

MUT = {'append', 'add', 'extend', 'update', 'setdefault', 'insert', 'pop', 'remove', 'clear', 'discard', 'popitem', 'appendleft'}


def _targets(t):
    if isinstance(t, ast.Name):
        yield t.id
    elif isinstance(t, (ast.Tuple, ast.List)):
        for e in t.elts:
            yield from _targets(e)
    elif isinstance(t, ast.Starred):
        yield from _targets(t.value)


def definitely_assigns(st, nm):
    if isinstance(st, ast.Assign):
        return any(nm in set(_targets(t)) for t in st.targets)
    if isinstance(st, ast.AnnAssign):
        return st.value is not None and nm in set(_targets(st.target))
    if isinstance(st, ast.If):
        return bool(st.orelse) and any(definitely_assigns(x, nm) for x in st.body) and \
            any(definitely_assigns(x, nm) for x in st.orelse)
    if isinstance(st, ast.Try):
        body_ok = any(definitely_assigns(x, nm) for x in st.body)
        handlers_ok = all(any(definitely_assigns(x, nm) for x in h.body) or _always_leaves(h.body) for h in st.handlers)
        return (body_ok and handlers_ok) or any(definitely_assigns(x, nm) for x in st.finalbody)
    if isinstance(st, (ast.With,)):
        if any(i.optional_vars is not None and nm in set(_targets(i.optional_vars)) for i in st.items):
            return True
        return any(definitely_assigns(x, nm) for x in st.body)
    return False


def _always_leaves(stmts):
    return bool(stmts) and isinstance(stmts[-1], (ast.Raise, ast.Continue, ast.Break, ast.Return))


def loop_carried(fi, loop, current=(), ctx=None):
    """Names whose value written in one iteration of `loop` can be read in a later iteration.
    -> dict name -> (write node, read node)"""
    loopvars = (set(_targets(loop.target)) if isinstance(loop, ast.For) else set()) | set(current)
    body = loop.body
    writes = {}      # name -> [node]
    via_call = set()
    for st in body:
        for n in ast.walk(st):
            if isinstance(n, (ast.FunctionDef, ast.Lambda)):
                continue
            if isinstance(n, ast.Assign):
                for t in n.targets:
                    for nm in _targets(t):
                        writes.setdefault(nm, []).append(n)
                    if isinstance(t, (ast.Subscript, ast.Attribute)):
                        b = pseudo(t) if isinstance(t, ast.Attribute) and pseudo(t) else base_name(t)
                        if b:
                            writes.setdefault(b, []).append(n)
            elif isinstance(n, ast.AugAssign):
                b = pseudo(n.target) or base_name(n.target)
                if b:
                    writes.setdefault(b, []).append(n)
            elif isinstance(n, ast.Call) and isinstance(n.func, ast.Attribute) and n.func.attr in MUT:
                b = pseudo(n.func.value) or base_name(n.func.value)
                if b:
                    writes.setdefault(b, []).append(n)
            elif isinstance(n, (ast.For, ast.comprehension)):
                for nm in _targets(n.target):
                    writes.setdefault(nm, []).append(n)
            elif isinstance(n, ast.NamedExpr):
                writes.setdefault(n.target.id, []).append(n)
            elif isinstance(n, ast.ExceptHandler) and n.name:
                writes.setdefault(n.name, []).append(n)
            elif isinstance(n, ast.withitem) and n.optional_vars is not None:
                for nm in _targets(n.optional_vars):
                    writes.setdefault(nm, []).append(n)
    # a container defined outside the loop and handed, inside the loop, to a repository function that mutates that parameter
    if ctx is not None:
        assigned_in_body = set(writes)
        for st in body:
            for n in ast.walk(st):
                if not isinstance(n, ast.Call):
                    continue
                for i, a in enumerate(n.args):
                    nm = pseudo(a)
                    if nm is None or nm in loopvars or nm in assigned_in_body:
                        continue
                    for t in ctx.res.resolve_call(n):
                        if isinstance(t, FuncInfo) and not isinstance(t.node, ast.Lambda):
                            ps = [p for p in t.params if p not in ('self', 'cls')]
                            if i < len(ps) and _mutates_and_reads(t, ps[i]):
                                writes.setdefault(nm, []).append(n)
                                via_call.add(nm)
    carried = {}
    for nm in via_call:
        carried[nm] = (writes[nm][0], writes[nm][0])
    for nm, ws in writes.items():
        if nm in loopvars:
            continue
        # objects rooted at the loop variable (row[...] = ..) belong to the current item
        if any(nm == v or nm.startswith(v + '.') for v in loopvars):
            continue
        # first statement of the body that definitely (on every path through it) assigns the name
        first_def = None
        for i, st in enumerate(body):
            if definitely_assigns(st, nm):
                first_def = i
                break
        # reads of the name before that definition (or anywhere, if there is none)
        for i, st in enumerate(body):
            if first_def is not None and i > first_def:
                break
            for n in ast.walk(st):
                if isinstance(n, ast.Name) and n.id == nm.split('.')[0] and isinstance(n.ctx, ast.Load):
                    full = n
                    # self.x pseudo names
                    par = getattr(n, '_parent', None)
                    if '.' in nm:
                        if not (isinstance(par, ast.Attribute) and pseudo(par) == nm):
                            continue
                        full = par
                        par = getattr(par, '_parent', None)
                    # skip the receiver position of the very mutation / subscript-store that writes it
                    if isinstance(par, ast.Attribute) and isinstance(getattr(par, '_parent', None), ast.Call) \
                            and par._parent.func is par and par.attr in MUT and par._parent in ws:
                        continue
                    if isinstance(par, ast.Subscript) and isinstance(par.ctx, ast.Store):
                        continue
                    if first_def is not None and i == first_def:
                        # read inside the defining statement's own value: `x = f(x)` is carried
                        st_ = body[i]
                        if isinstance(st_, ast.Assign) and n in list(ast.walk(st_.value)):
                            carried.setdefault(nm, (ws[0], n))
                        continue
                    if first_def is not None and i < first_def or first_def is None:
                        # written somewhere in the body and read without a fresh definition first
                        defined_inside_only = _is_local_fresh(nm, body, n)
                        if not defined_inside_only:
                            carried.setdefault(nm, (ws[0], n))
    return carried


def _is_local_fresh(nm, body, read):
    """Is the read dominated by an assignment to nm inside the same nested block (e.g. `for k, v in ..: x = ..; use x`)?"""
    node = read
    while getattr(node, '_parent', None) is not None:
        parent = node._parent
        for fld in ('body', 'orelse', 'finalbody'):
            blk = getattr(parent, fld, None)
            if isinstance(blk, list) and node in blk:
                for st in blk[:blk.index(node)]:
                    if definitely_assigns(st, nm):
                        return True
        if isinstance(parent, (ast.For, ast.comprehension)) and nm in set(_targets(parent.target)):
            return True
        if isinstance(parent, ast.ExceptHandler) and parent.name == nm:
            return True
        if isinstance(parent, (ast.ListComp, ast.SetComp, ast.DictComp, ast.GeneratorExp)):
            if any(nm in set(_targets(g.target)) for g in parent.generators):
                return True
        if parent in body:
            return False
        node = parent
    return False


def r28_independence(ctx, loops, rule='R28'):
    """loops: list of (FuncInfo, loop node, allowed: dict name -> reason)"""
    run = ctx.run
    run.rule(rule, 'ITERATION-INDEPENDENCE: in a row-wise / field-wise loop nothing written while handling one item is read while '
                   'handling a later item, except the explicitly listed state (counters, seen-key sets, ...): caches, "first row '
                   'decides" shortcuts and sticky overrides make the result for one row depend on its predecessors')
    n = 0
    for fi, loop, allowed in loops:
        n += 1
        carried = loop_carried(fi, loop)
        bad = {k: v for k, v in carried.items() if k not in allowed}
        if not bad:
            run.ok(rule, where(ctx.repo, loop), '%s: loop over %s' % (fi.qualname, u(loop.iter) if isinstance(loop, ast.For) else u(loop.test)),
                   'carried state: %s' % (sorted(carried) or 'none'))
            continue
        for nm, (w, r) in sorted(bad.items()):
            run.fail(rule, where(ctx.repo, r), fi.qualname, 'state %s carried across iterations of the loop over %s'
                     % (nm, u(loop.iter) if isinstance(loop, ast.For) else u(loop.test)),
                     'the value handled for one item depends on %r, which is written while handling earlier items (line %d): '
                     'the step is no longer a function of the current item alone' % (nm, getattr(w, 'lineno', 0)))
    return n


def _mutates_and_reads(fi, param):
    mut = read = False
    for n in ast.walk(fi.node):
        if isinstance(n, ast.Call) and isinstance(n.func, ast.Attribute) and n.func.attr in MUT and pseudo(n.func.value) == param:
            mut = True
        elif isinstance(n, (ast.Assign, ast.AugAssign)):
            tg = n.targets if isinstance(n, ast.Assign) else [n.target]
            if any(isinstance(t, ast.Subscript) and base_name(t) == param for t in tg):
                mut = True
        if isinstance(n, ast.Compare) and any(pseudo(c) == param for c in n.comparators):
            read = True
        if isinstance(n, ast.Subscript) and isinstance(n.ctx, ast.Load) and pseudo(n.value) == param:
            read = True
        if isinstance(n, ast.Call) and isinstance(n.func, ast.Attribute) and n.func.attr in ('get', 'items', 'keys', 'values') \
                and pseudo(n.func.value) == param:
            read = True
    return mut and read


def carried_kind(loop, nm):
    """Use-kind of a carried name inside `loop`: SEEN (only .add / membership), COUNTER (only += constant, compared / passed on),
    FLAG (only constants assigned, only truth-tested), BUFFER (list of derived values: append / clear / slicing / len / indexing),
    WRITE_ONCE (assigned only under an `is None` test of itself), TABLE (subscript stores and lookups), OTHER."""
    writes, reads = [], []
    for st in loop.body:
        for n in ast.walk(st):
            if isinstance(n, ast.Call) and isinstance(n.func, ast.Attribute) and pseudo(n.func.value) == nm:
                (writes if n.func.attr in MUT else reads).append(('call', n.func.attr, n))
            elif isinstance(n, ast.AugAssign) and pseudo(n.target) == nm:
                writes.append(('aug', n, n))
            elif isinstance(n, ast.Assign):
                for t in n.targets:
                    if pseudo(t) == nm:
                        writes.append(('assign', n.value, n))
                    elif isinstance(t, ast.Subscript) and base_name(t) == nm:
                        writes.append(('setitem', n.value, n))
            elif isinstance(n, ast.Compare) and (pseudo(n.left) == nm or any(pseudo(c) == nm for c in n.comparators)):
                ops = n.ops
                if any(isinstance(o, (ast.In, ast.NotIn)) for o in ops) and any(pseudo(c) == nm for c in n.comparators):
                    reads.append(('member', None, n))
                elif any(isinstance(o, (ast.Is, ast.IsNot)) for o in ops):
                    reads.append(('isnone', None, n))
                else:
                    reads.append(('compare', None, n))
            elif isinstance(n, ast.Subscript) and isinstance(n.ctx, ast.Load) and pseudo(n.value) == nm:
                reads.append(('getitem', None, n))
    wk = set(w[0] if w[0] != 'call' else 'call:' + w[1] for w in writes)
    rk = set(r[0] if r[0] != 'call' else 'call:' + r[1] for r in reads)
    if wk and wk <= {'call:add', 'call:update'} and rk <= {'member'}:
        return 'SEEN'
    if wk and wk <= {'aug', 'assign'} and all((w[0] == 'aug' and isinstance(w[1].value, ast.Constant)) or
                                                (w[0] == 'assign' and isinstance(w[1], ast.Constant) and isinstance(w[1].value, int))
                                                or (w[0] == 'aug' and isinstance(w[1].op, ast.Mult)) for w in writes) \
            and rk <= {'compare'}:
        return 'COUNTER'
    if wk == {'assign'} and all(isinstance(w[1], ast.Constant) for w in writes) and not (rk - {'compare'}):
        return 'FLAG'
    if wk == {'assign'} and all(_guarded_by_isnone(w[2], nm, loop) for w in writes):
        return 'WRITE_ONCE'
    if wk and wk <= {'call:append', 'call:clear', 'call:extend', 'assign', 'call:pop', 'aug'} and \
            rk <= {'getitem', 'compare', 'call:index', 'call:count'}:
        return 'BUFFER'
    if 'setitem' in wk or 'call:setdefault' in wk:
        return 'TABLE'
    return 'OTHER'


def _guarded_by_isnone(node, nm, loop):
    p = getattr(node, '_parent', None)
    while p is not None and p is not loop:
        if isinstance(p, ast.If) and isinstance(p.test, ast.Compare) and pseudo(p.test.left) == nm \
                and isinstance(p.test.ops[0], ast.Is) and isinstance(p.test.comparators[0], ast.Constant) \
                and p.test.comparators[0].value is None:
            return True
        p = getattr(p, '_parent', None)
    return False


def loops_of(fi):
    """(loop, enclosing loop variables) for every for-loop of fi, outermost first."""
    out = []

    def assigned_names(st):
        names = set()
        for n in ast.walk(st):
            if isinstance(n, ast.Assign):
                for t in n.targets:
                    names |= set(_targets(t))
        return names

    def visit(stmts, current, in_loop=False):
        current = list(current)
        for st in stmts:
            if isinstance(st, (ast.FunctionDef, ast.AsyncFunctionDef, ast.ClassDef)):
                continue
            if isinstance(st, ast.For):
                out.append((st, tuple(current)))
                visit(st.body, current + list(_targets(st.target)), True)
                visit(st.orelse, current, in_loop)
            else:
                for fld in ('body', 'orelse', 'finalbody'):
                    b = getattr(st, fld, None)
                    if isinstance(b, list):
                        visit(b, current, in_loop)
                if isinstance(st, ast.Try):
                    for h in st.handlers:
                        visit(h.body, current, in_loop)
            if in_loop:
                # per-item state: names this statement definitely (re)defines belong to the current item from here on
                for nm in assigned_names(st):
                    if definitely_assigns(st, nm) and nm not in current:
                        current.append(nm)
    visit(fi.node.body, [])
    return out


def via_names(carried, k):
    w, r = carried[k]
    return {k} if (w is r and isinstance(w, ast.Call) and not (isinstance(w.func, ast.Attribute) and w.func.attr in MUT)) else set()


def r28_functions(ctx, specs, rule='R28'):
    """specs: list of (qualified function name, {allowed carried name: reason})"""
    run = ctx.run
    run.rule(rule, 'ITERATION-INDEPENDENCE: in a row-wise / field-wise loop nothing written while handling one item is read while '
                   'handling a later item, except the explicitly listed state (counters, seen-key sets, ...): caches, "first row '
                   'decides" shortcuts and sticky overrides make the result for one row depend on its predecessors')
    n = 0
    for q, allowed in specs:
        fi = q if hasattr(q, 'qualname') else ctx.repo.func(q)
        fi = ctx.N(fi)      # a loop that moved into a chained generator / helper is still this function's loop
        lps = loops_of(fi)
        if not lps:
            run.fail(rule, fi.where, fi.qualname, 'no loop', 'row-wise function has no loop any more')
            continue
        bad_any = False
        for loop, current in lps:
            n += 1
            carried = loop_carried(fi, loop, current, ctx)
            kinds = allowed.get('__kinds__', ()) if isinstance(allowed, dict) else ()
            bad = {}
            import re as _re28
            for k, v in carried.items():
                if k in allowed or _re28.sub(r'__i\d+$', '', k) in allowed:      # (a local of an inlined helper keeps its role)
                    continue
                kd = carried_kind(loop, k) if k not in via_names(carried, k) else 'EXTERNAL'
                if kd in kinds:
                    continue
                bad[k] = v
            for nm, (w, r) in sorted(bad.items()):
                bad_any = True
                run.fail(rule, where(ctx.repo, r), fi.qualname, 'state %s carried across iterations of `for %s in %s`'
                         % (nm, u(loop.target), u(loop.iter)),
                         'what is produced for one item depends on %r, which is written while handling earlier items (line %d): '
                         'the step is no longer a function of the current item alone' % (nm, getattr(w, 'lineno', 0)))
        if not bad_any:
            run.ok(rule, fi.where, fi.qualname, '%d loop(s), carried state only %s' % (len(lps), sorted(allowed) or 'none'))
    return n


# ---------------------------------------------------------------------- R31 SHARED-CLASS-STATE

_MUTABLE_CTORS = {'dict', 'list', 'set', 'defaultdict', 'OrderedDict', 'Counter', 'deque', 'bytearray'}


def _is_mutable_literal(v):
    if isinstance(v, (ast.Dict, ast.List, ast.Set, ast.DictComp, ast.ListComp, ast.SetComp)):
        return True
    if isinstance(v, ast.Call):
        f = v.func
        nm = f.id if isinstance(f, ast.Name) else (f.attr if isinstance(f, ast.Attribute) else None)
        return nm in _MUTABLE_CTORS
    return False


def shared_class_state(class_node, subclass_nodes=()):
    """Class-level mutable containers of `class_node` that some method (of the class or of a subclass) mutates in place through
    self / cls / the class name, without the class giving each instance its own container first.
    -> [(attribute, mutating node)], [attributes inspected]"""
    attrs = {}
    for st in class_node.body:
        tgts = st.targets if isinstance(st, ast.Assign) else ([st.target] if isinstance(st, ast.AnnAssign) and st.value is not None else [])
        for t in tgts:
            if isinstance(t, ast.Name) and _is_mutable_literal(st.value):
                attrs[t.id] = st.value
    if not attrs:
        return [], []
    recv = {'self', 'cls', class_node.name} | {c.name for c in subclass_nodes}
    methods = [m for c in (class_node,) + tuple(subclass_nodes) for m in c.body if isinstance(m, (ast.FunctionDef, ast.AsyncFunctionDef))]
    # an instance gets its own container when __init__ (of the class) assigns self.<attr> unconditionally
    own = set()
    for m in class_node.body:
        if isinstance(m, ast.FunctionDef) and m.name == '__init__':
            for st in m.body:
                if isinstance(st, ast.Assign):
                    for t in st.targets:
                        if isinstance(t, ast.Attribute) and isinstance(t.value, ast.Name) and t.value.id == 'self' and t.attr in attrs:
                            own.add(t.attr)
    bad = []
    for m in methods:
        for n in ast.walk(m):
            def is_attr(e):
                return isinstance(e, ast.Attribute) and isinstance(e.value, ast.Name) and e.value.id in recv and \
                    e.attr in attrs and e.attr not in own
            if isinstance(n, (ast.Assign, ast.AugAssign, ast.Delete)):
                tgts = n.targets if isinstance(n, (ast.Assign, ast.Delete)) else [n.target]
                for t in tgts:
                    if isinstance(t, ast.Subscript) and is_attr(t.value):
                        bad.append((t.value.attr, n))
                    if isinstance(n, ast.AugAssign) and is_attr(t):
                        bad.append((t.attr, n))       # self.X += [...] mutates the shared list in place
            elif isinstance(n, ast.Call) and isinstance(n.func, ast.Attribute) and n.func.attr in MUT and is_attr(n.func.value):
                bad.append((n.func.value.attr, n))
    return bad, sorted(attrs)


_R31_CONTROL = '''
class Writer:
    table = {}
    names = []
    def __init__(self, fields):
        for f in fields:
            self.table[f.name] = f.serializer
    def add(self, n):
        self.names.append(n)
class Fine:
    TABLE = {'a': 1}
    own = {}
    def __init__(self):
        self.own = {}
        self.own['x'] = self.TABLE['a']
'''


def r31_shared_class_state(ctx, include=None, rule='R31'):
    """Every class of the package (or those `include` accepts): no class-level mutable container is mutated in place through an
    instance - that would be one object shared by all instances (all writers of all dumpers in one pipeline, every use of a step)."""
    run = ctx.run
    run.rule(rule, 'SHARED-CLASS-STATE: a mutable container defined at class level is never mutated in place through self / cls / the '
                   'class name (subscript store, augmented assignment, append / update / setdefault ...) unless __init__ first gives '
                   'the instance its own container: otherwise every instance - every writer of every dumper in a pipeline, every use '
                   'of a step - shares one object and what one of them records changes what the others do')
    # positive control: the detector must flag the planted defect and stay silent on the clean twin, on every run
    ctl = ast.parse(_R31_CONTROL)
    w, f = [c for c in ctl.body if isinstance(c, ast.ClassDef)]
    if sorted(a for a, _ in shared_class_state(w)[0]) != ['names', 'table'] or shared_class_state(f)[0]:
        raise AnalysisError('R31 self-check failed: the shared-class-state detector does not recognise its control example')
    n = 0
    for c in sorted(ctx.repo.classes.values(), key=lambda c: c.qualname):
        if include is not None and not include(c):
            continue
        subs = [s.node for s in ctx.res.subclasses(c, strict=True)]
        bad, attrs = shared_class_state(c.node, subs)
        for a in attrs:
            n += 1
            hits = [x for x in bad if x[0] == a]
            if not hits:
                run.ok(rule, c.where, '%s.%s' % (c.qualname, a), 'class-level container, never mutated through an instance')
            for _a, node in hits:
                run.fail(rule, where(ctx.repo, node), c.qualname, 'class-level %s mutated in place' % a,
                         'the container %s.%s is created once, at class level, and this statement changes it through an instance: all '
                         'instances share it (e.g. every file writer of every dumper placed in one pipeline), so what one instance '
                         'stores is used by the others' % (c.name, a))
    return n


# ---------------------------------------------------------------------- R32 LATE-BINDING

def _free_reads(fnode):
    """Names a nested function / lambda reads that it neither takes as a parameter nor binds itself."""
    a = fnode.args
    bound = {x.arg for x in a.posonlyargs + a.args + a.kwonlyargs}
    if a.vararg:
        bound.add(a.vararg.arg)
    if a.kwarg:
        bound.add(a.kwarg.arg)
    body = fnode.body if isinstance(fnode.body, list) else [fnode.body]
    reads = set()
    for st in body:
        for n in ast.walk(st):
            if isinstance(n, ast.Name):
                if isinstance(n.ctx, ast.Store):
                    bound.add(n.id)
                else:
                    reads.add(n.id)
            elif isinstance(n, ast.comprehension):
                for t in ast.walk(n.target):
                    if isinstance(t, ast.Name):
                        bound.add(t.id)
            elif isinstance(n, (ast.FunctionDef, ast.AsyncFunctionDef)):
                bound.add(n.name)
    return reads - bound


def late_bound_closures(func_node):
    """Closures created inside a loop that read, as a free variable, a name the loop rebinds on every iteration, and that outlive
    the iteration (stored in a container / attribute, yielded, returned).  When such a closure finally runs it sees the value of
    the LAST iteration, whatever it was when the closure was created.  -> [(closure node, loop node, names)]"""
    out = []
    loops = [n for n in ast.walk(func_node) if isinstance(n, (ast.For, ast.While))]
    for lp in loops:
        rebound = set()
        if isinstance(lp, ast.For):
            rebound |= {n.id for n in ast.walk(lp.target) if isinstance(n, ast.Name)}
        inner_funcs = []
        stack = list(lp.body)
        while stack:
            n = stack.pop()
            if isinstance(n, (ast.FunctionDef, ast.AsyncFunctionDef, ast.Lambda)):
                inner_funcs.append(n)
                continue            # what a nested function binds is its own
            if isinstance(n, ast.Name) and isinstance(n.ctx, ast.Store):
                rebound.add(n.id)
            stack.extend(ast.iter_child_nodes(n))
        for f in inner_funcs:
            free = _free_reads(f) & rebound
            if not free:
                continue
            # defaults are evaluated at definition time: `def part(row, key=key)` is the safe idiom, covered by _free_reads (params)
            fname = getattr(f, 'name', None)
            escapes = False
            for n in ast.walk(lp):
                def is_f(e):
                    return e is f or (fname is not None and isinstance(e, ast.Name) and e.id == fname)
                if isinstance(n, ast.Call) and isinstance(n.func, ast.Attribute) and n.func.attr in MUT | {'put', 'register'} and \
                        any(is_f(a) or (isinstance(a, (ast.Tuple, ast.List)) and any(is_f(e) for e in a.elts)) for a in n.args):
                    escapes = True
                elif isinstance(n, ast.Assign) and any(isinstance(t, (ast.Subscript, ast.Attribute)) for t in n.targets) and \
                        (is_f(n.value) or (isinstance(n.value, (ast.Tuple, ast.List)) and any(is_f(e) for e in n.value.elts))):
                    escapes = True
                elif isinstance(n, (ast.Yield, ast.Return)) and n.value is not None and \
                        (is_f(n.value) or (isinstance(n.value, (ast.Tuple, ast.List)) and any(is_f(e) for e in n.value.elts))):
                    # returning from inside the loop ends the loop: the binding cannot change any more
                    escapes = escapes or isinstance(n, ast.Yield)
            if escapes:
                out.append((f, lp, sorted(free)))
    return out


_R32_CONTROL = '''
def build(specs):
    parts = []
    for key, fmt in specs:
        raw = fmt is None
        def part(row, key=key):
            return row[key] if raw else fmt.format(row[key])
        parts.append(part)
    return parts
def fine(specs):
    parts = []
    for key, fmt in specs:
        def part(row, key=key, fmt=fmt):
            return fmt.format(row[key])
        parts.append(part)
        rows = sorted(specs, key=lambda s: s[0] == key)
    return parts
'''


def r32_late_binding(ctx, include=None, rule='R32'):
    run = ctx.run
    run.rule(rule, 'LATE-BINDING: a function or lambda created inside a loop and kept beyond the iteration (appended / stored / '
                   'yielded) does not read, as a free variable, a name the loop rebinds: it would see the value of the last '
                   'iteration when it finally runs (values needed per iteration are bound as parameter defaults or by a factory)')
    ctl = ast.parse(_R32_CONTROL)
    b, f = [c for c in ctl.body if isinstance(c, ast.FunctionDef)]
    got = late_bound_closures(b)
    if len(got) != 1 or got[0][2] != ['fmt', 'raw'] or late_bound_closures(f):
        raise AnalysisError('R32 self-check failed: the late-binding detector does not recognise its control example')
    n = 0
    for fi in sorted(ctx.repo.functions.values(), key=lambda f: f.qualname):
        if isinstance(fi.node, ast.Lambda) or isinstance(fi.parent, FuncInfo):
            continue            # nested functions are walked with their outermost function
        if include is not None and not include(fi):
            continue
        loops = [x for x in ast.walk(fi.node) if isinstance(x, (ast.For, ast.While))]
        if not any(isinstance(y, (ast.FunctionDef, ast.Lambda)) for lp in loops for y in ast.walk(lp)):
            continue
        n += 1
        hits = late_bound_closures(fi.node)
        if not hits:
            run.ok(rule, fi.where, fi.qualname, 'closures created in loops bind what they need at creation')
        for f_, lp, names in hits:
            run.fail(rule, where(ctx.repo, f_), fi.qualname, 'closure kept beyond the iteration reads loop variable(s) %s' % ', '.join(names),
                     'the closure created in this loop is stored for later use but reads %s from the enclosing scope, which every '
                     'iteration rebinds: all stored closures see the value of the last iteration' % ', '.join(names))
    return n


# ---------------------------------------------------------------------- R33 GROUPBY-RUNS

def _is_sorted_expr(e, fnode, key_dump):
    """sorted(x[, key=k]) with the same key as the groupby, or a name whose only definition is such a call / that is .sort()ed"""
    if isinstance(e, ast.Call) and isinstance(e.func, ast.Name) and e.func.id == 'sorted':
        k = [kw.value for kw in e.keywords if kw.arg == 'key']
        return (ast.dump(k[0]) if k else None) == key_dump
    if isinstance(e, ast.Name):
        defs = [n.value for n in ast.walk(fnode) if isinstance(n, ast.Assign) and len(n.targets) == 1 and
                isinstance(n.targets[0], ast.Name) and n.targets[0].id == e.id]
        if len(defs) == 1 and _is_sorted_expr(defs[0], fnode, key_dump):
            return True
        for n in ast.walk(fnode):
            if isinstance(n, ast.Call) and isinstance(n.func, ast.Attribute) and n.func.attr == 'sort' and \
                    isinstance(n.func.value, ast.Name) and n.func.value.id == e.id:
                k = [kw.value for kw in n.keywords if kw.arg == 'key']
                if (ast.dump(k[0]) if k else None) == key_dump:
                    return True
    return False


def groupby_as_mapping(func_node, is_groupby):
    """itertools.groupby over a sequence that is not sorted by the grouping key, whose (key, group) pairs are collected into a
    mapping / set keyed by the key: equal keys that are not adjacent form several runs, and a later run replaces the earlier one.
    -> [(groupby call, collecting node)]"""
    out = []
    for n in ast.walk(func_node):
        gens = []
        if isinstance(n, (ast.DictComp, ast.SetComp)):
            gens = n.generators
        elif isinstance(n, ast.Call) and isinstance(n.func, ast.Name) and n.func.id in ('dict', 'Counter', 'OrderedDict', 'set') and \
                n.args and isinstance(n.args[0], (ast.GeneratorExp, ast.ListComp)):
            gens = n.args[0].generators
        for g in gens:
            if isinstance(g.iter, ast.Call) and is_groupby(g.iter) and g.iter.args:
                key = [kw.value for kw in g.iter.keywords if kw.arg == 'key']
                if len(g.iter.args) > 1:
                    key = [g.iter.args[1]]
                kd = ast.dump(key[0]) if key else None
                if not _is_sorted_expr(g.iter.args[0], func_node, kd):
                    out.append((g.iter, n))
        # for k, grp in groupby(x): table[k] = ...
        if isinstance(n, ast.For) and isinstance(n.iter, ast.Call) and is_groupby(n.iter) and n.iter.args and \
                isinstance(n.target, ast.Tuple) and len(n.target.elts) == 2 and isinstance(n.target.elts[0], ast.Name):
            kname = n.target.elts[0].id
            key = [kw.value for kw in n.iter.keywords if kw.arg == 'key']
            if len(n.iter.args) > 1:
                key = [n.iter.args[1]]
            kd = ast.dump(key[0]) if key else None
            if _is_sorted_expr(n.iter.args[0], func_node, kd):
                continue
            for x in ast.walk(n):
                if isinstance(x, ast.Assign) and any(isinstance(t, ast.Subscript) and isinstance(t.slice, ast.Name) and
                                                     t.slice.id == kname for t in x.targets):
                    out.append((n.iter, x))
    return out


_R33_CONTROL = '''
import itertools
def bad(keys):
    totals = {k: len(list(g)) for k, g in itertools.groupby(keys)}
    return totals
def fine(keys):
    totals = {k: len(list(g)) for k, g in itertools.groupby(sorted(keys))}
    runs = [(k, len(list(g))) for k, g in itertools.groupby(keys)]
    return totals, runs
'''


def r33_groupby_runs(ctx, include=None, rule='R33'):
    run = ctx.run
    run.rule(rule, 'GROUPBY-RUNS: itertools.groupby groups only adjacent equal keys; a mapping or set keyed by the group key is built '
                   'from it only when the sequence was sorted by that same key - otherwise equal keys that are apart form several '
                   'runs and a later run silently replaces an earlier one (counts, totals and membership come out wrong)')
    ctl = ast.parse(_R33_CONTROL)
    fb, ff = [c for c in ctl.body if isinstance(c, ast.FunctionDef)]
    isg = lambda c: isinstance(c.func, ast.Attribute) and c.func.attr == 'groupby' or isinstance(c.func, ast.Name) and c.func.id == 'groupby'
    if len(groupby_as_mapping(fb, isg)) != 1 or groupby_as_mapping(ff, isg):
        raise AnalysisError('R33 self-check failed: the groupby detector does not recognise its control example')
    n = 0
    for fi in sorted(ctx.repo.functions.values(), key=lambda f: f.qualname):
        if isinstance(fi.node, ast.Lambda) or isinstance(fi.parent, FuncInfo):
            continue
        if include is not None and not include(fi):
            continue
        is_g = lambda c: ctx.res.external_name(c) == 'itertools.groupby'
        sites = [c for c in ast.walk(fi.node) if isinstance(c, ast.Call) and is_g(c)]
        if not sites:
            continue
        n += len(sites)
        hits = groupby_as_mapping(fi.node, is_g)
        if not hits:
            run.ok(rule, fi.where, fi.qualname, '%d groupby site(s): sorted by the grouping key, or used as runs' % len(sites))
        for g, coll in hits:
            run.fail(rule, where(ctx.repo, g), fi.qualname, 'mapping keyed by groupby key over an unsorted sequence: %s' % u(coll)[:100],
                     'itertools.groupby only merges adjacent equal keys, the sequence is not sorted by the key, and the groups are '
                     'collected under their key: two occurrences that are apart give two groups and the second replaces the first')
    return n


# ---------------------------------------------------------------------- R34 RUN-IDEMPOTENCE

def _placeholder(e):
    """what a constructor stores for "nothing yet": None / False / 0 / '' / an empty display or dict() / list() / set()"""
    if isinstance(e, ast.Constant):
        return e.value in (None, False, 0, '')
    if isinstance(e, (ast.List, ast.Tuple, ast.Set)):
        return not e.elts
    if isinstance(e, ast.Dict):
        return not e.keys
    return isinstance(e, ast.Call) and isinstance(e.func, ast.Name) and e.func.id in ('dict', 'list', 'set') and not e.args and not e.keywords


def rerun_state(class_node, base_nodes=()):
    """State of a step object that a run leaves behind for the next run of the same object: attributes the constructor sets
    (self.X = ...) that a method other than __init__ (a) mutates in place without any method re-creating them first, or
    (b) rebinds to a value computed from their own previous value (self.X = f(self.X)).
    -> [(kind, attribute, node)]"""
    ctor = {}
    for c in (class_node,) + tuple(base_nodes):
        for m in c.body:
            if isinstance(m, ast.FunctionDef) and m.name == '__init__':
                for n in ast.walk(m):
                    if isinstance(n, ast.Assign):
                        for t in n.targets:
                            for e in (t.elts if isinstance(t, (ast.Tuple, ast.List)) else [t]):
                                if isinstance(e, ast.Attribute) and isinstance(e.value, ast.Name) and e.value.id == 'self':
                                    ctor.setdefault(e.attr, n.value)
    if not ctor:
        return []
    methods = [m for m in class_node.body if isinstance(m, ast.FunctionDef) and m.name != '__init__']
    # attributes some run method re-creates (plain rebinding not depending on the old value): per-run state, reset by the class
    reset = set()
    for m in methods:
        for n in ast.walk(m):
            if isinstance(n, ast.Assign):
                for t in [e_ for t_ in n.targets for e_ in (t_.elts if isinstance(t_, (ast.Tuple, ast.List)) else [t_])]:
                    if isinstance(t, ast.Attribute) and isinstance(t.value, ast.Name) and t.value.id == 'self' and t.attr in ctor:
                        reads = {x.attr for x in ast.walk(n.value) if isinstance(x, ast.Attribute) and isinstance(x.value, ast.Name)
                                 and x.value.id == 'self'}
                        if t.attr not in reads:
                            reset.add(t.attr)
    # ... where the re-creation counts for a mutation only if it comes first in every run: it is a statement of another method's
    # body itself (not under a test or in a loop), or it is definitely executed before the mutation inside the same method.  A
    # rebinding on one branch does not re-create the state the other branch appends to.
    def rebinds(st, attr):
        if not isinstance(st, ast.Assign):
            return False
        for t in [e_ for t_ in st.targets for e_ in (t_.elts if isinstance(t_, (ast.Tuple, ast.List)) else [t_])]:
            if isinstance(t, ast.Attribute) and isinstance(t.value, ast.Name) and t.value.id == 'self' and t.attr == attr:
                reads = {x.attr for x in ast.walk(st.value) if isinstance(x, ast.Attribute) and isinstance(x.value, ast.Name)
                         and x.value.id == 'self'}
                return attr not in reads
        return False

    def definitely(st, attr):
        if rebinds(st, attr):
            return True
        if isinstance(st, ast.If):
            return bool(st.orelse) and any(definitely(x, attr) for x in st.body) and any(definitely(x, attr) for x in st.orelse)
        if isinstance(st, (ast.With, ast.AsyncWith)):
            return any(definitely(x, attr) for x in st.body)
        if isinstance(st, ast.Try):
            # (a statement of the try body itself: if it does not get there the run has failed)
            return any(definitely(x, attr) for x in st.body) or any(definitely(x, attr) for x in st.finalbody)
        return False

    top_reset = {}
    for m in methods:
        for st in m.body:
            for attr in ctor:
                if definitely(st, attr):
                    top_reset.setdefault(attr, set()).add(m.name)

    def assigned_before(stmts, attr, node, a=False):
        for st in stmts:
            if any(x is node for x in ast.walk(st)):
                if isinstance(st, ast.If):
                    if any(x is node for x in ast.walk(st.test)):
                        return a
                    return assigned_before(st.body if any(x is node for b_ in st.body for x in ast.walk(b_)) else st.orelse, attr, node, a)
                if isinstance(st, (ast.For, ast.AsyncFor, ast.While)):
                    blk = st.body if any(x is node for b_ in st.body for x in ast.walk(b_)) else \
                        (st.orelse if any(x is node for b_ in st.orelse for x in ast.walk(b_)) else None)
                    return assigned_before(blk, attr, node, a) if blk is not None else a
                if isinstance(st, (ast.With, ast.AsyncWith)):
                    if any(x is node for b_ in st.body for x in ast.walk(b_)):
                        return assigned_before(st.body, attr, node, a)
                    return a
                if isinstance(st, ast.Try):
                    for blk in [st.body, st.orelse, st.finalbody] + [h.body for h in st.handlers]:
                        if any(x is node for b_ in blk for x in ast.walk(b_)):
                            return assigned_before(blk, attr, node, a)
                    return a
                return a
            a = a or definitely(st, attr)
        return a

    def is_reset(attr, m, node):
        if attr not in reset:
            return False
        if top_reset.get(attr, set()) - {m.name}:
            return True
        return assigned_before(m.body, attr, node)
    out = []
    # (c) carried over: an attribute a run rebinds is read, in some run, before that run has bound it (and no other method binds it
    # first thing): the value is the one the previous run left - `if self.dp is None: self.dp = parse(..)`, `elif self.stream is not
    # None: self.stream.reset()`.  What the constructor stored and nobody rebinds is configuration and may be read freely.
    for m in methods:
        for n in ast.walk(m):
            if isinstance(n, ast.Attribute) and isinstance(n.ctx, ast.Load) and isinstance(n.value, ast.Name) and n.value.id == 'self' \
                    and n.attr in reset and _placeholder(ctor[n.attr]) and not (top_reset.get(n.attr, set()) - {m.name}) \
                    and not assigned_before(m.body, n.attr, n):
                out.append(('carried', n.attr, n))
    for m in methods:
        for n in ast.walk(m):
            def own(e):
                return isinstance(e, ast.Attribute) and isinstance(e.value, ast.Name) and e.value.id == 'self' and e.attr in ctor
            def const_key(c_):
                return isinstance(c_, ast.Constant)
            if isinstance(n, ast.Call) and isinstance(n.func, ast.Attribute) and n.func.attr in MUT and own(n.func.value) \
                    and not is_reset(n.func.value.attr, m, n):
                # setdefault / pop under a constant key settle after the first run (idempotent); growth does not
                if n.func.attr in ('setdefault', 'pop', 'discard', 'remove', 'clear') and (not n.args or const_key(n.args[0])):
                    # ... unless the entry itself is then grown: self.x.setdefault(k, []).append(v)
                    par = getattr(n, '_parent', None)
                    if not (isinstance(par, ast.Attribute) and par.attr in MUT):
                        continue
                out.append(('accumulates', n.func.value.attr, n))
            elif isinstance(n, ast.Call) and isinstance(n.func, ast.Attribute) and n.func.attr in MUT and \
                    isinstance(n.func.value, ast.Call) and isinstance(n.func.value.func, ast.Attribute) and \
                    n.func.value.func.attr in ('setdefault', 'get') and own(n.func.value.func.value) and \
                    not is_reset(n.func.value.func.value.attr, m, n):
                out.append(('accumulates', n.func.value.func.value.attr, n))     # self.x.setdefault(k, []).append(v)
            elif isinstance(n, (ast.Assign, ast.AugAssign, ast.Delete)):
                tgts = n.targets if isinstance(n, (ast.Assign, ast.Delete)) else [n.target]
                for t in tgts:
                    if isinstance(t, ast.Subscript) and own(t.value) and not is_reset(t.value.attr, m, n) and \
                            not (isinstance(n, ast.Assign) and const_key(t.slice)):
                        out.append(('accumulates', t.value.attr, n))
                    if isinstance(n, ast.AugAssign) and own(t) and not is_reset(t.attr, m, n):
                        out.append(('accumulates', t.attr, n))
                    if isinstance(n, ast.Assign) and own(t) and t.attr not in reset:
                        reads = {x.attr for x in ast.walk(n.value) if isinstance(x, ast.Attribute) and isinstance(x.value, ast.Name)
                                 and x.value.id == 'self'}
                        if t.attr in reads:
                            out.append(('rebinds from itself', t.attr, n))
    return out


_R34_CONTROL = '''
class Step:
    def __init__(self, resources):
        self.resources = resources
        self.names = {}
        self.seen = []
        self.count = 0
        self.parsed = None
        self.fresh = None
    def process_datapackage(self, dp):
        self.resources = Matcher(self.resources, dp)
        self.names[dp.name] = 1
        self.seen = []
        self.seen.append(dp)
        self.count = 0
        if self.parsed is None:
            self.parsed = parse(dp)
        self.fresh = parse(dp)
        use(self.fresh)
        return dp
'''


def r34_run_idempotence(ctx, include=None, rule='R34'):
    run = ctx.run
    run.rule(rule, 'RUN-IDEMPOTENCE: what the constructor of a step stores (self.x = ...) is configuration: no other method mutates it in '
                   'place (append / update / subscript store / +=) unless a method re-creates it for the run, and none rebinds it to a value '
                   'computed from its own previous value (self.x = f(self.x)). Otherwise a second run of the same Flow object - which is '
                   'how a checkpointed pipeline is run again - starts from what the first run left behind')
    ctl = [c for c in ast.parse(_R34_CONTROL).body if isinstance(c, ast.ClassDef)][0]
    got = sorted(set((k, a) for k, a, _ in rerun_state(ctl)))
    if got != [('accumulates', 'names'), ('carried', 'parsed'), ('rebinds from itself', 'resources')]:
        raise AnalysisError('R34 self-check failed: %s' % got)
    n = 0
    per_run_helpers = set()
    fl = ctx.repo.classes.get('dataflows.base.flow:Flow')
    if fl is not None and fl.methods.get('_chain') is not None:
        ch = fl.methods['_chain']
        for c_ in ast.walk(ch.node):
            # (every class Flow._chain instantiates: row_processor(link)(ds, ..) or processor = iterable_loader(link); processor(ds, ..))
            if isinstance(c_, ast.Call) and isinstance(c_.func, ast.Name):
                for t in ctx.res._resolve_callee(c_.func, ch.module, ch):
                    if hasattr(t, 'mro'):
                        per_run_helpers.add(t.name)
    for c in sorted(ctx.repo.classes.values(), key=lambda c: c.qualname):
        if include is not None and not include(c):
            continue
        # (step classes, and the Flow object itself: it is what is run again)
        if not ctx.res.is_subclass(c, 'DataStreamProcessor') and c.name != 'DataStreamProcessor' and c.qualname != 'dataflows.base.flow:Flow':
            continue
        bases = [b.node for b in c.mro[1:]]
        hits = rerun_state(c.node, bases)
        if c.name in per_run_helpers:
            # built anew by Flow._chain for every run (R34c decides that): nothing is carried from one run's object to the next's
            hits = [h for h in hits if h[0] != 'carried']
        n += 1
        if not hits:
            run.ok(rule, c.where, c.qualname, 'no constructor-set state is accumulated into or rebound from itself by a run')
        seen = set()
        for kind, attr, node in hits:
            if (kind, attr) in seen:
                continue
            seen.add((kind, attr))
            run.fail(rule, where(ctx.repo, node), c.qualname, 'self.%s %s across runs' % (attr, kind),
                     'self.%s is set by the constructor and %s in %s: running the same Flow object again (e.g. to resume from a '
                     'checkpoint) continues from the state the previous run left' % (attr, {'accumulates': 'mutated in place',
                                                                                            'carried': 'read by a run before that run has bound it (while runs rebind it)'}.get(kind, 'rebound to a value computed from itself'), c.name))
    return n


def _fixed_keys_update(call):
    """x.update({...}) / x.update(dict(k=...)) / x.update(k=...) with literal keys: sets the same keys on every run (a reset of
    those entries, not growth)"""
    if call.func.attr != 'update':
        return False
    if not call.args:
        return True
    a = call.args[0]
    if isinstance(a, ast.Dict):
        return all(isinstance(k, ast.Constant) for k in a.keys)
    return isinstance(a, ast.Call) and isinstance(a.func, ast.Name) and a.func.id == 'dict' and not a.args


def _read_before_write(body, name, also_calls=(), assigning_calls=(), want_state=False):
    """May a read of `name` in this statement list happen before `name` has been assigned on the way from the top?  A small
    must-be-assigned walk over the statements (branches joined by `and`, loop bodies and try bodies may not run, nested functions
    are not entered).  -> the first such read (node) or None"""
    found = []

    def reads(e):
        st = [e]
        while st:
            n = st.pop()
            if isinstance(n, (ast.FunctionDef, ast.AsyncFunctionDef, ast.Lambda)):
                continue
            if isinstance(n, ast.Name) and n.id == name and isinstance(n.ctx, ast.Load):
                return n
            if isinstance(n, ast.Name) and n.id in also_calls and isinstance(n.ctx, ast.Load):
                return n        # a sibling closure that uses the name is called (or handed on) here
            st.extend(ast.iter_child_nodes(n))
        return None

    def stores(t):
        return any(isinstance(n, ast.Name) and n.id == name and isinstance(n.ctx, ast.Store) for n in ast.walk(t))

    def note(e, assigned):
        if not assigned and e is not None and not found:
            r = reads(e)
            if r is not None:
                found.append(r)

    def block(stmts, assigned):
        for s_ in stmts:
            assigned = stmt(s_, assigned)
        return assigned

    def stmt(s_, a):
        if isinstance(s_, (ast.FunctionDef, ast.AsyncFunctionDef, ast.ClassDef)):
            return a
        if isinstance(s_, ast.Expr) and isinstance(s_.value, ast.Call) and isinstance(s_.value.func, ast.Name) and \
                s_.value.func.id in assigning_calls:
            for x in list(s_.value.args) + [k.value for k in s_.value.keywords]:
                note(x, a)
            return True         # a sibling closure that sets the name before it does anything else with it
        if isinstance(s_, ast.Assign):
            note(s_.value, a)
            for t in s_.targets:
                if not (isinstance(t, ast.Name)):
                    note(t, a)
            return a or any(stores(t) for t in s_.targets)
        if isinstance(s_, ast.AnnAssign):
            note(s_.value, a)
            return a or (s_.value is not None and stores(s_.target))
        if isinstance(s_, ast.AugAssign):
            note(s_.value, a)
            if isinstance(s_.target, ast.Name) and s_.target.id == name and not a and not found:
                found.append(s_.target)
            return a
        if isinstance(s_, ast.If):
            note(s_.test, a)
            a1 = block(s_.body, a)
            a2 = block(s_.orelse, a)
            return a1 and a2
        if isinstance(s_, (ast.For, ast.AsyncFor)):
            note(s_.iter, a)
            block(s_.body, a or stores(s_.target))
            block(s_.orelse, a)
            return a
        if isinstance(s_, ast.While):
            note(s_.test, a)
            block(s_.body, a)
            block(s_.orelse, a)
            return a
        if isinstance(s_, (ast.With, ast.AsyncWith)):
            for it in s_.items:
                note(it.context_expr, a)
                if it.optional_vars is not None and stores(it.optional_vars):
                    a = True
            return block(s_.body, a)
        if isinstance(s_, ast.Try):
            a1 = block(s_.body, a)
            for h in s_.handlers:
                block(h.body, a)
            a2 = block(s_.orelse, a1)
            block(s_.finalbody, a)
            return a and a2
        note(s_, a)
        return a
    final = block(body, False)
    if want_state:
        return (found[0] if found else None), final
    return found[0] if found else None


_KEEP_IDENTITY = {'list', 'tuple', 'sorted', 'reversed', 'enumerate', 'zip', 'iter', 'filter'}
_ELEMENT_METHODS = {'values', 'items', 'get', 'pop', 'setdefault', '__getitem__'}
_MUTATORS = {'append', 'extend', 'add', 'update', 'insert', 'appendleft', 'pop', 'remove', 'clear', 'setdefault', 'sort', 'reverse',
             'popitem', 'discard'}


def _owned_elements(factory, bound, module_helpers=None):
    """What a step function does to the OBJECTS the factory was given (its arguments and what it built from them), as opposed to its
    names: `for f in fields: f['target'] = {...}` stores into the caller's specification, and the next run of the same step object
    reads what this run left there.  An alias walk per nested function: a local bound to a factory-scope name, to a part of one
    (subscript, attribute, .get / .values / .items, iteration), or to a display / list() / sorted() of such is an alias; anything
    else (copy.deepcopy(x), dict(x), a comprehension building new objects) ends the chain.  Assignments that are statements of the
    function body itself are definite: after `fields = [dict(f) for f in fields]` the name no longer stands for the caller's
    objects.  -> [(factory-scope name, node, function name, 'element')] for: a store into an alias under a computed key or by
    augmented assignment; a deletion; an in-place mutator on a part of an alias; a store under a literal key that is read, from a
    factory-owned object, earlier in the same run (here or in a module-level helper an alias is handed to).  Entries the function
    itself sets afresh before (X['k'] = ..., X.update(dict(k=...))) are per-run, not carried."""
    out = []
    helpers = dict(module_helpers or {})

    def targets(t):
        if isinstance(t, ast.Name):
            yield t.id
        elif isinstance(t, (ast.Tuple, ast.List)):
            for x in t.elts:
                yield from targets(x)
        elif isinstance(t, ast.Starred):
            yield from targets(t.value)

    def visit(fn, alias_in):
        a = fn.args
        params = {x.arg for x in a.posonlyargs + a.args + a.kwonlyargs} | ({a.vararg.arg} if a.vararg else set()) | \
            ({a.kwarg.arg} if a.kwarg else set())
        inherited = {k: v for k, v in alias_in.items() if k not in params}
        own = list(_own_walk(fn))
        pos = {}
        for i, st_ in enumerate(fn.body):
            stack = [st_]
            while stack:
                x = stack.pop()
                pos[id(x)] = i
                if isinstance(x, (ast.FunctionDef, ast.AsyncFunctionDef, ast.Lambda)) and x is not st_:
                    continue
                stack.extend(ast.iter_child_nodes(x))
        events = {}         # name -> [(position, root or None, definite, binds inside its own statement)]

        def alias_at(name, at, overlay=None):
            if overlay and name in overlay:
                return overlay[name]
            evs = [e for e in events.get(name, []) if e[0] < at or (e[0] == at and e[3])]
            if not evs:
                return inherited.get(name) if name not in events or not any(e[2] and e[0] < at for e in events[name]) else None
            d = max([e[0] for e in evs if e[2]], default=None)
            cands = [e for e in evs if d is None or e[0] >= d]
            for e in cands:
                if e[1]:
                    return e[1]
            if d is not None:
                return None
            return inherited.get(name)

        def root(e, at, ov=None):
            if isinstance(e, ast.Name):
                return alias_at(e.id, at, ov)
            if isinstance(e, (ast.Subscript, ast.Attribute, ast.Starred)):
                return root(e.value, at, ov)
            if isinstance(e, (ast.List, ast.Tuple, ast.Set)):
                for x in e.elts:
                    r = root(x, at, ov)
                    if r:
                        return r
                return None
            if isinstance(e, ast.IfExp):
                return root(e.body, at, ov) or root(e.orelse, at, ov)
            if isinstance(e, ast.BoolOp):
                for x in e.values:
                    r = root(x, at, ov)
                    if r:
                        return r
                return None
            if isinstance(e, (ast.ListComp, ast.SetComp, ast.GeneratorExp)):
                ov2 = dict(ov or {})
                for g in e.generators:
                    r = root(g.iter, at, ov2)
                    for nm in targets(g.target):
                        ov2[nm] = r
                return root(e.elt, at, ov2)
            if isinstance(e, ast.Call):
                if isinstance(e.func, ast.Name) and e.func.id in _KEEP_IDENTITY:
                    for x in e.args:
                        r = root(x, at, ov)
                        if r:
                            return r
                    return None
                if isinstance(e.func, ast.Attribute) and e.func.attr in _ELEMENT_METHODS:
                    return root(e.func.value, at, ov)
            return None
        top = set(id(x) for x in fn.body)
        for _ in range(4):
            events.clear() if False else None
            new_events = {}
            for n in own:
                at = pos.get(id(n), 0)
                if isinstance(n, ast.Assign):
                    r = root(n.value, at)
                    for t in n.targets:
                        for nm in targets(t):
                            # (an assignment nested in a loop / if of this top-level statement is seen by the rest of that statement)
                            new_events.setdefault(nm, []).append((at, r, id(n) in top, id(n) not in top))
                elif isinstance(n, (ast.For, ast.AsyncFor)):
                    r = root(n.iter, at)
                    for nm in targets(n.target):
                        new_events.setdefault(nm, []).append((at, r, False, True))
                elif isinstance(n, (ast.With, ast.AsyncWith)):
                    for it in n.items:
                        if it.optional_vars is not None:
                            for nm in targets(it.optional_vars):
                                new_events.setdefault(nm, []).append((at, None, False, True))
            if new_events == events:
                break
            events.clear()
            events.update(new_events)

        single = {}
        for n in own:
            if isinstance(n, ast.Assign) and len(n.targets) == 1 and isinstance(n.targets[0], ast.Name):
                single.setdefault(n.targets[0].id, []).append(n.value)

        def path_keys(e, depth=0):
            ks = []
            while isinstance(e, (ast.Subscript, ast.Attribute)):
                if isinstance(e, ast.Subscript):
                    ks.append(e.slice.value if isinstance(e.slice, ast.Constant) else None)
                e = e.value
            ks = list(reversed(ks))
            # a local bound once to a part of an object (target_fields = target['schema']['fields']) stands for that part
            if isinstance(e, ast.Name) and e.id not in bound and len(single.get(e.id, [])) == 1 and depth < 4 and \
                    isinstance(single[e.id][0], (ast.Subscript, ast.Name)):
                nm, ks0 = path_keys(single[e.id][0], depth + 1)
                return nm, ks0 + ks
            return (e.id if isinstance(e, ast.Name) else None), ks
        resets = {}
        for n in own:
            if isinstance(n, ast.Assign):
                for t in n.targets:
                    if isinstance(t, ast.Subscript) and isinstance(t.value, ast.Name) and isinstance(t.slice, ast.Constant):
                        resets.setdefault((t.value.id, t.slice.value), []).append(pos.get(id(n), 0))
            if isinstance(n, ast.Call) and isinstance(n.func, ast.Attribute) and n.func.attr == 'update' and \
                    isinstance(n.func.value, ast.Name):
                ks = [k.arg for k in n.keywords if k.arg]
                for a_ in n.args:
                    if isinstance(a_, ast.Dict):
                        ks += [k.value for k in a_.keys if isinstance(k, ast.Constant)]
                    elif isinstance(a_, ast.Call) and isinstance(a_.func, ast.Name) and a_.func.id == 'dict':
                        ks += [k.arg for k in a_.keywords if k.arg]
                for k in ks:
                    resets.setdefault((n.func.value.id, k), []).append(pos.get(id(n), 0))

        def reset_before(e, at):
            nm, ks = path_keys(e)
            return bool(nm and ks and ks[0] is not None and any(p_ < at for p_ in resets.get((nm, ks[0]), [])))

        def key_read_before(key, at):
            for n in own:
                p_ = pos.get(id(n), 0)
                if p_ >= at:
                    continue
                if isinstance(n, ast.Subscript) and isinstance(n.ctx, ast.Load) and isinstance(n.slice, ast.Constant) and \
                        n.slice.value == key and root(n.value, p_):
                    return n
                if isinstance(n, ast.Call) and isinstance(n.func, ast.Attribute) and n.func.attr == 'get' and n.args and \
                        isinstance(n.args[0], ast.Constant) and n.args[0].value == key and root(n.func.value, p_):
                    return n
                if isinstance(n, ast.Call) and isinstance(n.func, ast.Name) and n.func.id in helpers and \
                        any(root(a_, p_) for a_ in n.args) and key in helpers[n.func.id]:
                    return n
            return None

        def is_factory_name(v, at):
            return isinstance(v, ast.Name) and v.id in bound and alias_at(v.id, at) == v.id
        for n in own:
            hit = None
            at = pos.get(id(n), 0)
            if isinstance(n, (ast.Assign, ast.AugAssign)):
                ts = n.targets if isinstance(n, ast.Assign) else [n.target]
                for t in ts:
                    if not isinstance(t, ast.Subscript):
                        continue
                    r = root(t.value, at)
                    if not r or reset_before(t.value, at):
                        continue
                    if is_factory_name(t.value, at) and not isinstance(t.slice, ast.Constant):
                        continue        # a computed-key store into the factory-scope name itself: the growth rule
                    if not isinstance(t.slice, ast.Constant) or isinstance(n, ast.AugAssign):
                        hit = r
                    elif key_read_before(t.slice.value, at) is not None:
                        hit = r
            elif isinstance(n, ast.Delete):
                for t in n.targets:
                    if isinstance(t, ast.Subscript) and root(t.value, at) and not reset_before(t.value, at):
                        hit = root(t.value, at)
            elif isinstance(n, ast.Call) and isinstance(n.func, ast.Attribute) and n.func.attr in _MUTATORS:
                v = n.func.value
                if not is_factory_name(v, at):      # mutators on the factory-scope names themselves: the growth rule
                    r = root(v, at)
                    if r and not _fixed_keys_update(n) and not reset_before(v, at):
                        hit = r
            if hit:
                out.append((hit, n, fn.name, 'element'))
        # what nested closures see: the aliases as they stand at the end of this function
        end = len(fn.body) + 1
        names = set(events) | set(inherited)
        seen_by_nested = {}
        for nm in names:
            r = alias_at(nm, end)
            if r:
                seen_by_nested[nm] = r
        for g in own:
            if isinstance(g, (ast.FunctionDef, ast.AsyncFunctionDef)):
                visit(g, seen_by_nested)
    # names the step function sets afresh for every run (nonlocal X; X = ...) do not hold what the factory was given
    per_run = set()
    for g in ast.walk(factory):
        if isinstance(g, (ast.FunctionDef, ast.AsyncFunctionDef)) and g is not factory:
            nl = set()
            for n in _own_walk(g):
                if isinstance(n, ast.Nonlocal):
                    nl |= set(n.names)
            for n in _own_walk(g):
                if isinstance(n, ast.Name) and isinstance(n.ctx, ast.Store) and n.id in nl:
                    per_run.add(n.id)
    base = {b: b for b in bound if b not in per_run}
    for g in factory.body:
        if isinstance(g, (ast.FunctionDef, ast.AsyncFunctionDef)):
            visit(g, base)
    return out


def closure_rerun_state(factory, module_helpers=None):
    """Function-style steps: names bound by the factory (its parameters and locals) that the step function it returns grows in place
    (append / extend / add / update / insert, a store under a computed key, +=): they live as long as the step object and carry what
    one run recorded into the next.  -> [(name, node, inner function name)]"""
    bound = {a.arg for a in factory.args.posonlyargs + factory.args.args + factory.args.kwonlyargs}
    bound |= {a.arg for a in (factory.args.vararg, factory.args.kwarg) if a is not None}
    inner = []
    stack = list(factory.body)
    while stack:
        n = stack.pop()
        if isinstance(n, (ast.FunctionDef, ast.AsyncFunctionDef)):
            inner.append(n)
            continue
        if isinstance(n, ast.Lambda):
            continue
        if isinstance(n, ast.Name) and isinstance(n.ctx, ast.Store):
            bound.add(n.id)
        stack.extend(ast.iter_child_nodes(n))
    out = []
    GROW = {'append', 'extend', 'add', 'update', 'insert', 'appendleft'}

    def visit(fn, visible):
        # names the nested function binds itself hide the factory's
        a = fn.args
        mine = {x.arg for x in a.posonlyargs + a.args + a.kwonlyargs}
        nonlocal_ = set()
        sub = []
        st = list(fn.body)
        while st:
            n = st.pop()
            if isinstance(n, (ast.FunctionDef, ast.AsyncFunctionDef)):
                sub.append(n)
                mine.add(n.name)
                continue
            if isinstance(n, ast.Lambda):
                continue
            if isinstance(n, ast.Nonlocal):
                nonlocal_ |= set(n.names)
            if isinstance(n, ast.Name) and isinstance(n.ctx, ast.Store):
                mine.add(n.id)
            if isinstance(n, ast.comprehension):
                for t in ast.walk(n.target):
                    if isinstance(t, ast.Name):
                        mine.add(t.id)
            st.extend(ast.iter_child_nodes(n))
        vis = (visible - (mine - nonlocal_))
        st = list(fn.body)
        while st:
            n = st.pop()
            if isinstance(n, (ast.FunctionDef, ast.AsyncFunctionDef, ast.Lambda)):
                continue
            if isinstance(n, ast.Call) and isinstance(n.func, ast.Attribute) and n.func.attr in GROW and \
                    isinstance(n.func.value, ast.Name) and n.func.value.id in vis and not _fixed_keys_update(n):
                out.append((n.func.value.id, n, fn.name))
            if isinstance(n, ast.Call) and isinstance(n.func, ast.Attribute) and n.func.attr in GROW and \
                    isinstance(n.func.value, ast.Call) and isinstance(n.func.value.func, ast.Attribute) and \
                    n.func.value.func.attr in ('setdefault', 'get') and isinstance(n.func.value.func.value, ast.Name) and \
                    n.func.value.func.value.id in vis:
                out.append((n.func.value.func.value.id, n, fn.name))
            if isinstance(n, ast.Assign):
                for t in n.targets:
                    if isinstance(t, ast.Subscript) and isinstance(t.value, ast.Name) and t.value.id in vis and \
                            not isinstance(t.slice, ast.Constant):
                        out.append((t.value.id, n, fn.name))
            if isinstance(n, ast.AugAssign) and isinstance(n.target, ast.Name) and n.target.id in vis and n.target.id in nonlocal_:
                out.append((n.target.id, n, fn.name))
            st.extend(ast.iter_child_nodes(n))
        for g in sub:
            visit(g, vis)
    for g in inner:
        visit(g, set(bound))
    # a factory-scope name that a nested function rebinds (nonlocal X; X = ...): the first run starts from what the factory was given,
    # the next run from what the previous run left (`if X is None: X = <from this package>`) - unless the function the factory hands
    # out assigns X before anything reads it (directly, or through a sibling closure that uses X), i.e. resets it for every run
    allfns = [n for n in ast.walk(factory) if isinstance(n, (ast.FunctionDef, ast.AsyncFunctionDef)) and n is not factory]
    rebound = set()
    for g in allfns:
        nl = set()
        for n in ast.walk(g):
            if isinstance(n, ast.Nonlocal):
                nl |= set(n.names)
        own = [n for n in _own_walk(g)]
        for nm in nl & bound:
            if any(isinstance(n, ast.Name) and n.id == nm and isinstance(n.ctx, ast.Store) for n in own):
                rebound.add(nm)
    if rebound:
        ret_names = set()
        for r in ast.walk(factory):
            if isinstance(r, ast.Return) and r.value is not None:
                ret_names |= {y.id for y in ast.walk(r.value) if isinstance(y, ast.Name)}
        entries = [g for g in inner if g.name in ret_names]
        for nm in sorted(rebound):
            users = {g.name for g in inner if any(isinstance(n, ast.Name) and n.id == nm for n in ast.walk(g))}
            grew = True
            while grew:     # closures that call such a closure use the name too
                grew = False
                for g in inner:
                    if g.name not in users and any(isinstance(n, ast.Name) and n.id in users for n in ast.walk(g)):
                        users.add(g.name)
                        grew = True
            # closures that themselves set the name before using it (a `start_run()` helper): calling one is an assignment
            setters = set()
            for g in inner:
                if g.name in users:
                    r_, fin_ = _read_before_write(g.body, nm, also_calls=users - {g.name}, want_state=True)
                    if r_ is None and fin_:
                        setters.add(g.name)
            for e in entries:
                r = _read_before_write(e.body, nm, also_calls=users - {e.name} - setters, assigning_calls=setters)
                if r is not None:
                    out.append((nm, r, e.name, 'rebound'))
    # a name the handed-out function sets afresh before anything uses it is a per-run object: what a run adds to it is gone with it
    carried = {h[0] for h in out if len(h) > 3 and h[3] == 'rebound'}
    per_run = rebound - carried
    out = [h for h in out if not (len(h) == 3 and h[0] in per_run)]
    have = {id(h[1]) for h in out}
    out.extend(h for h in _owned_elements(factory, bound, module_helpers) if id(h[1]) not in have)
    return out


def _own_walk(fn):
    st = list(fn.body)
    while st:
        n = st.pop()
        yield n
        if isinstance(n, (ast.FunctionDef, ast.AsyncFunctionDef, ast.Lambda)):
            continue
        st.extend(ast.iter_child_nodes(n))


def _with_normalised_closures(ctx, fi):
    """The factory with each of its directly nested functions in normalised form (module-level helpers they call inlined): what a
    run does to the factory's objects is the same whether it is written in the step function or in a helper it calls."""
    from sa.astcopy import clone
    node = clone(fi.node)
    try:
        for i, st in enumerate(node.body):
            if isinstance(st, (ast.FunctionDef, ast.AsyncFunctionDef)):
                orig = [x for x in fi.node.body if isinstance(x, (ast.FunctionDef, ast.AsyncFunctionDef)) and x.name == st.name]
                g = ctx.repo.func_of_node.get(id(orig[0])) if len(orig) == 1 else None
                if g is not None:
                    node.body[i] = clone(ctx.N(g).node)
    except Exception:
        return fi.node
    ast.fix_missing_locations(node)
    return node


def _module_key_reads(module):
    """module-level function name -> the literal keys its body reads (x['k'] / x.get('k')), for the owned-element rule"""
    out = {}
    for st in module.tree.body:
        if isinstance(st, (ast.FunctionDef, ast.AsyncFunctionDef)):
            ks = set()
            for n in ast.walk(st):
                if isinstance(n, ast.Subscript) and isinstance(n.ctx, ast.Load) and isinstance(n.slice, ast.Constant):
                    ks.add(n.slice.value)
                if isinstance(n, ast.Call) and isinstance(n.func, ast.Attribute) and n.func.attr == 'get' and n.args and \
                        isinstance(n.args[0], ast.Constant):
                    ks.add(n.args[0].value)
            out[st.name] = ks
    return out


def _call_sites(ctx):
    """qualname of a library function -> the calls in the library that resolve to it (computed once per context)"""
    cs = getattr(ctx, '_call_sites_cache', None)
    if cs is not None:
        return cs
    cs = {}
    for m in ctx.repo.modules.values():
        for c in ast.walk(m.tree):
            if isinstance(c, ast.Call):
                try:
                    tg = ctx.res.resolve_call(c)
                except Exception:
                    tg = []
                for t in tg:
                    if isinstance(t, FuncInfo):
                        cs.setdefault(t.qualname, []).append(c)
    ctx._call_sites_cache = cs
    return cs


def _per_run_context(ctx, call):
    """Is this call evaluated while a run is under way?  Inside a generator function, or inside a function nested in another one
    (the step function a factory hands out and whatever it defines) - not at module level, in a constructor or in the body of a
    top-level factory, which run when the flow is put together."""
    f = ctx.repo.enclosing_func(call)
    while f is not None and isinstance(f.node, ast.Lambda):
        f = f.parent
    if f is None:
        return False
    if f.is_generator:
        return True
    return f.parent is not None and f.cls is None


_R34N_CONTROL = '''
def carried(source=None):
    def func(package):
        nonlocal source
        if source is None:
            source = package.pkg.descriptor['resources'][0]['name']
        yield package.pkg
        yield from package
    return func

def reset(spec):
    current = None
    def helper():
        return current
    def func(package):
        nonlocal current
        current = dict(spec)
        helper()
        yield package.pkg
    return func
'''


_R34E_CONTROL = '''
def completes_in_place(*args):
    def func(package):
        fields = args[0]
        describe(package, fields)
        yield package.pkg
        for f in fields:
            if isinstance(f['target'], str):
                f['target'] = dict(name=f['target'])
        yield from package
    return func

def completes_copies(*args):
    def func(package):
        fields = args[0]
        fields = [dict(f) for f in fields]
        describe(package, fields)
        yield package.pkg
        for f in fields:
            if isinstance(f['target'], str):
                f['target'] = dict(name=f['target'])
        yield from package
    return func

def resets_entry(target={}):
    def func(package):
        if 'name' not in target:
            target['name'] = 'concat'
        target.update(dict(schema=dict(fields=[])))
        for r in package.pkg.descriptor['resources']:
            target['schema']['fields'].append(r['name'])
        yield package.pkg
    return func
'''


def r34_closure_state(ctx, include=None, rule='R34'):
    """R34 for function-style steps (factories returning func(package) / func(rows) / func(row))."""
    run = ctx.run
    ctl = ast.parse(_R34N_CONTROL).body
    got = [[(h[0], len(h)) for h in closure_rerun_state(f)] for f in ctl]
    if got != [[('source', 4)], []]:
        raise AnalysisError('R34 (rebound factory names) self-check failed: %s' % got)
    ctl = ast.parse(_R34E_CONTROL).body
    got = [[(h[0], h[3]) for h in closure_rerun_state(f, {'describe': {'target'}})] for f in ctl]
    if got != [[('args', 'element')], [], []]:
        raise AnalysisError('R34 (objects given to the factory changed in place) self-check failed: %s' % got)
    n = 0
    for fi in sorted(ctx.repo.functions.values(), key=lambda f: f.qualname):
        if isinstance(fi.node, ast.Lambda) or fi.parent is not None or fi.cls is not None:
            continue
        if include is not None and not include(fi):
            continue
        nested = [x for x in fi.node.body if isinstance(x, ast.FunctionDef)]
        rets = [x for x in ast.walk(fi.node) if isinstance(x, ast.Return) and x.value is not None]
        if not nested or not rets:
            continue
        # a factory hands out one of its nested functions (possibly wrapped)
        names = {g.name for g in nested}
        if not any(names & {y.id for y in ast.walk(r.value) if isinstance(y, ast.Name)} for r in rets):
            continue
        n += 1
        # a helper factory whose every call in the library is made while a run is under way (inside a generator, or inside the
        # function a step factory hands out) builds a new scope per run: nothing it holds outlives the run.  A factory nobody in the
        # library calls is public API and is called when the flow is put together.
        sites = _call_sites(ctx).get(fi.qualname, [])
        if sites and all(_per_run_context(ctx, c_) for c_ in sites):
            run.ok(rule, fi.where, fi.qualname, 'helper factory called only while a run is under way (%d call sites): its scope is '
                   'created afresh for every run' % len(sites))
            continue
        hits = closure_rerun_state(_with_normalised_closures(ctx, fi), _module_key_reads(fi.module))
        if not hits:
            run.ok(rule, fi.where, fi.qualname, 'the step function grows nothing that belongs to the factory scope')
        seen = set()
        for nm, node, inner, *kind in hits:
            if nm in seen:
                continue
            seen.add(nm)
            if kind and kind[0] == 'element':
                run.fail(rule, where(ctx.repo, node), fi.qualname, 'object given to the factory as %s changed in place by a run' % nm,
                         '%s() changes, in place, an object that belongs to what the factory was given as %s (an element or entry of '
                         'it): the next run of the same step object - and the caller, who still holds it - find what this run left '
                         'there, not what was passed' % (inner, nm))
                continue
            if kind:
                run.fail(rule, where(ctx.repo, node), fi.qualname, 'factory-scope %s rebound by a run and read by the next before it is set' % nm,
                         '%s belongs to the factory scope and a run rebinds it (nonlocal): %s() uses it before assigning it, so the first '
                         'run starts from what the factory was given and every later run of the same step object from what the previous '
                         'run left there' % (nm, inner))
                continue
            run.fail(rule, where(ctx.repo, node), fi.qualname, 'factory-scope %s grown by the step function across runs' % nm,
                     '%s is created when the step is constructed and %s() adds to it on every run: running the same Flow object '
                     'again continues from what the previous run recorded' % (nm, inner))
    return n


# ---------------------------------------------------------------------- R34c ONE-SHOT RESOURCES CREATED AT CONSTRUCTION

_ONE_SHOT_CALLS = {'builtins.iter', 'builtins.map', 'builtins.filter', 'builtins.zip', 'builtins.open', 'builtins.enumerate',
                   'itertools.chain', 'itertools.islice', 'zipfile.ZipFile', 'kvfile.KVFile', 'kvfile.kvfile.KVFile', 'kvfile.CachedKVFile'}


def _one_shot_expr(ctx, e, fi):
    """Does evaluating e create something that can be consumed / used only once: a generator object (call of a generator function
    or method, generator expression), an iterator over something, an open file / archive / key-value store, a DataStream?"""
    if isinstance(e, ast.GeneratorExp):
        return 'a generator expression'
    if isinstance(e, (ast.ListComp, ast.List, ast.Tuple)):
        elts = [e.elt] if isinstance(e, ast.ListComp) else e.elts
        for x in elts:
            r = _one_shot_expr(ctx, x, fi)
            if r:
                return 'a list of ' + r
        return None
    if isinstance(e, ast.Call):
        en = ctx.res.external_name(e)
        if en in _ONE_SHOT_CALLS:
            return en
        if isinstance(e.func, ast.Attribute) and e.func.attr == 'datastream':
            return 'a DataStream (its resource iterator is consumed by the first run)'
        try:
            tg = ctx.res.resolve_call(e)
        except Exception:
            tg = []
        for t in tg:
            if isinstance(t, FuncInfo) and not isinstance(t.node, ast.Lambda) and t.is_generator:
                return 'the generator %s()' % t.node.name
    return None


def r34_one_shot(ctx, rule='R34', helpers_only=False):
    """A step object may be run more than once (the same Flow object run again).  What its constructor - or the factory of a
    function-style step - creates once and a run then consumes (a generator, an iterator, an open file or key-value store, a
    DataStream) is gone on the second run.  Helper processors that Flow._chain creates afresh for every run are exempt as long as
    _chain really builds the chain on every call."""
    run = ctx.run
    # does _chain rebuild the chain on every call?  (every returning path goes through the loop over the links)
    from rules.framework import find_dispatch_loop
    from sa.paths import Enumerator
    flow, m, loop = find_dispatch_loop(ctx)
    memoised = None
    for p in Enumerator(cap=4096, where=m.qualname).paths(m.node.body):
        if p.term != 'return':
            continue
        through = any(it.kind in ('loop', 'loop_exit') and it.node is loop for it in p.items)
        rets = [it.node for it in p.items if it.kind == 'return']
        if not through and rets and rets[-1].value is not None and any(
                isinstance(x, ast.Attribute) and isinstance(x.value, ast.Name) and x.value.id == 'self' for x in ast.walk(rets[-1].value)):
            memoised = rets[-1]
    run.ok(rule, m.where, m.qualname + (': returns a stored chain on some path' if memoised is not None else ': builds the chain on every call'))
    per_run_helpers = set()
    for n in ast.walk(m.node):
        if isinstance(n, ast.Call) and isinstance(n.func, ast.Name):
            for c in ctx.repo.find_class(n.func.id):
                per_run_helpers.add(c.qualname)
    n_inst = 0
    for c in sorted(ctx.repo.classes.values(), key=lambda c: c.qualname):
        if not ctx.res.is_subclass(c, 'DataStreamProcessor'):
            continue
        init = c.methods.get('__init__')
        if init is None or (helpers_only and c.qualname not in per_run_helpers):
            continue
        others = [mm for k, mm in c.methods.items() if k != '__init__']
        reset = set()
        for mm in others:
            for a in ast.walk(mm.node):
                if isinstance(a, ast.Assign):
                    for t in a.targets:
                        if isinstance(t, ast.Attribute) and isinstance(t.value, ast.Name) and t.value.id == 'self':
                            reset.add(t.attr)
        for a in own_nodes(init.node):
            tgt_ = a.targets[0] if isinstance(a, ast.Assign) and len(a.targets) == 1 else (a.target if isinstance(a, ast.AnnAssign) and a.value is not None else None)
            if not (isinstance(tgt_, ast.Attribute) and isinstance(tgt_.value, ast.Name) and tgt_.value.id == 'self'):
                continue
            attr = tgt_.attr
            kind = _one_shot_expr(ctx, a.value, init)
            if kind is None:
                continue
            n_inst += 1
            used = any(isinstance(x, ast.Attribute) and isinstance(x.value, ast.Name) and x.value.id == 'self' and x.attr == attr
                       and isinstance(x.ctx, ast.Load) for mm in others for x in ast.walk(mm.node))
            exempt = c.qualname in per_run_helpers and memoised is None
            if not used or attr in reset or exempt:
                run.ok(rule, where(ctx.repo, a), '%s: self.%s = %s' % (c.qualname, attr, kind),
                       'created per run (helper built by Flow._chain on every call)' if exempt else 're-created by a run / not used by a run')
                continue
            run.fail(rule, where(ctx.repo, a), c.qualname, 'self.%s holds %s created by the constructor and used by a run' % (attr, kind),
                     'the constructor creates %s once and a run consumes it: the second run of the same Flow object (a checkpointed pipeline '
                     'run again, results() after process()) finds it used up%s' % (
                         kind, '' if c.qualname not in per_run_helpers else ' - Flow._chain now hands out the chain it built before (%s), so '
                         'this helper object is run again too' % where(ctx.repo, memoised)))
    # function-style steps: what the factory creates once and the step function (or a function nested next to it) uses on every run
    for fi in ([] if helpers_only else sorted(ctx.repo.functions.values(), key=lambda f: f.qualname)):
        if isinstance(fi.node, ast.Lambda) or fi.parent is not None or fi.cls is not None:
            continue
        nested = [x for x in ast.walk(fi.node) if isinstance(x, ast.FunctionDef) and x is not fi.node]
        rets = [x for x in ast.walk(fi.node) if isinstance(x, ast.Return) and x.value is not None and
                ctx.repo.enclosing_func(x) is fi]
        names = {g.name for g in nested}
        if not nested or not any(names & {y.id for y in ast.walk(r.value) if isinstance(y, ast.Name)} for r in rets):
            continue
        for a in own_nodes(fi.node):
            if not (isinstance(a, ast.Assign) and len(a.targets) == 1 and isinstance(a.targets[0], ast.Name)):
                continue
            kind = _one_shot_expr(ctx, a.value, fi)
            if kind is None:
                continue
            nm = a.targets[0].id
            n_inst += 1
            used_in = [g.name for g in nested if any(isinstance(x, ast.Name) and x.id == nm and isinstance(x.ctx, ast.Load)
                                                      for x in ast.walk(g))
                       and not any(isinstance(x, ast.Name) and x.id == nm and isinstance(x.ctx, ast.Store) for x in ast.walk(g))]
            if not used_in:
                run.ok(rule, where(ctx.repo, a), '%s: %s = %s' % (fi.qualname, nm, kind), 'not used by the step function')
                continue
            run.fail(rule, where(ctx.repo, a), fi.qualname, '%s holds %s created by the factory and used by the step' % (nm, kind),
                     'the factory creates %s once, when the step is constructed, and %s() uses it on every run: the second run of the '
                     'same Flow object finds it used up / closed' % (kind, used_in[0]))
    return n_inst


# ---------------------------------------------------------------------- R35 STATEFUL DEFAULT ARGUMENTS

_R35_CONTROL = '''
import hashlib
def digest(f, hasher=hashlib.md5()):
    hasher.update(f.read())
    return hasher

def fresh(f, hasher=None):
    hasher = hasher or hashlib.md5()
    hasher.update(f.read())
    return hasher

def collect(x, into=[]):
    into.append(x)
    return into

def configured(x, options={}):
    return options.get(x)
'''

_R35_MUTATORS = {'update', 'append', 'extend', 'add', 'insert', 'pop', 'remove', 'clear', 'setdefault', 'write', 'put', 'popitem',
                 'discard', 'sort', 'reverse', 'send', 'close', 'seek', 'read', '__next__'}


def stateful_defaults(tree):
    """A default argument is evaluated once, when the function is defined: an object created there (a hasher, a list, a store) is
    shared by every call that does not pass its own.  -> [(function node, parameter name, default node, use node)] where the function
    changes the state of the parameter (a mutator call on it, a store into it, next()/iteration of it)."""
    out = []
    for fn in ast.walk(tree):
        if not isinstance(fn, (ast.FunctionDef, ast.AsyncFunctionDef)):
            continue
        a = fn.args
        pos = a.posonlyargs + a.args
        pairs = list(zip(pos[len(pos) - len(a.defaults):], a.defaults)) + [(p, d) for p, d in zip(a.kwonlyargs, a.kw_defaults) if d is not None]
        for p, d in pairs:
            created = isinstance(d, (ast.List, ast.Dict, ast.Set, ast.ListComp, ast.DictComp, ast.SetComp)) or \
                (isinstance(d, ast.Call) and not (isinstance(d.func, ast.Name) and d.func.id in (
                    'frozenset', 'tuple', 'object', 'str', 'int', 'float', 'bool', 'bytes', 'range')) and
                 not (isinstance(d.func, ast.Attribute) and d.func.attr in ('compile',)))
            if not created:
                continue
            rebound = any(isinstance(n, ast.Name) and n.id == p.arg and isinstance(n.ctx, ast.Store) for n in ast.walk(fn))
            use = None
            # (the function's own body: what a nested step function does to a factory's arguments is R34's question, which knows
            # about entries that are reset per run)
            for n in _own_walk(fn):
                if isinstance(n, ast.Call) and isinstance(n.func, ast.Attribute) and isinstance(n.func.value, ast.Name) and \
                        n.func.value.id == p.arg and n.func.attr in _R35_MUTATORS and not _fixed_keys_update(n):
                    use = n
                elif isinstance(n, ast.Subscript) and isinstance(n.ctx, (ast.Store, ast.Del)) and isinstance(n.value, ast.Name) and \
                        n.value.id == p.arg and not isinstance(n.slice, ast.Constant):
                    use = n
                elif isinstance(n, ast.Call) and isinstance(n.func, ast.Name) and n.func.id == 'next' and n.args and \
                        isinstance(n.args[0], ast.Name) and n.args[0].id == p.arg:
                    use = n
                elif isinstance(n, ast.AugAssign) and isinstance(n.target, ast.Name) and n.target.id == p.arg:
                    use = n
            if use is not None and not rebound:
                out.append((fn, p.arg, d, use))
    return out


def r35_stateful_defaults(ctx, include=None, rule='R35'):
    run = ctx.run
    run.rule(rule, 'STATEFUL-DEFAULTS: no function changes the state of an object that was created in its own default argument (such an '
                   'object is made once, when the function is defined, and shared by all calls: a hasher keeps what earlier files fed it, '
                   'a list keeps the items of earlier calls)')
    got = [(f.name, p) for f, p, d, x in stateful_defaults(ast.parse(_R35_CONTROL))]
    if got != [('digest', 'hasher'), ('collect', 'into')]:
        raise AnalysisError('R35 self-check failed: %s' % got)
    n = 0
    for m in sorted(ctx.repo.modules.values(), key=lambda m: m.name):
        if include is not None and not include(m):
            continue
        n += 1
        hits = stateful_defaults(m.tree)
        for fn, p, d, x in hits:
            run.fail(rule, where(ctx.repo, x), fq(ctx.repo, x), 'default %s=%s changed by %s' % (p, u(d), u(x)[:60]),
                     'the parameter %s defaults to an object created when the function is defined (%s) and the function changes it: every '
                     'call that relies on the default continues where the previous one stopped' % (p, u(d)))
        if not hits:
            run.ok(rule, m.relpath, m.name, 'no default argument object is changed by its function')
    return n


# ---------------------------------------------------------------------- R36 MODULE-STATE
_R36_CONTROL = '''
_compiled = {}
NAMES = ['a', 'b']

def compile_selector(text):
    try:
        return _compiled[text]
    except KeyError:
        c = _compiled[text] = make(text)
        return c

def names():
    return list(NAMES)
'''


def module_state(tree):
    """Module-level containers (a name bound, in the module body, to a dict / list / set display or constructor) that a function of
    the module changes in place (subscript store, mutator call, augmented assignment): state shared by every step, every flow and
    every run in the process.  -> [(name, mutating node)]"""
    conts = {}
    for st in tree.body:
        if isinstance(st, ast.Assign) and len(st.targets) == 1 and isinstance(st.targets[0], ast.Name) and _is_mutable_literal(st.value):
            conts[st.targets[0].id] = st
        elif isinstance(st, ast.AnnAssign) and isinstance(st.target, ast.Name) and st.value is not None and _is_mutable_literal(st.value):
            conts[st.target.id] = st
    out = []
    if not conts:
        return out
    for fn in ast.walk(tree):
        if not isinstance(fn, (ast.FunctionDef, ast.AsyncFunctionDef)):
            continue
        local = {n.id for n in ast.walk(fn) if isinstance(n, ast.Name) and isinstance(n.ctx, ast.Store)} | {a.arg for a in ast.walk(fn) if isinstance(a, ast.arg)}
        declared_global = {nm for g in ast.walk(fn) if isinstance(g, ast.Global) for nm in g.names}
        local -= declared_global
        for n in ast.walk(fn):
            tg = []
            if isinstance(n, ast.Assign):
                tg = n.targets
            elif isinstance(n, (ast.AugAssign, ast.AnnAssign)):
                tg = [n.target]
            elif isinstance(n, ast.Delete):
                tg = n.targets
            for t in tg:
                b = t
                sub = False
                while isinstance(b, (ast.Subscript, ast.Attribute)):
                    b = b.value
                    sub = True
                if isinstance(b, ast.Name) and b.id in conts and b.id not in local and (sub or isinstance(n, ast.AugAssign) or b.id in declared_global):
                    out.append((b.id, n))
            if isinstance(n, ast.Call) and isinstance(n.func, ast.Attribute) and n.func.attr in _MUTATORS:
                b = n.func.value
                while isinstance(b, (ast.Subscript, ast.Attribute)):
                    b = b.value
                if isinstance(b, ast.Name) and b.id in conts and b.id not in local:
                    out.append((b.id, n))
    return out


def r36_module_state(ctx, include=None, rule='R36'):
    run = ctx.run
    run.rule(rule, 'MODULE-STATE: no function changes a container that lives at module level (a cache of compiled patterns, a registry '
                   'filled at run time): what one step, flow or run stores there is read by every other one in the process, under a key '
                   'that cannot carry everything the value depends on')
    got = sorted({nm for nm, _ in module_state(ast.parse(_R36_CONTROL))})
    if got != ['_compiled']:
        raise AnalysisError('R36 self-check failed: %s' % got)
    n = 0
    for m in sorted(ctx.repo.modules.values(), key=lambda m: m.name):
        if include is not None and not include(m):
            continue
        n += 1
        hits = module_state(m.tree)
        seen = set()
        if not hits:
            run.ok(rule, m.relpath, m.name, 'no module-level container is changed by a function')
        for nm, node in hits:
            if nm in seen:
                continue
            seen.add(nm)
            run.fail(rule, where(ctx.repo, node), m.name, 'module-level %s changed by a function' % nm,
                     'the module-level container %s is changed at run time (%s): it is shared by all steps, flows and runs of the '
                     'process, so what one use stores there decides what another one gets' % (nm, u(node)[:70]))
    return n
