"""R28 ITERATION-INDEPENDENCE: what a row-wise (or field-wise) loop produces for one item depends on that item alone —
no state written while handling earlier items is read when handling a later one, except the state listed per function."""
import ast

from sa.deps import Facts, base_name, names_in, pseudo
from sa.loader import AnalysisError, FuncInfo, own_nodes
from sa.model import fq, u, where

MUT = {'append', 'add', 'extend', 'update', 'setdefault', 'insert', 'pop', 'remove', 'clear', 'discard', 'popitem', 'appendleft'}


def _targets(t):
    if isinstance(t, ast.Name):
        yield t.id
    elif isinstance(t, (ast.Tuple, ast.List)):
        for e in t.elts:
            yield from _targets(e)
    elif isinstance(t, ast.Starred):
        yield from _targets(t.value)


def definitely_assigns(st, nm):
    if isinstance(st, ast.Assign):
        return any(nm in set(_targets(t)) for t in st.targets)
    if isinstance(st, ast.AnnAssign):
        return st.value is not None and nm in set(_targets(st.target))
    if isinstance(st, ast.If):
        return bool(st.orelse) and any(definitely_assigns(x, nm) for x in st.body) and \
            any(definitely_assigns(x, nm) for x in st.orelse)
    if isinstance(st, ast.Try):
        body_ok = any(definitely_assigns(x, nm) for x in st.body)
        handlers_ok = all(any(definitely_assigns(x, nm) for x in h.body) or _always_leaves(h.body) for h in st.handlers)
        return (body_ok and handlers_ok) or any(definitely_assigns(x, nm) for x in st.finalbody)
    if isinstance(st, (ast.With,)):
        if any(i.optional_vars is not None and nm in set(_targets(i.optional_vars)) for i in st.items):
            return True
        return any(definitely_assigns(x, nm) for x in st.body)
    return False


def _always_leaves(stmts):
    return bool(stmts) and isinstance(stmts[-1], (ast.Raise, ast.Continue, ast.Break, ast.Return))


def loop_carried(fi, loop, current=(), ctx=None):
    """Names whose value written in one iteration of `loop` can be read in a later iteration.
    -> dict name -> (write node, read node)"""
    loopvars = (set(_targets(loop.target)) if isinstance(loop, ast.For) else set()) | set(current)
    body = loop.body
    writes = {}      # name -> [node]
    via_call = set()
    for st in body:
        for n in ast.walk(st):
            if isinstance(n, (ast.FunctionDef, ast.Lambda)):
                continue
            if isinstance(n, ast.Assign):
                for t in n.targets:
                    for nm in _targets(t):
                        writes.setdefault(nm, []).append(n)
                    if isinstance(t, (ast.Subscript, ast.Attribute)):
                        b = pseudo(t) if isinstance(t, ast.Attribute) and pseudo(t) else base_name(t)
                        if b:
                            writes.setdefault(b, []).append(n)
            elif isinstance(n, ast.AugAssign):
                b = pseudo(n.target) or base_name(n.target)
                if b:
                    writes.setdefault(b, []).append(n)
            elif isinstance(n, ast.Call) and isinstance(n.func, ast.Attribute) and n.func.attr in MUT:
                b = pseudo(n.func.value) or base_name(n.func.value)
                if b:
                    writes.setdefault(b, []).append(n)
            elif isinstance(n, (ast.For, ast.comprehension)):
                for nm in _targets(n.target):
                    writes.setdefault(nm, []).append(n)
            elif isinstance(n, ast.NamedExpr):
                writes.setdefault(n.target.id, []).append(n)
            elif isinstance(n, ast.ExceptHandler) and n.name:
                writes.setdefault(n.name, []).append(n)
            elif isinstance(n, ast.withitem) and n.optional_vars is not None:
                for nm in _targets(n.optional_vars):
                    writes.setdefault(nm, []).append(n)
    # a container defined outside the loop and handed, inside the loop, to a repository function that mutates that parameter
    if ctx is not None:
        assigned_in_body = set(writes)
        for st in body:
            for n in ast.walk(st):
                if not isinstance(n, ast.Call):
                    continue
                for i, a in enumerate(n.args):
                    nm = pseudo(a)
                    if nm is None or nm in loopvars or nm in assigned_in_body:
                        continue
                    for t in ctx.res.resolve_call(n):
                        if isinstance(t, FuncInfo) and not isinstance(t.node, ast.Lambda):
                            ps = [p for p in t.params if p not in ('self', 'cls')]
                            if i < len(ps) and _mutates_and_reads(t, ps[i]):
                                writes.setdefault(nm, []).append(n)
                                via_call.add(nm)
    carried = {}
    for nm in via_call:
        carried[nm] = (writes[nm][0], writes[nm][0])
    for nm, ws in writes.items():
        if nm in loopvars:
            continue
        # objects rooted at the loop variable (row[...] = ..) belong to the current item
        if any(nm == v or nm.startswith(v + '.') for v in loopvars):
            continue
        # first statement of the body that definitely (on every path through it) assigns the name
        first_def = None
        for i, st in enumerate(body):
            if definitely_assigns(st, nm):
                first_def = i
                break
        # reads of the name before that definition (or anywhere, if there is none)
        for i, st in enumerate(body):
            if first_def is not None and i > first_def:
                break
            for n in ast.walk(st):
                if isinstance(n, ast.Name) and n.id == nm.split('.')[0] and isinstance(n.ctx, ast.Load):
                    full = n
                    # self.x pseudo names
                    par = getattr(n, '_parent', None)
                    if '.' in nm:
                        if not (isinstance(par, ast.Attribute) and pseudo(par) == nm):
                            continue
                        full = par
                        par = getattr(par, '_parent', None)
                    # skip the receiver position of the very mutation / subscript-store that writes it
                    if isinstance(par, ast.Attribute) and isinstance(getattr(par, '_parent', None), ast.Call) \
                            and par._parent.func is par and par.attr in MUT and par._parent in ws:
                        continue
                    if isinstance(par, ast.Subscript) and isinstance(par.ctx, ast.Store):
                        continue
                    if first_def is not None and i == first_def:
                        # read inside the defining statement's own value: `x = f(x)` is carried
                        st_ = body[i]
                        if isinstance(st_, ast.Assign) and n in list(ast.walk(st_.value)):
                            carried.setdefault(nm, (ws[0], n))
                        continue
                    if first_def is not None and i < first_def or first_def is None:
                        # written somewhere in the body and read without a fresh definition first
                        defined_inside_only = _is_local_fresh(nm, body, n)
                        if not defined_inside_only:
                            carried.setdefault(nm, (ws[0], n))
    return carried


def _is_local_fresh(nm, body, read):
    """Is the read dominated by an assignment to nm inside the same nested block (e.g. `for k, v in ..: x = ..; use x`)?"""
    node = read
    while getattr(node, '_parent', None) is not None:
        parent = node._parent
        for fld in ('body', 'orelse', 'finalbody'):
            blk = getattr(parent, fld, None)
            if isinstance(blk, list) and node in blk:
                for st in blk[:blk.index(node)]:
                    if definitely_assigns(st, nm):
                        return True
        if isinstance(parent, (ast.For, ast.comprehension)) and nm in set(_targets(parent.target)):
            return True
        if isinstance(parent, ast.ExceptHandler) and parent.name == nm:
            return True
        if isinstance(parent, (ast.ListComp, ast.SetComp, ast.DictComp, ast.GeneratorExp)):
            if any(nm in set(_targets(g.target)) for g in parent.generators):
                return True
        if parent in body:
            return False
        node = parent
    return False


def r28_independence(ctx, loops, rule='R28'):
    """loops: list of (FuncInfo, loop node, allowed: dict name -> reason)"""
    run = ctx.run
    run.rule(rule, 'ITERATION-INDEPENDENCE: in a row-wise / field-wise loop nothing written while handling one item is read while '
                   'handling a later item, except the explicitly listed state (counters, seen-key sets, ...): caches, "first row '
                   'decides" shortcuts and sticky overrides make the result for one row depend on its predecessors')
    n = 0
    for fi, loop, allowed in loops:
        n += 1
        carried = loop_carried(fi, loop)
        bad = {k: v for k, v in carried.items() if k not in allowed}
        if not bad:
            run.ok(rule, where(ctx.repo, loop), '%s: loop over %s' % (fi.qualname, u(loop.iter) if isinstance(loop, ast.For) else u(loop.test)),
                   'carried state: %s' % (sorted(carried) or 'none'))
            continue
        for nm, (w, r) in sorted(bad.items()):
            run.fail(rule, where(ctx.repo, r), fi.qualname, 'state %s carried across iterations of the loop over %s'
                     % (nm, u(loop.iter) if isinstance(loop, ast.For) else u(loop.test)),
                     'the value handled for one item depends on %r, which is written while handling earlier items (line %d): '
                     'the step is no longer a function of the current item alone' % (nm, getattr(w, 'lineno', 0)))
    return n


def _mutates_and_reads(fi, param):
    mut = read = False
    for n in ast.walk(fi.node):
        if isinstance(n, ast.Call) and isinstance(n.func, ast.Attribute) and n.func.attr in MUT and pseudo(n.func.value) == param:
            mut = True
        elif isinstance(n, (ast.Assign, ast.AugAssign)):
            tg = n.targets if isinstance(n, ast.Assign) else [n.target]
            if any(isinstance(t, ast.Subscript) and base_name(t) == param for t in tg):
                mut = True
        if isinstance(n, ast.Compare) and any(pseudo(c) == param for c in n.comparators):
            read = True
        if isinstance(n, ast.Subscript) and isinstance(n.ctx, ast.Load) and pseudo(n.value) == param:
            read = True
        if isinstance(n, ast.Call) and isinstance(n.func, ast.Attribute) and n.func.attr in ('get', 'items', 'keys', 'values') \
                and pseudo(n.func.value) == param:
            read = True
    return mut and read


def carried_kind(loop, nm):
    """Use-kind of a carried name inside `loop`: SEEN (only .add / membership), COUNTER (only += constant, compared / passed on),
    FLAG (only constants assigned, only truth-tested), BUFFER (list of derived values: append / clear / slicing / len / indexing),
    WRITE_ONCE (assigned only under an `is None` test of itself), TABLE (subscript stores and lookups), OTHER."""
    writes, reads = [], []
    for st in loop.body:
        for n in ast.walk(st):
            if isinstance(n, ast.Call) and isinstance(n.func, ast.Attribute) and pseudo(n.func.value) == nm:
                (writes if n.func.attr in MUT else reads).append(('call', n.func.attr, n))
            elif isinstance(n, ast.AugAssign) and pseudo(n.target) == nm:
                writes.append(('aug', n, n))
            elif isinstance(n, ast.Assign):
                for t in n.targets:
                    if pseudo(t) == nm:
                        writes.append(('assign', n.value, n))
                    elif isinstance(t, ast.Subscript) and base_name(t) == nm:
                        writes.append(('setitem', n.value, n))
            elif isinstance(n, ast.Compare) and (pseudo(n.left) == nm or any(pseudo(c) == nm for c in n.comparators)):
                ops = n.ops
                if any(isinstance(o, (ast.In, ast.NotIn)) for o in ops) and any(pseudo(c) == nm for c in n.comparators):
                    reads.append(('member', None, n))
                elif any(isinstance(o, (ast.Is, ast.IsNot)) for o in ops):
                    reads.append(('isnone', None, n))
                else:
                    reads.append(('compare', None, n))
            elif isinstance(n, ast.Subscript) and isinstance(n.ctx, ast.Load) and pseudo(n.value) == nm:
                reads.append(('getitem', None, n))
    wk = set(w[0] if w[0] != 'call' else 'call:' + w[1] for w in writes)
    rk = set(r[0] if r[0] != 'call' else 'call:' + r[1] for r in reads)
    if wk and wk <= {'call:add', 'call:update'} and rk <= {'member'}:
        return 'SEEN'
    if wk and wk <= {'aug', 'assign'} and all((w[0] == 'aug' and isinstance(w[1].value, ast.Constant)) or
                                                (w[0] == 'assign' and isinstance(w[1], ast.Constant) and isinstance(w[1].value, int))
                                                or (w[0] == 'aug' and isinstance(w[1].op, ast.Mult)) for w in writes) \
            and rk <= {'compare'}:
        return 'COUNTER'
    if wk == {'assign'} and all(isinstance(w[1], ast.Constant) for w in writes) and not (rk - {'compare'}):
        return 'FLAG'
    if wk == {'assign'} and all(_guarded_by_isnone(w[2], nm, loop) for w in writes):
        return 'WRITE_ONCE'
    if wk and wk <= {'call:append', 'call:clear', 'call:extend', 'assign', 'call:pop', 'aug'} and \
            rk <= {'getitem', 'compare', 'call:index', 'call:count'}:
        return 'BUFFER'
    if 'setitem' in wk or 'call:setdefault' in wk:
        return 'TABLE'
    return 'OTHER'


def _guarded_by_isnone(node, nm, loop):
    p = getattr(node, '_parent', None)
    while p is not None and p is not loop:
        if isinstance(p, ast.If) and isinstance(p.test, ast.Compare) and pseudo(p.test.left) == nm \
                and isinstance(p.test.ops[0], ast.Is) and isinstance(p.test.comparators[0], ast.Constant) \
                and p.test.comparators[0].value is None:
            return True
        p = getattr(p, '_parent', None)
    return False


def loops_of(fi):
    """(loop, enclosing loop variables) for every for-loop of fi, outermost first."""
    out = []

    def assigned_names(st):
        names = set()
        for n in ast.walk(st):
            if isinstance(n, ast.Assign):
                for t in n.targets:
                    names |= set(_targets(t))
        return names

    def visit(stmts, current, in_loop=False):
        current = list(current)
        for st in stmts:
            if isinstance(st, (ast.FunctionDef, ast.AsyncFunctionDef, ast.ClassDef)):
                continue
            if isinstance(st, ast.For):
                out.append((st, tuple(current)))
                visit(st.body, current + list(_targets(st.target)), True)
                visit(st.orelse, current, in_loop)
            else:
                for fld in ('body', 'orelse', 'finalbody'):
                    b = getattr(st, fld, None)
                    if isinstance(b, list):
                        visit(b, current, in_loop)
                if isinstance(st, ast.Try):
                    for h in st.handlers:
                        visit(h.body, current, in_loop)
            if in_loop:
                # per-item state: names this statement definitely (re)defines belong to the current item from here on
                for nm in assigned_names(st):
                    if definitely_assigns(st, nm) and nm not in current:
                        current.append(nm)
    visit(fi.node.body, [])
    return out


def via_names(carried, k):
    w, r = carried[k]
    return {k} if (w is r and isinstance(w, ast.Call) and not (isinstance(w.func, ast.Attribute) and w.func.attr in MUT)) else set()


def r28_functions(ctx, specs, rule='R28'):
    """specs: list of (qualified function name, {allowed carried name: reason})"""
    run = ctx.run
    run.rule(rule, 'ITERATION-INDEPENDENCE: in a row-wise / field-wise loop nothing written while handling one item is read while '
                   'handling a later item, except the explicitly listed state (counters, seen-key sets, ...): caches, "first row '
                   'decides" shortcuts and sticky overrides make the result for one row depend on its predecessors')
    n = 0
    for q, allowed in specs:
        fi = q if hasattr(q, 'qualname') else ctx.repo.func(q)
        fi = ctx.N(fi)      # a loop that moved into a chained generator / helper is still this function's loop
        lps = loops_of(fi)
        if not lps:
            run.fail(rule, fi.where, fi.qualname, 'no loop', 'row-wise function has no loop any more')
            continue
        bad_any = False
        for loop, current in lps:
            n += 1
            carried = loop_carried(fi, loop, current, ctx)
            kinds = allowed.get('__kinds__', ()) if isinstance(allowed, dict) else ()
            bad = {}
            for k, v in carried.items():
                if k in allowed:
                    continue
                kd = carried_kind(loop, k) if k not in via_names(carried, k) else 'EXTERNAL'
                if kd in kinds:
                    continue
                bad[k] = v
            for nm, (w, r) in sorted(bad.items()):
                bad_any = True
                run.fail(rule, where(ctx.repo, r), fi.qualname, 'state %s carried across iterations of `for %s in %s`'
                         % (nm, u(loop.target), u(loop.iter)),
                         'what is produced for one item depends on %r, which is written while handling earlier items (line %d): '
                         'the step is no longer a function of the current item alone' % (nm, getattr(w, 'lineno', 0)))
        if not bad_any:
            run.ok(rule, fi.where, fi.qualname, '%d loop(s), carried state only %s' % (len(lps), sorted(allowed) or 'none'))
    return n
