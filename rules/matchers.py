"""R8 MATCHER-KIND, R9 ANCHORED-NAME-REGEX, R10 ARITY."""
import ast

from sa.deps import Facts, base_name, names_in, pseudo
from sa.loader import AnalysisError, ClassInfo, FuncInfo, own_nodes, parent_chain
from sa.model import _const, fq, matcher_sites, u, where

PKG_CTORS = ('datapackage.Package', 'datapackage.package.Package')


def _kind(ctx, expr, fi, depth=0):
    """Abstract kind of the second ResourceMatcher argument.
    -> 'Package' | 'package-descriptor' | 'PackageWrapper' | 'resource-descriptor' | 'Resource' | 'unknown'"""
    res = ctx.res
    if depth > 4:
        return 'unknown'
    if isinstance(expr, ast.Call) and res.external_name(expr) in PKG_CTORS:
        return 'Package'
    if isinstance(expr, ast.Name) or pseudo(expr):
        nm = pseudo(expr)
        # parameter roles
        f = fi
        while f is not None:
            if nm in f.all_params:
                if nm == 'package' and f.all_params == ['package']:
                    return 'PackageWrapper'
                if f.cls is not None and f.name in ('process_datapackage', 'safe_process_datapackage') \
                        and len(f.params) > 1 and f.params[1] == nm:
                    return 'Package'
                if nm == 'rows' and f.all_params == ['rows']:
                    return 'ResourceWrapper'
                if f.cls is not None and f.name == 'process_resource' and len(f.params) > 1 and f.params[1] == nm:
                    return 'ResourceWrapper'
                # parameter of a helper (a method / function the step was split into): what its call sites pass
                kinds_ = set()
                for g in ctx.repo.functions.values():
                    if isinstance(g.node, ast.Lambda) or g is f:
                        continue
                    for c_ in own_nodes(g.node):
                        if isinstance(c_, ast.Call) and any(t is f for t in res._resolve_callee(c_.func, g.module, g)):
                            drop = 1 if (f.cls is not None and isinstance(c_.func, ast.Attribute)
                                         and 'staticmethod' not in [u(d) for d in f.node.decorator_list]) else 0
                            ps = f.all_params[drop:]
                            arg_ = None
                            if nm in ps and ps.index(nm) < len(c_.args):
                                arg_ = c_.args[ps.index(nm)]
                            for k_ in c_.keywords:
                                if k_.arg == nm:
                                    arg_ = k_.value
                            if arg_ is not None:
                                kinds_.add(_kind(ctx, arg_, g, depth + 1))
                if len(kinds_) == 1:
                    return kinds_.pop()
                return 'unknown'
            f = f.parent if isinstance(f.parent, FuncInfo) else None
        # local / attribute assigned somewhere in the function or the class
        scopes = [fi]
        cls = ctx.repo.enclosing_class(fi.node)
        if cls is not None and nm.startswith('self.'):
            scopes = [m for k in cls.mro for m in k.methods.values()]
        kinds = set()
        for sc in scopes:
            facts = Facts(sc, include_nested=False)
            # (for a plain local: what the name itself is bound to, not what is stored into parts of the object it names)
            direct = list(facts.assigns.get(nm, [])) if not nm.startswith('self.') else []
            for v in (direct or facts.values_of(nm)):
                if nm.startswith('self.') and isinstance(v, ast.Constant) and v.value is None:
                    continue
                # tuple unpacking: `a, b = self.load_source` -> element of a user-supplied (descriptor, iterators) pair
                kinds.add(_kind_value(ctx, v, sc, nm, depth))
        kinds.discard(None)
        if len(kinds) == 1:
            return kinds.pop()
        if not kinds:
            return 'unknown'
        return 'mixed(%s)' % ','.join(sorted(kinds))
    if isinstance(expr, ast.Attribute):
        base = _kind(ctx, expr.value, fi, depth + 1)
        if expr.attr == 'pkg' and base == 'PackageWrapper':
            return 'Package'
        if expr.attr == 'descriptor' and base == 'Package':
            return 'package-descriptor'
        if expr.attr == 'res' and base == 'ResourceWrapper':
            return 'Resource'
        if expr.attr == 'descriptor' and base == 'Resource':
            return 'resource-descriptor'
        if expr.attr == 'dp' and base == 'unknown':
            return 'unknown'
        return 'unknown'
    return 'unknown'


def _kind_value(ctx, v, sc, nm, depth):
    if isinstance(v, ast.Call) and ctx.res.external_name(v) in PKG_CTORS:
        return 'Package'
    if isinstance(v, (ast.Name, ast.Attribute)):
        if pseudo(v) == nm:
            return None
        k = _kind(ctx, v, sc, depth + 1)
        if k == 'unknown' and pseudo(v) == 'self.load_source':
            # element of the user-supplied (descriptor, iterators) pair: a descriptor iff it is subscripted with 'resources'
            places = [(sc, nm)]
            # the element may be handed to a helper before it is used: follow it one call deep
            for c_ in own_nodes(sc.node):
                if isinstance(c_, ast.Call):
                    for t in ctx.res._resolve_callee(c_.func, sc.module, sc):
                        if isinstance(t, FuncInfo) and not isinstance(t.node, ast.Lambda):
                            drop = 1 if (t.cls is not None and isinstance(c_.func, ast.Attribute)
                                         and 'staticmethod' not in [u(d) for d in t.node.decorator_list]) else 0
                            ps = t.all_params[drop:]
                            for i_, a_ in enumerate(c_.args):
                                if pseudo(a_) == nm and i_ < len(ps):
                                    places.append((t, ps[i_]))
            for f_, n_ in places:
                for n in own_nodes(f_.node):
                    if isinstance(n, ast.Subscript) and _const(n.slice) == 'resources' and pseudo(n.value) == n_:
                        return 'package-descriptor'
        return k
    return 'unknown'


def r8_matcher_kind(ctx, rule='R8', floor=20):
    run = ctx.run
    run.rule(rule, 'MATCHER-KIND: the second argument of every ResourceMatcher(selector, X) is a Package or a package '
                   'descriptor (the matcher resolves integer selectors through X.resources / X["resources"])')
    sites = matcher_sites(ctx.repo, ctx.res)
    run.floor(rule, len(sites), floor, 'ResourceMatcher constructions')
    for c in sites:
        fi = ctx.repo.enclosing_func(c)
        arg = c.args[1] if len(c.args) > 1 else None
        for k in c.keywords:
            if k.arg == 'datapackage':
                arg = k.value
        if arg is None or fi is None:
            run.fail(rule, where(ctx.repo, c), fq(ctx.repo, c), c, 'ResourceMatcher built without a package')
            continue
        kind = _kind(ctx, arg, fi)
        if kind == 'unknown':
            raise AnalysisError('%s: cannot classify matcher argument %s in %s' % (where(ctx.repo, c), u(arg), fi.qualname))
        run.check(kind in ('Package', 'package-descriptor'), rule, where(ctx.repo, c), fi.qualname, c,
                  'ResourceMatcher is given a %s (%s) instead of the package: an integer selector cannot be resolved '
                  '(.resources / ["resources"] lookup fails)' % (kind, u(arg)), detail=kind)
    return sites


# ---------------------------------------------------------------------- R9

def _parts(ctx, expr, fi, facts, depth=0):
    """Abstract string: list of ('lit', s) | ('var', text).  None if not a string-building expression we know."""
    if depth > 4:
        return [('var', u(expr))]
    if isinstance(expr, ast.Constant) and isinstance(expr.value, str):
        return [('lit', expr.value)]
    if isinstance(expr, ast.BinOp) and isinstance(expr.op, ast.Add):
        return _parts(ctx, expr.left, fi, facts, depth + 1) + _parts(ctx, expr.right, fi, facts, depth + 1)
    if isinstance(expr, ast.JoinedStr):
        out = []
        for v in expr.values:
            if isinstance(v, ast.Constant):
                out.append(('lit', v.value))
            else:
                out.append(('var', u(v.value)))
        return out
    if isinstance(expr, ast.Call) and isinstance(expr.func, ast.Attribute) and expr.func.attr == 'format' \
            and isinstance(expr.func.value, ast.Name):
        # a template given a name at module level: WHOLE_NAME = '^(?:{})$'
        from sa.normalize import module_literals
        lit = module_literals(fi.module).get(expr.func.value.id)
        if isinstance(lit, ast.Constant) and isinstance(lit.value, str):
            import copy as _copy
            e2 = _copy.copy(expr)
            e2.func = ast.Attribute(value=lit, attr='format', ctx=ast.Load())
            return _parts(ctx, e2, fi, facts, depth + 1)
    if isinstance(expr, ast.Name):
        from sa.normalize import module_literals
        lit = module_literals(fi.module).get(expr.id) if fi is not None else None
        if isinstance(lit, ast.Constant) and isinstance(lit.value, str):
            return [('lit', lit.value)]
    if isinstance(expr, ast.Call) and isinstance(expr.func, ast.Attribute) and expr.func.attr == 'format' \
            and isinstance(expr.func.value, ast.Constant) and isinstance(expr.func.value.value, str):
        tpl = expr.func.value.value
        out = []
        import re as _re
        pos = 0
        for m in _re.finditer(r'\{[^{}]*\}', tpl):
            if m.start() > pos:
                out.append(('lit', tpl[pos:m.start()]))
            fld = m.group(0)[1:-1]
            kw = {k.arg: k.value for k in expr.keywords}
            auto = sum(1 for x in out if x[0] == 'var')
            if fld == '' and auto < len(expr.args):
                out.append(('var', u(expr.args[auto])))
            elif fld.isdigit() and int(fld) < len(expr.args):
                out.append(('var', u(expr.args[int(fld)])))
            elif fld in kw:
                out.append(('var', u(kw[fld])))
            else:
                out.append(('var', m.group(0)))
            pos = m.end()
        if pos < len(tpl):
            out.append(('lit', tpl[pos:]))
        return out
    if isinstance(expr, ast.IfExp):
        return [('var', u(expr))]
    if isinstance(expr, ast.Name) and getattr(expr, '_parent', None) is not None:
        from sa.normalize import reaching_value
        anchor = expr
        while getattr(anchor, '_parent', None) is not None and not isinstance(anchor, ast.stmt):
            anchor = anchor._parent
        v = reaching_value(anchor, expr.id)
        if v is not None:
            return _parts(ctx, v, fi, facts, depth + 1)
    return [('var', u(expr))]


def anchored(parts):
    if not parts:
        return False
    first, last = parts[0], parts[-1]
    a = first[0] == 'lit' and (first[1].startswith('^') or first[1].startswith('\\A'))
    z = last[0] == 'lit' and (last[1].endswith('$') or last[1].endswith('\\Z')) and not last[1].endswith('\\$')
    return a and z


def ungrouped_regex_parts(parts):
    """Indices of the variable parts of an anchored pattern that may hold a raw regular expression and are not enclosed in a
    group by the literals around them."""
    import re as _re
    out = []
    for i, p in enumerate(parts):
        if p[0] != 'var' or p[1].startswith('re.escape('):
            continue
        before = parts[i - 1][1] if i > 0 and parts[i - 1][0] == 'lit' else ''
        after = parts[i + 1][1] if i + 1 < len(parts) and parts[i + 1][0] == 'lit' else ''
        if _re.search(r'\((\?:|\?P<\w+>)?$', before) and after.startswith(')'):
            continue
        out.append(i)
    return out


def _pattern_uses(ctx, fi, name_holder):
    """Method names called on a compiled pattern bound to `name_holder` (plain or self.x) anywhere in the module/class,
    following one level of argument passing to local functions."""
    uses = []
    mod = fi.module
    names = {name_holder}
    # propagate through calls to repo functions: f(name) -> parameter
    for n in ast.walk(mod.tree):
        if isinstance(n, ast.Call):
            for i, a in enumerate(n.args):
                if pseudo(a) in names:
                    for t in ctx.res.resolve_call(n):
                        if isinstance(t, FuncInfo) and i < len(t.params):
                            for x in ast.walk(t.node):
                                if isinstance(x, ast.Call) and isinstance(x.func, ast.Attribute) \
                                        and pseudo(x.func.value) == t.params[i]:
                                    uses.append((x.func.attr, x))
    for n in ast.walk(mod.tree):
        if isinstance(n, ast.Call) and isinstance(n.func, ast.Attribute) and pseudo(n.func.value) in names:
            uses.append((n.func.attr, n))
        # iteration over a list of compiled patterns: for f in field_res: f.match(..) / for src, tgt in field_res
    return uses


RE_FUNCS = {'re.compile', 're.match', 're.search', 're.fullmatch', 're.sub', 're.subn', 're.findall', 're.split',
            're.finditer'}


def regex_sites(ctx, modules=None):
    out = []
    for m in ctx.repo.modules.values():
        if modules is not None and m.name not in modules:
            continue
        for n in ast.walk(m.tree):
            if isinstance(n, ast.Call) and ctx.res.external_name(n) in RE_FUNCS:
                out.append(n)
    return out


def r9_anchored(ctx, modules, rule='R9', floor=1, name_test_only=True):
    """Every pattern that is built from a user-supplied *name* and used to test a resource / field name is a
    full-string pattern: '^' + x + '$' (concatenation, format or f-string), or only ever used through .fullmatch."""
    run = ctx.run
    run.rule(rule, 'ANCHORED-NAME-REGEX: a pattern built from a user-supplied resource / field name is anchored at both '
                   'ends (^...$) or only used through fullmatch; with regex disabled the name goes through re.escape')
    n = 0
    for c in regex_sites(ctx, modules):
        en = ctx.res.external_name(c)
        fi = ctx.repo.enclosing_func(c)
        if fi is None or not c.args:
            continue
        pat = c.args[0]
        facts = Facts(fi, include_nested=False)
        if isinstance(pat, ast.Constant):
            continue     # fixed internal pattern (FIELDS_RE, key parsing), not built from a name
        parts = _parts(ctx, pat, fi, facts)
        if en in ('re.sub', 're.subn', 're.findall', 're.split', 're.finditer', 're.search'):
            # substitution / extraction, not a name test
            continue
        if en == 're.fullmatch':
            n += 1
            run.ok(rule, where(ctx.repo, c), u(c), 'fullmatch')
            continue
        n += 1
        if en == 're.compile' and (len(c.args) > 1 or c.keywords):
            run.fail(rule, where(ctx.repo, c), fi.qualname, c,
                     'the name pattern is compiled with flags (%s): names are then matched under other rules than the plain '
                     'full-string regular expression the documentation promises (e.g. case-insensitively)'
                     % ', '.join([u(a) for a in c.args[1:]] + [u(k.value) for k in c.keywords]))
            continue
        if anchored(parts):
            # ^ and $ bind tighter than |: a user pattern that is itself an alternation escapes both anchors ('^a|b$' is '^a' or
            # 'b$') unless it is enclosed in a group (or the test is fullmatch); re.escape()d names contain no bare |
            loose = ungrouped_regex_parts(parts)
            if loose:
                run.fail(rule, where(ctx.repo, c), fi.qualname, 'anchors around an ungrouped pattern: ' + ''.join(
                    p[1] if p[0] == 'lit' else '<%s>' % p[1] for p in parts),
                    'the name pattern is anchored by putting ^ and $ around the user\'s regular expression without grouping it: for an '
                    'alternation such as a|b the anchors apply to the outer alternatives only (^a | b$), so with match() every name '
                    'that merely starts with a is accepted - "fully matches" does not hold')
                continue
            run.ok(rule, where(ctx.repo, c), u(c), 'anchored: ' + ''.join(p[1] if p[0] == 'lit' else '<%s>' % p[1]
                                                                        for p in parts))
            continue
        if en == 're.match':
            run.fail(rule, where(ctx.repo, c), fi.qualname, c, 'name tested with an unanchored re.match')
            continue
        # unanchored compile: acceptable only if every use is fullmatch
        holder = None
        p = getattr(c, '_parent', None)
        while p is not None and not isinstance(p, (ast.Assign, ast.FunctionDef, ast.Lambda)):
            p = getattr(p, '_parent', None)
        if isinstance(p, ast.Assign) and len(p.targets) == 1:
            holder = pseudo(p.targets[0])
        uses = _pattern_uses(ctx, fi, holder) if holder else []
        if holder and isinstance(p.value, (ast.ListComp, ast.List, ast.Tuple)):
            # a list of compiled patterns (possibly of (pattern, x) tuples): follow `for f in <list>` / `for f, _ in <list>`
            elt = p.value.elt if isinstance(p.value, ast.ListComp) else None
            pos = 0
            if isinstance(elt, ast.Tuple):
                pos = next((i for i, e in enumerate(elt.elts) if c in list(ast.walk(e))), 0)
            for lp in ast.walk(fi.module.tree):
                its = []
                if isinstance(lp, ast.For) and pseudo(lp.iter) == holder:
                    its.append(lp.target)
                if isinstance(lp, ast.comprehension) and pseudo(lp.iter) == holder:
                    its.append(lp.target)
                for t in its:
                    nm = None
                    if isinstance(t, ast.Name):
                        nm = t.id
                    elif isinstance(t, ast.Tuple) and pos < len(t.elts) and isinstance(t.elts[pos], ast.Name):
                        nm = t.elts[pos].id
                    if nm:
                        uses.extend(_pattern_uses(ctx, fi, nm))
        test_uses = [(a, x) for a, x in uses if a in ('match', 'search', 'fullmatch')]
        bad = [(a, x) for a, x in test_uses if a != 'fullmatch']
        if holder is not None and uses and not test_uses and all(a in ('sub', 'subn', 'split', 'findall', 'finditer') for a, x in uses):
            continue     # a compiled pattern only ever used for substitution / extraction is not a name test
        if holder is None or not test_uses:
            raise AnalysisError('%s: cannot follow the uses of unanchored pattern %s' % (where(ctx.repo, c), u(c)))
        run.check(not bad, rule, where(ctx.repo, c), fi.qualname, c,
                  'pattern built from a name is neither anchored (^...$) nor used only through fullmatch: a selector '
                  'also hits names it merely prefixes (%s)' % ', '.join('%s at line %d' % (a, x.lineno) for a, x in bad),
                  detail='unanchored but only fullmatch uses')
    run.floor(rule, n, floor, 'name-pattern sites')
    return n


def r9_escape_when_no_regex(ctx, modules, rule='R9e'):
    """In modules whose steps have a `regex` switch: every pattern built from a name uses the raw name only on the regex side
    of a conditional on that switch and re.escape(name) on the other side (expression or statement form, in any function of
    the module, helpers included)."""
    run = ctx.run
    run.rule(rule, 'REGEX-SWITCH: in a step that has a `regex` option every pattern built from a name uses the raw name '
                   'only when regex is on and re.escape(name) when it is off')
    from sa.normalize import resolve_here
    n = 0
    for modname in sorted(modules if not isinstance(modules, list) else [f.module.name for f in modules]):
        m = ctx.repo.module(modname)
        has_switch = any('regex' in f.all_params for f in ctx.repo.functions.values() if f.module is m)
        if not has_switch:
            continue
        for c in ast.walk(m.tree):
            if not (isinstance(c, ast.Call) and ctx.res.external_name(c) == 're.compile' and c.args):
                continue
            pat = c.args[0]
            if isinstance(pat, ast.Constant):
                continue
            n += 1
            rp = resolve_here(pat)
            ok = False
            for x in ast.walk(rp):
                if isinstance(x, ast.IfExp) and isinstance(x.test, ast.Name):
                    pos, neg = x.body, x.orelse
                    esc = isinstance(neg, ast.Call) and u(neg.func) == 're.escape'
                    raw = not (isinstance(pos, ast.Call) and u(pos.func) == 're.escape')
                    ok = ok or (esc and raw and u(neg.args[0]) == u(pos))
            if not ok:
                f = ctx.repo.enclosing_func(c)
                scope = f.node if f is not None else m.tree
                for st in ast.walk(scope):
                    if isinstance(st, ast.If) and isinstance(st.test, (ast.Name, ast.UnaryOp)) and 'regex' in names_in(st.test):
                        negated = isinstance(st.test, ast.UnaryOp) and isinstance(st.test.op, ast.Not)
                        neg_branch = st.body if negated else st.orelse
                        pos_branch = st.orelse if negated else st.body
                        if any(isinstance(z, ast.Call) and u(z.func) == 're.escape' for y in neg_branch for z in ast.walk(y)):
                            ok = True
                        # the pattern is compiled only on the regex side, plain equality on the other (unpivot)
                        if any(c is z for y in pos_branch for z in ast.walk(y)) and \
                                not any(isinstance(z, ast.Call) and u(z.func) in ('re.compile', 're.match', 're.search')
                                        for y in neg_branch for z in ast.walk(y)):
                            ok = True
            run.check(ok, rule, where(ctx.repo, c), fq(ctx.repo, c), c,
                      'with regex disabled the name reaches the pattern without re.escape (or with regex enabled it '
                      'is escaped)')
    return n


# ---------------------------------------------------------------------- R10 arity

def _sig(fi):
    a = fi.node.args
    pos = [x.arg for x in a.posonlyargs + a.args]
    n_def = len(a.defaults)
    required = pos[:len(pos) - n_def] if n_def else list(pos)
    kwonly = [x.arg for x in a.kwonlyargs]
    kwreq = [x.arg for x, d in zip(a.kwonlyargs, a.kw_defaults) if d is None]
    return pos, required, kwonly, kwreq, a.vararg is not None, a.kwarg is not None


def bind_error(call, fi, drop_first):
    """None if the call binds to fi's signature, else a message."""
    if any(isinstance(x, ast.Starred) for x in call.args) or any(k.arg is None for k in call.keywords):
        return None
    pos, required, kwonly, kwreq, var, kw = _sig(fi)
    if drop_first and pos:
        first = pos[0]
        pos = pos[1:]
        required = [r for r in required if r != first]
    npos = len(call.args)
    if npos > len(pos) and not var:
        return 'takes %d positional argument(s) but %d given' % (len(pos), npos)
    given = set(pos[:npos])
    for k in call.keywords:
        if k.arg in given:
            return 'multiple values for argument %r' % k.arg
        if k.arg not in pos and k.arg not in kwonly and not kw:
            return 'unexpected keyword argument %r' % k.arg
        given.add(k.arg)
    missing = [r for r in required if r not in given] + [r for r in kwreq if r not in given]
    if missing:
        return 'missing required argument(s) %s' % ', '.join(repr(m) for m in missing)
    return None


def r10_arity(ctx, modules=None, rule='R10'):
    run = ctx.run
    run.rule(rule, 'ARITY: every call that resolves to a repository function binds to that function\'s signature')
    res = ctx.res
    n = 0
    for m in ctx.repo.modules.values():
        if modules is not None and m.name not in modules:
            continue
        for c in ast.walk(m.tree):
            if not isinstance(c, ast.Call):
                continue
            f = c.func
            targets = res._resolve_callee(f, m, ctx.repo.enclosing_func(c))
            for t in targets:
                drop = False
                fi = None
                if isinstance(t, FuncInfo):
                    fi = t
                    if isinstance(fi.node, ast.Lambda):
                        drop = False
                    elif fi.cls is not None:
                        deco = [u(d) for d in fi.node.decorator_list]
                        if 'staticmethod' in deco:
                            drop = False
                        elif isinstance(f, ast.Attribute):
                            v = f.value
                            is_cls_ref = isinstance(res.resolve_expr_static(v, m, ctx.repo.enclosing_func(c)), ClassInfo)
                            drop = not is_cls_ref or 'classmethod' in deco
                        else:
                            drop = False
                elif isinstance(t, ClassInfo):
                    fi = res.lookup_method(t, '__init__')
                    if fi is None:
                        continue
                    if res.external_bases(t) and any(x.endswith('namedtuple') for x in res.external_bases(t)):
                        continue
                    drop = True
                if fi is None:
                    continue
                err = bind_error(res.effective_call(c, m, ctx.repo.enclosing_func(c)), fi, drop)
                n += 1
                run.check(err is None, rule, where(ctx.repo, c), fq(ctx.repo, c), c,
                          'call to %s does not bind: %s (this path raises TypeError whenever it is taken)'
                          % (fi.qualname, err))
    return n


def r8_selector_not_truth_tested(ctx, rule='R8t'):
    """0 and [] are meaningful selectors (first resource / no resource): the selector value must never be used as a truth value."""
    run = ctx.run
    run.rule(rule, 'SELECTOR-NOT-TRUTH-TESTED: the `resources` selector of a step is never used in a truth-value position (if / and / or '
                   '/ not / conditional expression); only `is None` comparisons may decide on it, because the integer 0 and the empty '
                   'list are valid selectors that differ from None')
    n = 0
    sites = matcher_sites(ctx.repo, ctx.res)
    selectors = set()
    for c in sites:
        if c.args:
            for nm in names_in(c.args[0]):
                if nm not in ('self', 'None'):
                    selectors.add((ctx.repo.module_of(c).name, nm))
    for modname, sel in sorted(selectors):
        m = ctx.repo.module(modname)
        for node in ast.walk(m.tree):
            tests = []
            if isinstance(node, (ast.If, ast.While, ast.IfExp)):
                tests.append(node.test)
            elif isinstance(node, ast.Assert):
                tests.append(node.test)
            elif isinstance(node, ast.BoolOp):
                tests.extend(node.values)
            elif isinstance(node, ast.UnaryOp) and isinstance(node.op, ast.Not):
                tests.append(node.operand)
            elif isinstance(node, ast.comprehension):
                tests.extend(node.ifs)
            for t in tests:
                if pseudo(t) == sel:
                    n += 1
                    run.fail(rule, where(ctx.repo, t), fq(ctx.repo, t), 'truth test of selector %s' % sel,
                             'the selector %s is used as a truth value: resources=0 and resources=[] are then treated like None '
                             '(all resources) instead of "first resource" / "no resource"' % sel)
    if n == 0:
        run.ok(rule, 'dataflows', 'selectors %s' % sorted(s_ for _, s_ in selectors), 'no truth test in %d modules' % len(selectors))
    return n
