"""R12 instances for pass-through observers (C05) and generic row-loop shape helpers."""
import ast

from sa.deps import Facts, base_name, names_in, pseudo
from sa.loader import AnalysisError, FuncInfo, own_nodes
from sa.model import fq, row_loops, rowloop_signature, u, where
from sa.paths import BREAK, CONTINUE, FALL, RAISE, RETURN, path_nodes


def transparent_loop(ctx, rule, fi, loop, var, effects=(), what=''):
    """Every path through one iteration yields the loop variable itself exactly once, stores nothing into it, does not leave
    the loop early, and (if `effects` given) calls one of the named side-effect functions with the row."""
    run = ctx.run
    sigs = rowloop_signature(fi, loop, var)
    ok_all = True
    for s in sigs:
        g = ' & '.join(('' if p else 'not ') + u(t) for t, p in s.guards) or '<always>'
        if s.term == RAISE:
            continue
        kinds = [k for k, _ in s.yields]
        problems = []
        if kinds != ['identity']:
            problems.append('yields %s instead of exactly the incoming row' % (kinds or 'nothing'))
        if s.stores:
            problems.append('stores into the row (%s)' % u(s.stores[0])[:60])
        if s.term in (BREAK, RETURN):
            problems.append('leaves the loop early (%s)' % s.term)
        if effects:
            eff = [c for c in s.calls if (isinstance(c.func, ast.Attribute) and c.func.attr in effects or
                                          isinstance(c.func, ast.Name) and c.func.id in effects)
                   and any(isinstance(a, ast.Name) and a.id == var for a in c.args)]
            if len(eff) != 1:
                problems.append('%d side-effect call(s) %s(%s) on this path' % (len(eff), '/'.join(effects), var))
            elif s.yields:
                # the row must be persisted *before* it is handed downstream: a later step may modify it in place
                order = [n for n in path_nodes(s.path, into_loops=True) if n is eff[0] or n is s.yields[0][1]]
                if order and order[0] is not eff[0]:
                    problems.append('the row is yielded before it is written: a downstream step that edits rows in place '
                                    'changes what gets persisted')
        if problems:
            ok_all = False
            run.fail(rule, where(ctx.repo, loop), fi.qualname, '%s: %s' % (what or u(loop.iter), g),
                     'observer is not transparent/complete for this row: ' + '; '.join(problems), path=s.path.describe())
    if ok_all:
        run.ok(rule, where(ctx.repo, loop), fi.qualname + ' for %s in %s' % (var, u(loop.iter)),
               '%d paths: one identity yield, no store, no early exit%s' % (len(sigs), ', one %s call' % '/'.join(effects)
                                                                             if effects else ''))
    return ok_all


def single_row_loop(ctx, fi, stream=None):
    rls = row_loops(fi, streams=[stream] if stream else None)
    if len(rls) != 1:
        raise AnalysisError('%s: expected exactly one row loop, found %d' % (fi.qualname, len(rls)))
    return rls[0]


def identity_process_row(ctx, cls):
    """Is cls's effective process_row the identity `return row`?"""
    pr = ctx.res.lookup_method(cls, 'process_row')
    if pr is None:
        return False
    body = [s for s in pr.node.body if not (isinstance(s, ast.Expr) and isinstance(s.value, ast.Constant))]
    return len(body) == 1 and isinstance(body[0], ast.Return) and isinstance(body[0].value, ast.Name) \
        and body[0].value.id == pr.params[1]
