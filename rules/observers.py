"""R12 instances for pass-through observers (C05) and generic row-loop shape helpers."""
import ast

from sa.pattern import match_expr

from sa.deps import Facts, base_name, names_in, pseudo
from sa.loader import AnalysisError, FuncInfo, own_nodes
from sa.model import fq, row_loops, rowloop_signature, u, where
from sa.paths import BREAK, CONTINUE, FALL, RAISE, RETURN, path_nodes


def _direct_refs(v):
    """Names an expression evaluates to *by reference* (itself, or as an element of a literal container / conditional)."""
    if isinstance(v, ast.Name):
        return {v.id}
    if isinstance(v, (ast.Tuple, ast.List, ast.Set)):
        out = set()
        for e in v.elts:
            out |= _direct_refs(e)
        return out
    if isinstance(v, ast.Dict):
        out = set()
        for e in v.values:
            out |= _direct_refs(e)
        return out
    if isinstance(v, ast.IfExp):
        return _direct_refs(v.body) | _direct_refs(v.orelse)
    if isinstance(v, ast.BoolOp):
        out = set()
        for e in v.values:
            out |= _direct_refs(e)
        return out
    if isinstance(v, ast.Starred):
        return _direct_refs(v.value)
    return set()


def row_reference_escapes(fi, loop, var):
    """Places where the row object itself (not a rendering / copy of it) is stored into a container that outlives the
    iteration: (node, container name).  A stored reference is read later - after downstream steps may have edited the row."""
    refs = {var}
    changed = True
    body_nodes = [n for st in loop.body for n in ast.walk(st)]
    while changed:
        changed = False
        for n in body_nodes:
            if isinstance(n, ast.Assign) and len(n.targets) == 1 and isinstance(n.targets[0], ast.Name):
                if n.targets[0].id not in refs and _direct_refs(n.value) & refs:
                    refs.add(n.targets[0].id)
                    changed = True
    out = []
    for n in body_nodes:
        if isinstance(n, ast.Call) and isinstance(n.func, ast.Attribute) and \
                n.func.attr in ('append', 'add', 'insert', 'extend', 'appendleft', 'setdefault', 'update'):
            recv = pseudo(n.func.value) or base_name(n.func.value)
            if recv in refs:
                continue
            if any(_direct_refs(a) & refs for a in n.args):
                out.append((n, recv))
        elif isinstance(n, ast.Assign):
            for t in n.targets:
                if isinstance(t, ast.Subscript) and base_name(t) not in refs and _direct_refs(n.value) & refs:
                    out.append((n, base_name(t)))
    return out


def transparent_loop(ctx, rule, fi, loop, var, effects=(), what=''):
    """Every path through one iteration yields the loop variable itself exactly once, stores nothing into it, does not leave
    the loop early, and (if `effects` given) calls one of the named side-effect functions with the row."""
    run = ctx.run
    sigs = rowloop_signature(fi, loop, var)
    ok_all = True
    for s in sigs:
        g = ' & '.join(('' if p else 'not ') + u(t) for t, p in s.guards) or '<always>'
        if s.term == RAISE:
            continue
        kinds = [k for k, _ in s.yields]
        problems = []
        if kinds != ['identity']:
            problems.append('yields %s instead of exactly the incoming row' % (kinds or 'nothing'))
        if s.stores:
            problems.append('stores into the row (%s)' % u(s.stores[0])[:60])
        if s.term in (BREAK, RETURN):
            problems.append('leaves the loop early (%s)' % s.term)
        if effects:
            eff = [c for c in s.calls if (isinstance(c.func, ast.Attribute) and c.func.attr in effects or
                                          isinstance(c.func, ast.Name) and c.func.id in effects)
                   and any(isinstance(a, ast.Name) and a.id == var for a in c.args)]
            if len(eff) != 1:
                problems.append('%d side-effect call(s) %s(%s) on this path' % (len(eff), '/'.join(effects), var))
            elif s.yields:
                # the row must be persisted *before* it is handed downstream: a later step may modify it in place
                order = [n for n in path_nodes(s.path, into_loops=True) if n is eff[0] or n is s.yields[0][1]]
                if order and order[0] is not eff[0]:
                    problems.append('the row is yielded before it is written: a downstream step that edits rows in place '
                                    'changes what gets persisted')
        if problems:
            ok_all = False
            run.fail(rule, where(ctx.repo, loop), fi.qualname, '%s: %s' % (what or u(loop.iter), g),
                     'observer is not transparent/complete for this row: ' + '; '.join(problems), path=s.path.describe())
    for n, cont in row_reference_escapes(fi, loop, var):
        ok_all = False
        run.fail(rule, where(ctx.repo, n), fi.qualname, '%s: %s' % (what or u(loop.iter), u(n)),
                 'the observer keeps a reference to the row object in %r and uses it after the row was handed downstream: what it '
                 'reports / persists then reflects edits made by later steps, not the stream at its position' % cont)
    if ok_all:
        run.ok(rule, where(ctx.repo, loop), fi.qualname + ' for %s in %s' % (var, u(loop.iter)),
               '%d paths: one identity yield, no store, no early exit%s' % (len(sigs), ', one %s call' % '/'.join(effects)
                                                                             if effects else ''))
    return ok_all


def single_row_loop(ctx, fi, stream=None):
    rls = row_loops(fi, streams=[stream] if stream else None)
    if len(rls) != 1:
        raise AnalysisError('%s: expected exactly one row loop, found %d' % (fi.qualname, len(rls)))
    return rls[0]


def identity_process_row(ctx, cls):
    """Is cls's effective process_row the identity `return row`?"""
    pr = ctx.res.lookup_method(cls, 'process_row')
    if pr is None:
        return False
    body = [s for s in pr.node.body if not (isinstance(s, ast.Expr) and isinstance(s.value, ast.Constant))]
    return len(body) == 1 and isinstance(body[0], ast.Return) and isinstance(body[0].value, ast.Name) \
        and body[0].value.id == pr.params[1]


def writer_keeps_no_row(ctx, rule='R12w'):
    """The format writers behind the file dumpers serialise a row inside the write_row call: neither the row nor the transformed
    row built from it (whose array / object cells are the very objects of the row) is kept in the writer's own state.  A kept
    reference is serialised later - after the row was handed downstream, where a step may edit it in place."""
    run, repo, res = ctx.run, ctx.repo, ctx.res
    run.rule(rule, 'WRITER-KEEPS-NO-ROW: starting from FileFormat.write_row and following every self / super call that is handed the '
                   'row or something built from it (all overriders), no method stores that value in the writer object (self.x = v, '
                   'self.x[k] = v, self.x.append(v) ...) other than by writing it to the output sink: the bytes of a row are fixed '
                   'before the row continues downstream')
    base = repo.cls('dataflows.processors.dumpers.formats.base:FileFormat')
    init = base.methods.get('__init__')
    entry = base.methods.get('write_row')
    if init is None or entry is None:
        raise AnalysisError('FileFormat.__init__ / write_row not found')
    sink = None
    for n in own_nodes(init.node):
        if isinstance(n, ast.Assign) and len(n.targets) == 1 and isinstance(n.value, ast.Name) and len(init.params) > 1 \
                and n.value.id == init.params[1] and pseudo(n.targets[0]) and pseudo(n.targets[0]).startswith('self.'):
            sink = pseudo(n.targets[0])
    if sink is None:
        raise AnalysisError('FileFormat.__init__: the attribute holding the output sink was not found')
    work = [(entry, frozenset(entry.params[1:]))]
    seen = set()
    n_methods = 0
    while work:
        fi, params = work.pop()
        key = (fi.qualname, params)
        if key in seen or not params:
            continue
        seen.add(key)
        n_methods += 1
        refs = set(params)
        nodes = list(own_nodes(fi.node))

        def is_self_call(c):
            f = c.func
            return isinstance(f, ast.Attribute) and (pseudo(f.value) == 'self' or (isinstance(f.value, ast.Call) and u(f.value.func) == 'super'))

        def carries(e):
            """does evaluating e give the row / something holding its cells by reference?"""
            if _direct_refs(e) & refs:
                return True
            if isinstance(e, ast.Call) and is_self_call(e) and any(carries(a) for a in e.args):
                return True
            if isinstance(e, (ast.DictComp, ast.ListComp, ast.GeneratorExp, ast.SetComp)):
                return any(pseudo(g.iter) in refs or (isinstance(g.iter, ast.Call) and isinstance(g.iter.func, ast.Attribute) and
                                                      pseudo(g.iter.func.value) in refs) for g in e.generators)
            return False
        changed = True
        while changed:
            changed = False
            for n in nodes:
                if isinstance(n, ast.Assign) and len(n.targets) == 1 and isinstance(n.targets[0], ast.Name) and \
                        n.targets[0].id not in refs and carries(n.value):
                    refs.add(n.targets[0].id)
                    changed = True
        bad = []
        for n in nodes:
            if isinstance(n, ast.Call) and isinstance(n.func, ast.Attribute):
                recv = pseudo(n.func.value) or ''
                if n.func.attr in ('append', 'add', 'insert', 'extend', 'appendleft', 'setdefault', 'update', 'put') and \
                        recv.startswith('self.') and not (recv == sink or recv.startswith(sink + '.')) and any(carries(a) for a in n.args):
                    bad.append(n)
                if is_self_call(n):
                    idx = [i for i, a in enumerate(n.args) if carries(a)]
                    if idx:
                        for t in res.resolve_call(n):
                            if isinstance(t, FuncInfo) and not isinstance(t.node, ast.Lambda):
                                ps = [p for p in t.params if p not in ('self', 'cls')]
                                if t.node.args.vararg is not None and not ps:
                                    continue
                                work.append((t, frozenset(ps[i] for i in idx if i < len(ps))))
            elif isinstance(n, ast.Assign):
                for t in n.targets:
                    p = pseudo(t) if not isinstance(t, ast.Subscript) else (pseudo(t.value) or '')
                    if p and p.startswith('self.') and not (p == sink or p.startswith(sink + '.')) and carries(n.value):
                        bad.append(n)
        for n in bad:
            run.fail(rule, where(repo, n), fi.qualname, 'row kept in writer state: %s' % u(n)[:80],
                     'the writer keeps the row (or the transformed row, whose array / object cells are the row\'s own objects) in its '
                     'state instead of serialising it during the call: it is written after the row went downstream, so an in-place edit '
                     'by a later step changes the bytes on disk')
        if not bad:
            run.ok(rule, fi.where, fi.qualname + '(%s)' % ', '.join(sorted(params)), 'nothing row-derived stored in self.*')
    run.floor(rule, n_methods, 5, 'writer methods reached from write_row')
    return n_methods


def json_object_is_row(ctx, rule='R16j'):
    """The JSON writer serialises the transformed row itself: one object per row whose keys are the field names of the schema.  An
    object that is re-keyed on the way (by titles, by a user mapping) loses a value whenever two keys collide and is read back under
    names the stamped schema does not have."""
    run, repo, res = ctx.run, ctx.repo, ctx.res
    run.rule(rule, 'JSON-OBJECT: in JSONFormat.write_transformed_row (helpers inlined) exactly one json.dumps call is written per row '
                   'and its argument is the transformed row it was given, on every path')
    j = repo.cls('dataflows.processors.dumpers.formats.format_json:JSONFormat')
    wt0 = j.methods.get('write_transformed_row')
    if wt0 is None:
        raise AnalysisError('JSONFormat.write_transformed_row not found')
    wt = ctx.N(wt0)
    rowp = wt.params[1] if len(wt.params) > 1 else None
    from sa.pathvals import PathValues
    from sa.paths import Enumerator as _En
    n_paths, ok, seen_dump = 0, rowp is not None, False
    for p in _En(where=wt0.qualname).paths(wt.node.body):
        n_paths += 1
        pv = PathValues(p)
        dumps = []
        for o_, c_ in pv.stmts:
            for x in ast.walk(c_):
                if isinstance(x, ast.Call) and u(x.func) in ('json.dumps', 'json.dump'):
                    dumps.append(x)
        for ev in pv.events:
            if ev[0] == 'assign':
                for x in ast.walk(ev[2]):
                    if isinstance(x, ast.Call) and u(x.func) in ('json.dumps', 'json.dump'):
                        dumps.append(x)
        seen_dump = seen_dump or bool(dumps)
        # (a call bound to a local first is seen again where the local is used: the same call)
        ok = ok and len({ast.dump(d) for d in dumps}) == 1 and bool(dumps[0].args) and pseudo(dumps[0].args[0]) == rowp
    if not seen_dump:
        raise AnalysisError('JSONFormat.write_transformed_row: no json.dumps call found (helpers inlined)')
    run.check(ok and n_paths >= 1, rule, wt0.where, j.qualname, 'json.dumps(<the transformed row>)',
              'the object written for a row is not the transformed row itself (it is re-keyed or rebuilt on the way): values are lost '
              'where two keys collide and the file no longer has the field names of the stamped schema')
    # GeoJSON builds a feature around the row's properties: they are the transformed row's entries (minus the geometry), not re-keyed
    g = repo.classes.get('dataflows.processors.dumpers.formats.format_geojson:GeoJSONFormat')
    if g is not None and g.methods.get('write_transformed_row') is not None:
        gw = ctx.N(g.methods['write_transformed_row'])
        gp = gw.params[1]
        props = [k.value for c in ast.walk(gw.node) if isinstance(c, ast.Call) and isinstance(c.func, ast.Name) and c.func.id == 'dict'
                 for k in c.keywords if k.arg == 'properties'] + \
                [v for d in ast.walk(gw.node) if isinstance(d, ast.Dict) for k, v in zip(d.keys, d.values)
                 if isinstance(k, ast.Constant) and k.value == 'properties']
        okg = len(props) == 1 and isinstance(props[0], ast.Name)
        if okg:
            pn = props[0].id
            from sa.normalize import resolve_here as _rh
            loops = [l for l in ast.walk(gw.node) if isinstance(l, ast.For) and
                     ((match_expr('%s.items()' % gp, l.iter) is not None and isinstance(l.target, ast.Tuple) and len(l.target.elts) == 2
                       and all(isinstance(t, ast.Name) for t in l.target.elts)) or
                      ((match_expr('%s.keys()' % gp, l.iter) is not None or pseudo(l.iter) == gp) and isinstance(l.target, ast.Name)))]
            stores = [a for a in ast.walk(gw.node) if isinstance(a, ast.Assign) and isinstance(a.targets[0], ast.Subscript)
                      and pseudo(a.targets[0].value) == pn]
            okg = len(loops) == 1 and len(stores) == 1 and any(stores[0] is x for x in ast.walk(loops[0]))
            if okg:
                lp_ = loops[0]
                kv = lp_.target.elts[0].id if isinstance(lp_.target, ast.Tuple) else lp_.target.id
                vv = lp_.target.elts[1].id if isinstance(lp_.target, ast.Tuple) else None
                val_ = stores[0].value
                okg = pseudo(stores[0].targets[0].slice) == kv and \
                    ((vv is not None and pseudo(val_) == vv) or u(_rh(val_)) == '%s[%s]' % (gp, kv))
        # ... and every row becomes one feature: on every path through the method the feature is handed to the JSON writer exactly once
        from sa.paths import Enumerator as _Eng
        for p_ in _Eng(where=gw.qualname).paths(gw.node.body):
            if p_.term == 'raise':
                continue
            calls_ = [c for it_ in p_.items if it_.kind in ('stmt', 'return') and isinstance(it_.node, ast.AST) for c in ast.walk(it_.node)
                      if isinstance(c, ast.Call) and isinstance(c.func, ast.Attribute) and c.func.attr in ('write_transformed_row', 'write_object')]
            calls_ += [c for it_ in p_.items if it_.kind in ('stmt', 'return') and isinstance(it_.node, ast.AST) for c in ast.walk(it_.node)
                       if isinstance(c, ast.Call) and u(c.func) in ('json.dumps', 'json.dump')]
            okg = okg and len(calls_) == 1
        run.check(okg, rule, gw.where, g.qualname, 'properties[k] = v for the entries of the transformed row (geometry apart)',
                  'the properties of a GeoJSON feature are not the entries of the transformed row under their field names, or a row is '
                  'not written as exactly one feature on some path (it is still counted)')


def observer_completes(ctx, rule='R6d'):
    """An observer records a resource inside the generator it hands downstream (the dumper's writer finishes and copies out the file
    after its row loop; the stream writer writes each row as it passes).  What it has recorded when it goes on to the next resource is
    therefore what the consumer chose to pull: a later step that stops reading a resource early (`yield from itertools.islice(rows, 2)`,
    load's limiter on a (descriptor, iterators) source) leaves the observer with a part of the stream - or, for a file dumper, with no
    data file at all.  The observer holds the generator and is resumed exactly when the consumer asks for the next resource: that is
    where it can run the generator to its end."""
    from sa.model import is_drain_call, is_drain_loop
    run, repo, res = ctx.run, ctx.repo, ctx.res
    run.rule(rule, 'OBSERVER-COMPLETES: in the resource loop of a recording observer (DumperBase.process_resources, stream), the '
                   'per-resource generator that was yielded downstream is run to its end (drained) before the loop goes on')
    sites = [repo.cls('dataflows.processors.dumpers.dumper_base:DumperBase').methods.get('process_resources'),
             repo.func('dataflows.processors.stream:stream.func')]
    n = 0
    for f0 in sites:
        if f0 is None:
            raise AnalysisError('observer resource loop not found (DumperBase.process_resources)')
        f = ctx.N(f0)
        loops = [l for l in own_nodes(f.node) if isinstance(l, ast.For) and any(isinstance(y, ast.Yield) for st in l.body for y in ast.walk(st))]
        if len(loops) != 1:
            raise AnalysisError('%s: the loop that yields one generator per resource was not found' % f0.qualname)
        lp = loops[0]
        ypos = [i for i, st in enumerate(lp.body) if isinstance(st, ast.Expr) and isinstance(st.value, ast.Yield)]
        if len(ypos) != 1:
            raise AnalysisError('%s: expected one top-level yield in the resource loop' % f0.qualname)
        y = lp.body[ypos[0]].value
        held = pseudo(y.value)
        drained = False
        if held:
            for st in lp.body[ypos[0] + 1:]:
                if is_drain_loop(st, held):
                    drained = True
                for c in ast.walk(st):
                    if isinstance(c, ast.Call) and c.args and pseudo(c.args[0]) == held and is_drain_call(res, c):
                        drained = True
        n += 1
        run.check(drained, rule, where(repo, y), f0.qualname, 'yield <recording generator>; then run it to its end',
                  'the generator in which the observer records a resource is handed downstream and never looked at again: when a later '
                  'step stops reading that resource early, the observer has recorded only the rows that were pulled (a file dumper: no '
                  'data file at all, while the descriptor is written)')
    return n
