"""R15 COMMIT-ORDER: ordering / dominance of named events on every path of a function."""
import ast

from sa.loader import AnalysisError, own_nodes
from sa.model import fq, u, where
from sa.paths import (BREAK, CONTINUE, FALL, RAISE, RETURN, Enumerator, Item, Path, eval_order, item_nodes)


class Ev:
    __slots__ = ('name', 'node', 'loops', 'handler', 'final', 'partial')

    def __init__(self, name, node, loops, handler, final, partial):
        self.name, self.node = name, node
        self.loops = loops        # tuple of loop nodes this event is nested in (relative to the function body)
        self.handler = handler    # inside an except handler
        self.final = final        # inside a finally block
        self.partial = partial    # inside a try body that was only partially executed

    def __repr__(self):
        f = ''.join([('L%d' % len(self.loops)) if self.loops else '', 'H' if self.handler else '',
                     'F' if self.final else ''])
        return '%s%s' % (self.name, ('[' + f + ']') if f else '')


def _events_in_node(node, preds, loops, handler, final, out):
    """Walk a statement (including nested loops / ifs / try) in evaluation order, recording events."""
    if isinstance(node, (ast.For, ast.AsyncFor, ast.While)):
        head = node.iter if isinstance(node, (ast.For, ast.AsyncFor)) else node.test
        for n in eval_order(head):
            _match(n, preds, loops, handler, final, out)
        out.append(Ev('LOOP-ENTER', node, loops, handler, final, False))
        for st in node.body:
            _events_in_node(st, preds, loops + (node,), handler, final, out)
        out.append(Ev('LOOP-EXIT', node, loops, handler, final, False))
        for st in node.orelse:
            _events_in_node(st, preds, loops, handler, final, out)
        return
    if isinstance(node, ast.If):
        for n in eval_order(node.test):
            _match(n, preds, loops, handler, final, out)
        for st in node.body + node.orelse:
            _events_in_node(st, preds, loops, handler, final, out)
        return
    if isinstance(node, ast.Try):
        for st in node.body:
            _events_in_node(st, preds, loops, handler, final, out)
        for h in node.handlers:
            for st in h.body:
                _events_in_node(st, preds, loops, True, final, out)
        for st in node.orelse:
            _events_in_node(st, preds, loops, handler, final, out)
        for st in node.finalbody:
            _events_in_node(st, preds, loops, handler, True, out)
        return
    if isinstance(node, (ast.With, ast.AsyncWith)):
        for it in node.items:
            for n in eval_order(it.context_expr):
                _match(n, preds, loops, handler, final, out)
        for st in node.body:
            _events_in_node(st, preds, loops, handler, final, out)
        return
    if isinstance(node, (ast.FunctionDef, ast.AsyncFunctionDef, ast.ClassDef)):
        return
    for n in eval_order(node):
        _match(n, preds, loops, handler, final, out)


def _match(n, preds, loops, handler, final, out):
    for name, pred in preds.items():
        try:
            hit = pred(n)
        except Exception:
            hit = False
        if hit:
            out.append(Ev(name, n, loops, handler, final, False))


def path_events(fi, preds, cap=4096):
    """-> list of (Path, [Ev]) over all paths through the function body.  Loops on the path are walked
    structurally (all events inside, flagged with their loop nesting)."""
    en = Enumerator(cap=cap, where=fi.qualname,
                    relevant=lambda n: any(_safe(p, n) for p in preds.values()))
    body = fi.node.body if isinstance(fi.node.body, list) else [ast.Expr(fi.node.body)]
    res = []
    for p in en.paths(body):
        evs = []
        handler = final = False
        for it in p.items:
            if it.kind == 'handler':
                handler = True
                continue
            if it.kind == 'finally':
                final = True
                continue
            if it.kind == 'try_partial':
                tmp = []
                for st in it.inner:
                    _events_in_node(st, preds, (), handler, final, tmp)
                for e in tmp:
                    e.partial = True
                evs.extend(tmp)
                continue
            if it.kind in ('loop', 'opaque_if'):
                _events_in_node(it.node, preds, (), handler, final, evs)
                continue
            if it.kind == 'loop_exit':
                tmp = []
                _events_in_node(it.node, preds, (), handler, final, tmp)
                evs.extend(tmp)
                continue
            for n in item_nodes(it):
                _match(n, preds, (), handler, final, evs)
        res.append((p, evs))
    return res


def _safe(p, n):
    try:
        return p(n)
    except Exception:
        return False


def call_named(*attrs):
    """predicate: a call `<anything>.<attr>(...)` or `<attr>(...)`"""
    def pred(n):
        if not isinstance(n, ast.Call):
            return False
        f = n.func
        if isinstance(f, ast.Attribute):
            return f.attr in attrs
        if isinstance(f, ast.Name):
            return f.id in attrs
        return False
    return pred


def check_order(ctx, rule, fi, preds, before=(), after_loop=(), forbid_ctx=(), required=(), once=(), not_after=()):
    """before: (A, B) pairs - on every path each B is preceded by an A that is not inside a loop B is outside of.
    after_loop: (X, loop_pred) - X occurs outside that loop and after its LOOP-EXIT.
    forbid_ctx: names that must not occur in handler / finally context.
    required: names that must occur on every normally-terminating path.
    once: names that occur at most once per path and in no loop."""
    run = ctx.run
    pes = path_events(fi, preds)
    n = 0
    problems = {}
    for p, evs in pes:
        names = [e.name for e in evs]
        for a, b in before:
            for i, e in enumerate(evs):
                if e.name != b:
                    continue
                ok = any(x.name == a and not x.partial and (not x.loops or x.loops == e.loops[:len(x.loops)])
                         for x in evs[:i])
                if not ok:
                    problems.setdefault((a + ' before ' + b, e.node), p)
        for a, b in not_after:
            seen_b = False
            for e in evs:
                if e.name == b:
                    seen_b = True
                elif e.name == a and seen_b:
                    problems.setdefault((a + ' never after ' + b, e.node), p)
        for x, loop_pred in after_loop:
            for i, e in enumerate(evs):
                if e.name != x:
                    continue
                inside = any(loop_pred(l) for l in e.loops) or e.partial
                exits = [k for k, y in enumerate(evs[:i]) if y.name == 'LOOP-EXIT' and loop_pred(y.node) and not y.partial]
                if inside or not exits:
                    problems.setdefault((x + ' only after the loop has completed', e.node), p)
        for x in forbid_ctx:
            for e in evs:
                if e.name == x and (e.handler or e.final):
                    problems.setdefault((x + ' not inside except/finally', e.node), p)
        if p.term in (FALL, RETURN):
            for x in required:
                if x not in names:
                    problems.setdefault((x + ' on every normal path', fi.node), p)
        for x in once:
            occ = [e for e in evs if e.name == x]
            if len(occ) > 1 or any(e.loops for e in occ):
                problems.setdefault((x + ' exactly once, outside loops', occ[0].node), p)
        n += 1
    return pes, problems


def report_order(ctx, rule, fi, problems, pes, what, message):
    run = ctx.run
    if not problems:
        run.ok(rule, fi.where, fi.qualname + ': ' + what, '%d paths' % len(pes))
        return True
    for (constraint, node), p in problems.items():
        run.fail(rule, where(ctx.repo, node), fi.qualname, constraint + ' :: ' + (u(node).split('\n')[0][:100]),
                 message + ' (violated ordering constraint: ' + constraint + ')', path=p.describe())
    return False
